"""Union branch selection (C09), executable oracle written from the property statement."""


def _type(s):
    if isinstance(s, dict):
        return s["type"]
    if isinstance(s, list):
        return "union"
    return s


NAMED = ("record", "enum", "fixed", "error")


def branch_name(b):
    """the name a (name, value) hint is matched against: full name for named-type
    definitions, the reference string for by-name branches, the type name otherwise"""
    t = _type(b)
    if isinstance(b, dict) and t in NAMED:
        return b["name"]
    return t


def strip_hint(d, o):
    if isinstance(d, tuple) and not o.get("disable_tuple_notation"):
        return d[1]
    return d


def select(u, ns, d, o):
    """index of the branch the writer must choose; ValueError when none"""
    from spec.avro import CONFORMS
    if isinstance(d, tuple) and not o.get("disable_tuple_notation"):
        name, value = d
        for i, b in enumerate(u):
            if branch_name(b) == name:
                return i
        raise ValueError("no branch with that name")

    def deref(b):
        return ns[b] if isinstance(b, str) and b in ns else b

    def is_record(b):
        return _type(deref(b)) in ("record", "error")
    # a '-type' hint: only the record branch with that full name conforms (CONFORMS handles it)
    first_nonrec = None
    for i, b in enumerate(u):
        if not is_record(b) and CONFORMS(d, b, ns, o):
            first_nonrec = i
            break
    if first_nonrec is not None:
        if _type(deref(u[first_nonrec])) == "float":
            for j in range(first_nonrec + 1, len(u)):
                if _type(u[j]) == "double":
                    return j
        return first_nonrec
    best, most = None, -1
    for i, b in enumerate(u):
        if is_record(b) and CONFORMS(d, b, ns, o):
            rb = deref(b)
            shared = len(set(f["name"] for f in rb["fields"]) & set(d))
            if shared > most:
                best, most = i, shared
    if best is None:
        raise ValueError("datum matches no branch")
    return best
