"""Executable specification of the object container file layout (C04-C07): the bytes of
a block as the specification prescribes them, codec payloads through assumed external
codec functions."""
from pyvc.dsl import spec, opaque, axiom
from pyvc.contracts import implies
from spec.core import long_bytes


@opaque
def ZLIB(data: bytes, level: object) -> bytes:
    """zlib.compress(data[, level]) (assumed external)"""
    import zlib
    return zlib.compress(data) if level is None else zlib.compress(data, level)


@opaque
def BZ2(data: bytes) -> bytes:
    import bz2
    return bz2.compress(data)


@opaque
def XZ(data: bytes) -> bytes:
    import lzma
    return lzma.compress(data)


@opaque
def RAW_INFLATE(data: bytes) -> bytes:
    import zlib
    return zlib.decompressobj(-15).decompress(data)


@opaque
def BZ2_D(data: bytes) -> bytes:
    import bz2
    return bz2.decompress(data)


@opaque
def XZ_D(data: bytes) -> bytes:
    import lzma
    return lzma.decompress(data)


@spec
def COMP(codec: str, data: bytes, level: object) -> bytes:
    """the payload a block of `data` has under `codec`: raw deflate is the zlib stream
    without its 2-byte header (the 4-byte checksum is cut as well; fastavro leaves three of
    its bytes, which raw inflate ignores)"""
    if codec == "deflate":
        return ZLIB(data, level)[2:len(ZLIB(data, level)) - 1]
    if codec == "bzip2":
        return BZ2(data)
    if codec == "xz":
        return XZ(data)
    return data


@spec
def DECOMP(codec: str, payload: bytes) -> bytes:
    if codec == "deflate":
        return RAW_INFLATE(payload)
    if codec == "bzip2":
        return BZ2_D(payload)
    if codec == "xz":
        return XZ_D(payload)
    return payload


@axiom("ZLIB")
def ax_deflate_pair(data: bytes, level: object) -> bool:
    """raw inflate of a zlib stream stripped of its 2-byte header returns the data (it stops at
    the end of the deflate stream and ignores what is left of the checksum)"""
    return RAW_INFLATE(ZLIB(data, level)[2:len(ZLIB(data, level)) - 1]) == data and len(ZLIB(data, level)) >= 6


@axiom("BZ2")
def ax_bz2_pair(data: bytes) -> bool:
    return BZ2_D(BZ2(data)) == data


@axiom("XZ")
def ax_xz_pair(data: bytes) -> bool:
    return XZ_D(XZ(data)) == data


@spec
def BLOCK_PAYLOAD(codec: str, data: bytes, level: object) -> bytes:
    """byte length of the payload, then the payload"""
    return long_bytes(len(COMP(codec, data, level))) + COMP(codec, data, level)


@spec
def BLOCK_BYTES(codec: str, count: int, data: bytes, level: object, sync: bytes) -> bytes:
    """a file data block: record count, payload length, payload, 16-byte sync marker"""
    return long_bytes(count) + BLOCK_PAYLOAD(codec, data, level) + sync
