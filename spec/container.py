"""Executable specification of the object container file layout (C04-C07): the bytes of
a block as the specification prescribes them, codec payloads through assumed external
codec functions."""
from pyvc.dsl import spec, opaque, axiom, dset
from pyvc.contracts import implies
from spec.core import long_bytes, utf8
from spec.avro import ITEMS_WF, ITEMS_REM, ITEM_VALS, ENC


@opaque
def ZLIB(data: bytes, level: object) -> bytes:
    """zlib.compress(data[, level]) (assumed external)"""
    import zlib
    return zlib.compress(data) if level is None else zlib.compress(data, level)


@opaque
def BZ2(data: bytes) -> bytes:
    import bz2
    return bz2.compress(data)


@opaque
def XZ(data: bytes) -> bytes:
    import lzma
    return lzma.compress(data)


@opaque
def RAW_INFLATE(data: bytes) -> bytes:
    import zlib
    return zlib.decompressobj(-15).decompress(data)


@opaque
def BZ2_D(data: bytes) -> bytes:
    import bz2
    return bz2.decompress(data)


@opaque
def XZ_D(data: bytes) -> bytes:
    import lzma
    return lzma.decompress(data)


@spec
def COMP(codec: str, data: bytes, level: object) -> bytes:
    """the payload a block of `data` has under `codec`: raw deflate is the zlib stream
    without its 2-byte header (the 4-byte checksum is cut as well; fastavro leaves three of
    its bytes, which raw inflate ignores)"""
    if codec == "deflate":
        return ZLIB(data, level)[2:len(ZLIB(data, level)) - 1]
    if codec == "bzip2":
        return BZ2(data)
    if codec == "xz":
        return XZ(data)
    return data


@spec
def DECOMP(codec: str, payload: bytes) -> bytes:
    if codec == "deflate":
        return RAW_INFLATE(payload)
    if codec == "bzip2":
        return BZ2_D(payload)
    if codec == "xz":
        return XZ_D(payload)
    return payload


@axiom("ZLIB")
def ax_deflate_pair(data: bytes, level: object) -> bool:
    """raw inflate of a zlib stream stripped of its 2-byte header returns the data (it stops at
    the end of the deflate stream and ignores what is left of the checksum)"""
    return RAW_INFLATE(ZLIB(data, level)[2:len(ZLIB(data, level)) - 1]) == data and len(ZLIB(data, level)) >= 6


@axiom("BZ2")
def ax_bz2_pair(data: bytes) -> bool:
    return BZ2_D(BZ2(data)) == data


@axiom("XZ")
def ax_xz_pair(data: bytes) -> bool:
    return XZ_D(XZ(data)) == data


@spec
def BLOCK_PAYLOAD(codec: str, data: bytes, level: object) -> bytes:
    """byte length of the payload, then the payload"""
    return long_bytes(len(COMP(codec, data, level))) + COMP(codec, data, level)


@spec
def BLOCK_BYTES(codec: str, count: int, data: bytes, level: object, sync: bytes) -> bytes:
    """a file data block: record count, payload length, payload, 16-byte sync marker"""
    return long_bytes(count) + BLOCK_PAYLOAD(codec, data, level) + sync


# ------------------------------------------------------------ data blocks of a file (reader side)
# A *file derivation* bl is a list of blocks, each a pair (record count, [record derivations]);
# the record derivations are the encoding derivations of spec/avro.py (any block partition of
# arrays/maps inside the records).  FILE_BLOCKS is what the specification says the file holds
# after the header; FILE_VALS the records it denotes.

@spec
def BLOCKS_OK(s: object, ns: dict, bl: list, k: int) -> bool:
    """blocks bl[k:] are well-formed: the count is the number of records (0 allowed: empty blocks)"""
    if k >= len(bl):
        return True
    return (isinstance(bl[k], tuple) and len(bl[k]) == 2 and isinstance(bl[k][0], int)
            and not isinstance(bl[k][0], bool) and isinstance(bl[k][1], list)
            and bl[k][0] == len(bl[k][1]) and ITEMS_WF(s, ns, bl[k][1], 0, False)
            and BLOCKS_OK(s, ns, bl, k + 1))


@spec
def FILE_BLOCKS(codec: str, s: object, ns: dict, bl: list, level: object, sync: bytes, k: int) -> bytes:
    """the bytes of the data blocks bl[k:] (left unfolding: what remains to be read)"""
    if k >= len(bl):
        return b""
    return BLOCK_BYTES(codec, bl[k][0], ITEMS_REM(s, ns, bl[k][1], 0, False), level, sync) \
        + FILE_BLOCKS(codec, s, ns, bl, level, sync, k + 1)


@spec
def FILE_VALS(s: object, ns: dict, bl: list, hi: int) -> list:
    """the records of blocks bl[:hi], in file order (right unfolding: what has been read)"""
    if hi <= 0:
        return []
    return ITEM_VALS(FILE_VALS(s, ns, bl, hi - 1), s, ns, bl[hi - 1][1], len(bl[hi - 1][1]))


@spec
def BLOCK_LEN(codec: str, s: object, ns: dict, bl: list, level: object, k: int) -> int:
    """number of bytes block k occupies in the file (count, payload with its length, 16-byte marker)"""
    return len(long_bytes(bl[k][0])) + len(BLOCK_PAYLOAD(codec, ITEMS_REM(s, ns, bl[k][1], 0, False), level)) + 16


@spec
def BLOCK_OFF(codec: str, s: object, ns: dict, bl: list, level: object, start: int, k: int) -> int:
    """file offset of block k when the first block starts at `start` (the end of the header)"""
    if k <= 0:
        return start
    return BLOCK_OFF(codec, s, ns, bl, level, start, k - 1) + BLOCK_LEN(codec, s, ns, bl, level, k - 1)


@spec
def BLOCK_VIEWS(codec: str, s: object, ns: dict, bl: list, level: object, start: int, hi: int) -> list:
    """what the block reader reports for blocks bl[:hi]: (record count, offset, size, decompressed payload);
    offsets and sizes tile the file from `start` on (C05)"""
    if hi <= 0:
        return []
    return BLOCK_VIEWS(codec, s, ns, bl, level, start, hi - 1) + [
        (bl[hi - 1][0], BLOCK_OFF(codec, s, ns, bl, level, start, hi - 1), BLOCK_LEN(codec, s, ns, bl, level, hi - 1),
         ITEMS_REM(s, ns, bl[hi - 1][1], 0, False))]


@spec
def META_ENC(m: dict, hi: int) -> dict:
    """the header's metadata map: the first hi entries of m with their values UTF-8 encoded, in m's order"""
    if hi <= 0:
        return {}
    return dset(META_ENC(m, hi - 1), list(m)[hi - 1], utf8(list(m.values())[hi - 1]))


HEADER_SCHEMA = {
    "type": "record", "name": "org.apache.avro.file.Header",
    "fields": [{"name": "magic", "type": {"type": "fixed", "name": "magic", "size": 4}},
               {"name": "meta", "type": {"type": "map", "values": "bytes"}},
               {"name": "sync", "type": {"type": "fixed", "name": "sync", "size": 16}}]}


@spec
def HEADER_BYTES(m: dict, sync: bytes) -> bytes:
    """the file header the Avro specification prescribes: the header record -- magic 'Obj' 1, the metadata map with
    byte values, the 16-byte sync marker -- in the binary encoding of the specification's header schema"""
    return ENC(HEADER_SCHEMA, {}, {"magic": b"Obj\x01", "meta": META_ENC(m, len(m)), "sync": sync}, {})
