"""Specification of schema injection (C19): `INJ(outer, inner, ns)` is `outer` with the FIRST reference to the named type
`inner` -- first in depth-first, left-to-right order: union branches in order, array items, map values, record fields
in order -- replaced by the definition `inner` itself ("inlined at first use"); every later reference stays a name.
A reference is a string that is not a primitive type name; spelled without a dot inside a namespace it means
`namespace.name` (`QUAL`), and a record establishes the namespace of its fields (`NSOF`, the rule of C11).

Lists are specified element-wise ("right-unfolded"): element j of the result is the original element when an earlier
element already contained the reference, and its own injection otherwise.  References that do not match are returned
in their qualified spelling (this detail is taken from the code: it does not change what the schema means)."""
from pyvc.dsl import spec, dset
from spec.core import str_rsplit


@spec
def IS_PRIM(t: object) -> bool:
    return (t == "null" or t == "boolean" or t == "int" or t == "long" or t == "float" or t == "double"
            or t == "bytes" or t == "string")


@spec
def QUAL(name: str, ns: str) -> str:
    if "." not in name and ns != "":
        return ns + "." + name
    return name


@spec
def NSOF(schema: dict, ns: str) -> str:
    """the namespace a record definition establishes for what it contains"""
    if "." in schema["name"]:
        return str_rsplit(schema["name"], ".", 1)[0]
    return schema.get("namespace", ns)


@spec
def INJ_WF(o: object) -> bool:
    """the shapes _inject_schema is defined on (anything else raises)"""
    if isinstance(o, list):
        return INJ_WF_ALL(o, 0)
    if isinstance(o, str):
        return True
    if not isinstance(o, dict):
        return False
    if "type" not in o or not isinstance(o["type"], str):
        return False
    if o["type"] == "array":
        return "items" in o and INJ_WF(o["items"])
    if o["type"] == "map":
        return "values" in o and INJ_WF(o["values"])
    if o["type"] == "enum" or o["type"] == "fixed":
        return True
    if o["type"] == "record" or o["type"] == "error":
        return ("name" in o and isinstance(o["name"], str) and isinstance(o.get("namespace", ""), str)
                and isinstance(o.get("fields", []), list) and INJ_WF_FIELDS(o.get("fields", []), 0))
    return IS_PRIM(o["type"])


@spec
def INJ_WF_ALL(xs: list, i: int) -> bool:
    if i >= len(xs):
        return True
    return INJ_WF(xs[i]) and INJ_WF_ALL(xs, i + 1)


@spec
def INJ_WF_FIELDS(fs: list, i: int) -> bool:
    if i >= len(fs):
        return True
    return isinstance(fs[i], dict) and "type" in fs[i] and INJ_WF(fs[i]["type"]) and INJ_WF_FIELDS(fs, i + 1)


# ------------------------------------------------------------------ "contains a reference to `name`"
@spec
def REFS(o: object, name: str, ns: str) -> bool:
    if isinstance(o, list):
        return REFS_PRE(o, len(o), name, ns)
    if isinstance(o, str):
        return not IS_PRIM(o) and QUAL(o, ns) == name
    if not isinstance(o, dict):
        return False
    if o["type"] == "array":
        return REFS(o["items"], name, ns)
    if o["type"] == "map":
        return REFS(o["values"], name, ns)
    if o["type"] == "record" or o["type"] == "error":
        return REFSF_PRE(o.get("fields", []), len(o.get("fields", [])), name, NSOF(o, ns))
    return False


@spec
def REFS_PRE(xs: list, hi: int, name: str, ns: str) -> bool:
    """one of the first hi elements contains the reference"""
    if hi <= 0:
        return False
    return REFS_PRE(xs, hi - 1, name, ns) or REFS(xs[hi - 1], name, ns)


@spec
def REFSF_PRE(fs: list, hi: int, name: str, ns: str) -> bool:
    if hi <= 0:
        return False
    return REFSF_PRE(fs, hi - 1, name, ns) or REFS(fs[hi - 1]["type"], name, ns)


# ------------------------------------------------------------------ the injection
@spec
def INJ(o: object, inner: dict, ns: str) -> object:
    if isinstance(o, list):
        return INJ_PRE(o, len(o), inner, ns)
    if isinstance(o, str):
        if IS_PRIM(o):
            return o
        if QUAL(o, ns) == inner["name"]:
            return inner
        return QUAL(o, ns)
    if not isinstance(o, dict):
        return o
    if o["type"] == "array":
        return dset(o, "items", INJ(o["items"], inner, ns))
    if o["type"] == "map":
        return dset(o, "values", INJ(o["values"], inner, ns))
    if o["type"] == "record" or o["type"] == "error":
        if len(o.get("fields", [])) == 0:
            return o
        return dset(o, "fields", INJF_PRE(o.get("fields", []), len(o.get("fields", [])), inner, NSOF(o, ns)))
    return o


@spec
def INJ_PRE(xs: list, hi: int, inner: dict, ns: str) -> list:
    """the first hi elements after injection: an element is left alone once an earlier one contained the reference"""
    if hi <= 0:
        return []
    if REFS_PRE(xs, hi - 1, inner["name"], ns):
        return INJ_PRE(xs, hi - 1, inner, ns) + [xs[hi - 1]]
    return INJ_PRE(xs, hi - 1, inner, ns) + [INJ(xs[hi - 1], inner, ns)]


@spec
def INJF_PRE(fs: list, hi: int, inner: dict, ns: str) -> list:
    if hi <= 0:
        return []
    if REFSF_PRE(fs, hi - 1, inner["name"], ns):
        return INJF_PRE(fs, hi - 1, inner, ns) + [fs[hi - 1]]
    return INJF_PRE(fs, hi - 1, inner, ns) + [dset(fs[hi - 1], "type", INJ(fs[hi - 1]["type"], inner, ns))]
