"""Independent Avro binary decoder and container-file parser/writer (executable oracle
for C03-C07), written from the Avro 1.11 specification."""
import bz2
import json
import lzma
import struct
import zlib

MAGIC = b"Obj\x01"


class Short(Exception):
    """input ended before the value was complete"""


class Bad(Exception):
    """malformed encoding (index out of range, ...)"""


def read_long(buf, pos):
    n = 0
    shift = 0
    while True:
        if pos >= len(buf):
            raise Short()
        b = buf[pos]
        pos += 1
        n |= (b & 0x7F) << shift
        shift += 7
        if not b & 0x80:
            break
    return (n >> 1) ^ -(n & 1), pos


def take(buf, pos, n):
    if n < 0 or pos + n > len(buf):
        raise Short()
    return bytes(buf[pos:pos + n]), pos + n


def decode(s, ns, buf, pos=0):
    """-> (value, new position)"""
    t = s["type"] if isinstance(s, dict) else ("union" if isinstance(s, list) else s)
    if t == "null":
        return None, pos
    if t == "boolean":
        b, pos = take(buf, pos, 1)
        return b != b"\x00", pos
    if t in ("int", "long"):
        return read_long(buf, pos)
    if t == "float":
        b, pos = take(buf, pos, 4)
        return struct.unpack("<f", b)[0], pos
    if t == "double":
        b, pos = take(buf, pos, 8)
        return struct.unpack("<d", b)[0], pos
    if t == "bytes":
        n, pos = read_long(buf, pos)
        return take(buf, pos, n)
    if t == "string":
        n, pos = read_long(buf, pos)
        b, pos = take(buf, pos, n)
        return b.decode("utf-8"), pos
    if isinstance(s, list):
        i, pos = read_long(buf, pos)
        if not 0 <= i < len(s):
            raise Bad("union index")
        return decode(s[i], ns, buf, pos)
    if isinstance(s, str):
        return decode(ns[s], ns, buf, pos)
    if t == "fixed":
        return take(buf, pos, s["size"])
    if t == "enum":
        i, pos = read_long(buf, pos)
        if not 0 <= i < len(s["symbols"]):
            raise Bad("enum index")
        return s["symbols"][i], pos
    if t in ("array", "map"):
        out = [] if t == "array" else {}
        while True:
            n, pos = read_long(buf, pos)
            if n == 0:
                return out, pos
            if n < 0:
                n = -n
                _, pos = read_long(buf, pos)
            for _ in range(n):
                if t == "array":
                    v, pos = decode(s["items"], ns, buf, pos)
                    out.append(v)
                else:
                    k, pos = decode("string", ns, buf, pos)
                    v, pos = decode(s["values"], ns, buf, pos)
                    out[k] = v
    if t in ("record", "error"):
        out = {}
        for f in s["fields"]:
            out[f["name"]], pos = decode(f["type"], ns, buf, pos)
        return out, pos
    raise Bad(f"unknown type {t}")


# ------------------------------------------------------------------ container files
def decompress(codec, payload):
    if codec == "null":
        return payload
    if codec == "deflate":
        return zlib.decompressobj(-15).decompress(payload)
    if codec == "bzip2":
        return bz2.decompress(payload)
    if codec == "xz":
        return lzma.decompress(payload)
    raise Bad(f"codec {codec}")


def compress(codec, data):
    if codec == "null":
        return data
    if codec == "deflate":
        c = zlib.compressobj(6, zlib.DEFLATED, -15)
        return c.compress(data) + c.flush()
    if codec == "bzip2":
        return bz2.compress(data)
    if codec == "xz":
        return lzma.compress(data)
    raise Bad(f"codec {codec}")


def parse_file(buf):
    """-> dict(meta, sync, header_end, blocks=[dict(offset, size, count, payload)]) ; raises
    Short / Bad for files that are not layout-valid"""
    if buf[:4] != MAGIC:
        raise Bad("magic")
    meta, pos = decode({"type": "map", "values": "bytes"}, {}, buf, 4)
    sync, pos = take(buf, pos, 16)
    out = {"meta": meta, "sync": sync, "header_end": pos, "blocks": []}
    while pos < len(buf):
        off = pos
        count, pos = read_long(buf, pos)
        size, pos = read_long(buf, pos)
        payload, pos = take(buf, pos, size)
        marker, pos = take(buf, pos, 16)
        if marker != sync:
            raise Bad("sync marker")
        out["blocks"].append({"offset": off, "size": pos - off, "count": count, "payload": payload})
    return out


def file_records(buf, parse_schema):
    """records of a container file using only this module (and `parse_schema`: raw -> (parsed, ns))"""
    f = parse_file(buf)
    codec = f["meta"].get("avro.codec", b"null").decode()
    schema = json.loads(f["meta"]["avro.schema"].decode())
    p, ns = parse_schema(schema)
    recs = []
    for b in f["blocks"]:
        data = decompress(codec, b["payload"])
        pos = 0
        for _ in range(b["count"]):
            v, pos = decode(p, ns, data, pos)
            recs.append(v)
        if pos != len(data):
            raise Bad("trailing bytes in block")
    return recs, f, codec, schema


def long_bytes(n):
    z = (n << 1) ^ (n >> 63)
    out = bytearray()
    while z & ~0x7F:
        out.append((z & 0x7F) | 0x80)
        z >>= 7
    out.append(z)
    return bytes(out)


def build_file(meta_chunks, sync, blocks, codec):
    """an independently written container file: meta map split into the given chunks
    (list of lists of (key, bytes)), blocks = list of lists of encoded records"""
    out = bytearray(MAGIC)
    for chunk in meta_chunks:
        if not chunk:
            continue
        out += long_bytes(len(chunk))
        for k, v in chunk:
            kb = k.encode()
            out += long_bytes(len(kb)) + kb + long_bytes(len(v)) + v
    out += b"\x00" + sync
    for recs in blocks:
        payload = compress(codec, b"".join(recs))
        out += long_bytes(len(recs)) + long_bytes(len(payload)) + payload + sync
    return bytes(out)
