"""Executable specification library, part 2: Avro binary encoding over parsed schemas.

Written from the Avro 1.11 specification and the property statements (C01-C03,
C09, C10), not from the code.  Two views of the binary format:

* writer side:  CONFORMS(d, s, ns, o)  and  ENC(s, ns, d, o), the specification's
  encoding of a conforming datum (the "independent encoder" of C02), with the
  union branch given by SEL (C09);
* reader side:  *encoding derivations* w (DESIGN 3.3): WFW(s, ns, w),
  BYTES(s, ns, w), VALUE(s, ns, w) -- every specification-valid encoding of a
  value, including arrays/maps split into any number of blocks in either block
  form (C03).

`s` is a parsed schema, `ns` the name table (full name -> definition), `o` the
writer options.  Sequence folds are range folds with explicit indices so that
loop invariants need no induction (DESIGN 3.2).
"""
from pyvc.dsl import spec, opaque, dset, seq_items, set_add
from pyvc.contracts import implies
from spec.core import (zigzag, varint, long_bytes, utf8, utf8_valid, utf8_decode, double_bytes,
                       float_bytes, num_to_float, le_bytes4, le_bytes8, f_of_single,
                       float_from_bits, float_bits, FLOATED, LONG_MIN, LONG_MAX, INT_MIN, INT_MAX, set_inter)


# ------------------------------------------------------------------- schemas
@spec
def TYPE(s: object) -> object:
    """the Avro type name of a parsed schema ('union' for lists, the name itself for
    by-name references and bare primitives)"""
    if isinstance(s, dict):
        return s["type"]
    if isinstance(s, list):
        return "union"
    return s


@spec
def IS_NAMED_REF(s: object, ns: dict) -> bool:
    return isinstance(s, str) and s in ns


PRIMS = ("null", "boolean", "int", "long", "float", "double", "bytes", "string")


@spec
def WF(s: object, ns: dict) -> bool:
    """well-formed parsed schema without logical types (one level per unfolding;
    nested parts by the same predicate).  A.1 of DESIGN."""
    t = TYPE(s)
    if not NS_CLEAN(ns):
        return False
    if isinstance(s, dict) and ("type" not in s or "logicalType" in s):
        return False
    if t == "null" or t == "boolean" or t == "int" or t == "long" or t == "float" \
            or t == "double" or t == "bytes" or t == "string":
        return True
    if isinstance(s, list):
        return WF_BRANCHES(s, ns, 0)
    if isinstance(s, dict):
        if t == "array":
            return "items" in s and WF(s["items"], ns)
        if t == "map":
            return "values" in s and WF(s["values"], ns)
        if t == "fixed":
            return HAS_NAME(s) and "size" in s and isinstance(s["size"], int) and not isinstance(s["size"], bool) \
                and s["size"] >= 0
        if t == "enum":
            return HAS_NAME(s) and "symbols" in s and isinstance(s["symbols"], list) and len(s["symbols"]) >= 1 \
                and ALL_STR(s["symbols"], 0)
        if t == "record" or t == "error":
            return HAS_NAME(s) and "fields" in s and isinstance(s["fields"], list) and WF_FIELDS(s["fields"], ns, 0)
        return False
    if isinstance(s, str):
        return (not RESERVED(s)) and s in ns and isinstance(ns[s], dict) and IS_DEFINITION(ns[s]) \
            and WF(ns[s], ns)
    return False


@spec
def HAS_NAME(s: dict) -> bool:
    """named types carry their (full) name"""
    return "name" in s and isinstance(s["name"], str)


@spec
def NS_CLEAN(ns: dict) -> bool:
    """no Avro type keyword is used as the name of a named type ("primitive type names ... may not be
    defined in any namespace"; fastavro's parser does not reject such names, its writers misbehave on them)"""
    return not ("null" in ns or "boolean" in ns or "int" in ns or "long" in ns or "float" in ns or "double" in ns
                or "bytes" in ns or "string" in ns or "fixed" in ns or "enum" in ns or "record" in ns
                or "error" in ns or "array" in ns or "map" in ns or "union" in ns or "request" in ns
                or "error_union" in ns)


@spec
def RESERVED(s: str) -> bool:
    """Avro type keywords cannot be used as type names"""
    return s in ("null", "boolean", "int", "long", "float", "double", "bytes", "string", "fixed",
                 "enum", "record", "error", "array", "map", "union", "request", "error_union")


@spec
def IS_DEFINITION(s: dict) -> bool:
    """the name table maps full names to named-type definitions"""
    return s["type"] == "record" or s["type"] == "error" or s["type"] == "enum" or s["type"] == "fixed"


@spec
def WF_BRANCHES(u: list, ns: dict, k: int) -> bool:
    if k >= len(u):
        return True
    return (not isinstance(u[k], list)) and WF(u[k], ns) and WF_BRANCHES(u, ns, k + 1)


@spec
def WF_FIELDS(fs: list, ns: dict, k: int) -> bool:
    if k >= len(fs):
        return True
    return (isinstance(fs[k], dict) and "name" in fs[k] and isinstance(fs[k]["name"], str)
            and "type" in fs[k] and WF(fs[k]["type"], ns) and WF_FIELDS(fs, ns, k + 1))


@spec
def ALL_STR(xs: list, k: int) -> bool:
    if k >= len(xs):
        return True
    return isinstance(xs[k], str) and ALL_STR(xs, k + 1)


# ---------------------------------------------------------------- conformance
@spec
def CONFORMS(d: object, s: object, ns: dict, o: dict) -> bool:
    """the documented Python mapping (C10 / A.2): does datum d conform to schema s?"""
    t = TYPE(s)
    if t == "null":
        return d is None
    if t == "boolean":
        return isinstance(d, bool)
    if t == "int":
        return isinstance(d, int) and not isinstance(d, bool) and INT_MIN <= d and d <= INT_MAX
    if t == "long":
        return isinstance(d, int) and not isinstance(d, bool) and LONG_MIN <= d and d <= LONG_MAX
    if t == "float" or t == "double":
        return (isinstance(d, int) or isinstance(d, float)) and not isinstance(d, bool)
    if t == "bytes":
        return isinstance(d, (bytes, bytearray))
    if t == "string":
        return isinstance(d, str)
    if isinstance(s, list):
        return UNION_CONFORMS(d, s, ns, o)
    if isinstance(s, dict):
        if t == "fixed":
            return isinstance(d, bytes) and len(d) == s["size"]
        if t == "enum":
            return d in s["symbols"]
        if t == "array":
            # non-string sequences: list, tuple, and (as sequences of ints) bytes / bytearray
            return isinstance(d, (list, tuple, bytes, bytearray)) and ALL_CONFORM(seq_items(d), s["items"], ns, o, 0)
        if t == "map":
            return isinstance(d, dict) and ALL_STR(list(d), 0) \
                and ALL_CONFORM(list(d.values()), s["values"], ns, o, 0)
        if t == "record" or t == "error":
            return isinstance(d, dict) and HINT_OK(d, s) and FIELDS_CONFORM(s["fields"], d, ns, o, 0)
        return False
    if isinstance(s, str) and s in ns:
        return CONFORMS(d, ns[s], ns, o)
    return False


@spec
def HINT_OK(d: dict, s: dict) -> bool:
    """a '-type' entry in a record datum names the record branch it is meant for (C09)"""
    return "-type" not in d or d["-type"] == s["name"]


@spec
def ALL_CONFORM(xs: list, s: object, ns: dict, o: dict, k: int) -> bool:
    """xs[k:] all conform to s (left unfolding: 'the remaining items conform')"""
    if k >= len(xs):
        return True
    return CONFORMS(xs[k], s, ns, o) and ALL_CONFORM(xs, s, ns, o, k + 1)


@spec
def HAS_DEFAULT(f: dict) -> bool:
    return "default" in f


@spec
def FIELDVAL(f: dict, d: dict) -> object:
    """the value written for field f of record datum d (A.3): the datum's entry,
    else the field default, else None; float()-converted under float/double"""
    if f["type"] == "float" or f["type"] == "double":
        return FLOATED(RAWFIELDVAL(f, d))
    return RAWFIELDVAL(f, d)


@spec
def RAWFIELDVAL(f: dict, d: dict) -> object:
    if f["name"] in d:
        return d[f["name"]]
    if "default" in f:
        return f["default"]
    return None


@spec
def FIELDS_CONFORM(fs: list, d: dict, ns: dict, o: dict, k: int) -> bool:
    """fields fs[k:] : present values conform; absent ones take the default (which must
    itself conform, see DESIGN A.2) or None"""
    if k >= len(fs):
        return True
    return CONFORMS(FIELDVAL(fs[k], d), fs[k]["type"], ns, o) and FIELDS_CONFORM(fs, d, ns, o, k + 1)


@spec
def BRANCH_NAME(b: object) -> object:
    """the name a (name, value) hint is matched against (C09): the full name of a named
    type definition, the reference string for by-name branches, the type name otherwise"""
    if isinstance(b, dict) and (b["type"] == "record" or b["type"] == "error" or b["type"] == "enum"
                                or b["type"] == "fixed"):
        return b["name"]
    return TYPE(b)


@spec
def HINTED(u: list, name: object, k: int) -> int:
    """index of the first branch of u[k:] whose name is `name`; -1 when there is none"""
    if k >= len(u):
        return -1
    if BRANCH_NAME(u[k]) == name:
        return k
    return HINTED(u, name, k + 1)


@spec
def UNION_CONFORMS(d: object, u: list, ns: dict, o: dict) -> bool:
    """what the union writer accepts: a (name, value) tuple is a hint (unless tuple notation is
    disabled) -- it must name a branch and the value must conform to the first branch of that name;
    otherwise a branch must be selected by the rule of C09 (SEL; selection uses validation, VALID)
    and the datum must conform to it"""
    if isinstance(d, tuple) and not o.get("disable_tuple_notation"):
        return len(d) == 2 and HINTED(u, d[0], 0) >= 0 and HINTED(u, d[0], 0) < len(u) \
            and CONFORMS(d[1], u[HINTED(u, d[0], 0)], ns, o)
    return SEL(u, ns, d, o) >= 0 and SEL(u, ns, d, o) < len(u) and CONFORMS(d, u[SEL(u, ns, d, o)], ns, o)


@spec
def ANY_BRANCH(d: object, u: list, ns: dict, o: dict, k: int) -> bool:
    if k >= len(u):
        return False
    return CONFORMS(d, u[k], ns, o) or ANY_BRANCH(d, u, ns, o, k + 1)


# ------------------------------------------------- validation (C10): the property's predicate
@spec
def VALID(d: object, s: object, ns: dict, o: dict) -> bool:
    """C10's statement, clause by clause: None; bool; non-bool int in 32/64-bit range; int or
    float for float/double; bytes or bytearray; str; bytes of the declared size; a declared
    symbol; non-string sequences; string-keyed mappings; mappings whose present fields conform
    and whose absent fields have a default or accept null (strict: an absent field without a
    default is rejected); a conforming or explicitly hinted union branch.
    (Differs from CONFORMS -- what the writers accept -- in not float()-converting field values
    and in knowing strict mode.)"""
    t = TYPE(s)
    if t == "null":
        return d is None
    if t == "boolean":
        return isinstance(d, bool)
    if t == "int":
        return isinstance(d, int) and not isinstance(d, bool) and INT_MIN <= d and d <= INT_MAX
    if t == "long":
        return isinstance(d, int) and not isinstance(d, bool) and LONG_MIN <= d and d <= LONG_MAX
    if t == "float" or t == "double":
        return (isinstance(d, int) or isinstance(d, float)) and not isinstance(d, bool)
    if t == "bytes":
        return isinstance(d, (bytes, bytearray))
    if t == "string":
        return isinstance(d, str)
    if isinstance(s, list):
        return UNION_VALID(d, s, ns, o)
    if isinstance(s, dict):
        if t == "fixed":
            return isinstance(d, bytes) and len(d) == s["size"]
        if t == "enum":
            return d in s["symbols"]
        if t == "array":
            return isinstance(d, (list, tuple, bytes, bytearray)) and ALL_VALID(seq_items(d), s["items"], ns, o, 0)
        if t == "map":
            return isinstance(d, dict) and ALL_STR(list(d), 0) and ALL_VALID(list(d.values()), s["values"], ns, o, 0)
        if t == "record" or t == "error":
            return isinstance(d, dict) and HINT_OK(d, s) and FIELDS_VALID(s["fields"], d, ns, o, 0)
        return False
    if isinstance(s, str) and s in ns:
        return VALID(d, ns[s], ns, o)
    return False


@spec
def ALL_VALID(xs: list, s: object, ns: dict, o: dict, k: int) -> bool:
    if k >= len(xs):
        return True
    return VALID(xs[k], s, ns, o) and ALL_VALID(xs, s, ns, o, k + 1)


@spec
def FIELD_VALID(f: dict, d: dict, ns: dict, o: dict) -> bool:
    """'present fields conform and absent fields have a default or accept null'; strict: an
    absent field without a default is rejected even when it accepts null"""
    if f["name"] in d:
        return VALID(d[f["name"]], f["type"], ns, o)
    if "default" in f:
        return True
    return (not o.get("strict")) and VALID(None, f["type"], ns, o)


@spec
def DEFAULTS_DATA(s: object, ns: dict, o: dict) -> bool:
    """every field default in s (one level per unfolding, by-name references not followed) is
    itself valid Python data for the field's type.  validate checks an absent field's default as
    if it were data (known finding KF12); on schemas with this property that is invisible."""
    if isinstance(s, list):
        return DEFAULTS_DATA_BRANCHES(s, ns, o, 0)
    if isinstance(s, dict):
        if s["type"] == "array":
            return DEFAULTS_DATA(s["items"], ns, o)
        if s["type"] == "map":
            return DEFAULTS_DATA(s["values"], ns, o)
        if s["type"] == "record" or s["type"] == "error":
            return DEFAULTS_DATA_FIELDS(s["fields"], ns, o, 0)
        return True
    if isinstance(s, str) and s in ns:
        return DEFAULTS_DATA(ns[s], ns, o)
    return True


@spec
def DEFAULTS_DATA_BRANCHES(u: list, ns: dict, o: dict, k: int) -> bool:
    if k >= len(u):
        return True
    return DEFAULTS_DATA(u[k], ns, o) and DEFAULTS_DATA_BRANCHES(u, ns, o, k + 1)


@spec
def DEFAULTS_DATA_FIELDS(fs: list, ns: dict, o: dict, k: int) -> bool:
    if k >= len(fs):
        return True
    return implies("default" in fs[k], VALID(fs[k]["default"], fs[k]["type"], ns, o)) \
        and DEFAULTS_DATA(fs[k]["type"], ns, o) and DEFAULTS_DATA_FIELDS(fs, ns, o, k + 1)


@spec
def FIELDS_VALID(fs: list, d: dict, ns: dict, o: dict, k: int) -> bool:
    if k >= len(fs):
        return True
    return FIELD_VALID(fs[k], d, ns, o) and FIELDS_VALID(fs, d, ns, o, k + 1)


@spec
def UNION_VALID(d: object, u: list, ns: dict, o: dict) -> bool:
    if isinstance(d, tuple) and not o.get("disable_tuple_notation"):
        return len(d) == 2 and HINTED(u, d[0], 0) >= 0 and VALID(d[1], u[HINTED(u, d[0], 0)], ns, o)
    return ANY_VALID(d, u, ns, o, 0)


@spec
def ANY_VALID(d: object, u: list, ns: dict, o: dict, k: int) -> bool:
    if k >= len(u):
        return False
    return VALID(d, u[k], ns, o) or ANY_VALID(d, u, ns, o, k + 1)


# ------------------------------------------------------ the spec's own encoder
@spec
def BDEF(b: object, ns: dict) -> object:
    """a union branch with a by-name reference followed (what the writer looks at)"""
    if TYPE(b) in ns:
        return ns[TYPE(b)]
    return b


@spec
def IS_REC(b: object, ns: dict) -> bool:
    """the branch is a record, inline or by name"""
    return TYPE(BDEF(b, ns)) == "record"


@spec
def FIRST_NONREC(u: list, ns: dict, d: object, o: dict, k: int) -> int:
    """C09: 'among conforming non-record branches the first in schema order' -- its index at or after k, -1 if none"""
    if k >= len(u):
        return -1
    if (not IS_REC(u[k], ns)) and VALID(d, u[k], ns, o):
        return k
    return FIRST_NONREC(u, ns, d, o, k + 1)


@spec
def NEXT_DOUBLE(u: list, k: int) -> int:
    """index of the first 'double' branch at or after k, -1 if none"""
    if k >= len(u):
        return -1
    if TYPE(u[k]) == "double":
        return k
    return NEXT_DOUBLE(u, k + 1)


@spec
def DEFER_DOUBLE(u: list, ns: dict, i: int) -> int:
    """C09: 'a value conforming to float goes to a later double branch when there is one'"""
    if TYPE(BDEF(u[i], ns)) == "float" and NEXT_DOUBLE(u, i + 1) >= 0:
        return NEXT_DOUBLE(u, i + 1)
    return i


@spec
def NAMESET(fs: list, hi: int) -> set:
    """the set of the names of the fields fs[:hi]"""
    if hi <= 0:
        return set()
    return set_add(NAMESET(fs, hi - 1), fs[hi - 1]["name"])


@spec
def SHARED(b: object, ns: dict, d: object) -> int:
    """how many field names record branch b shares with the datum's keys"""
    return len(set_inter(NAMESET(BDEF(b, ns)["fields"], len(BDEF(b, ns)["fields"])), set(d)))


@spec
def BEST_REC(u: list, ns: dict, d: object, o: dict, k: int, best: int, most: int) -> int:
    """C09: 'among conforming record branches the one sharing most field names with the datum, first on
    ties': scanning from k with the best so far (index `best` sharing `most` names)"""
    if k >= len(u):
        return best
    if IS_REC(u[k], ns) and VALID(d, u[k], ns, o) and SHARED(u[k], ns, d) > most:
        return BEST_REC(u, ns, d, o, k + 1, k, SHARED(u[k], ns, d))
    return BEST_REC(u, ns, d, o, k + 1, best, most)


@spec
def SEL(u: list, ns: dict, d: object, o: dict) -> int:
    """union branch selection (C09), from the statement: a (name, value) tuple selects exactly the named
    branch; otherwise the first conforming non-record branch (float deferring to a later double), and only
    when there is none the conforming record branch sharing most field names, first on ties.  -1: none.
    (spec/union.py holds an independent executable version used by the bounded stand-in.)"""
    if isinstance(d, tuple) and not o.get("disable_tuple_notation"):
        return HINTED(u, d[0], 0)
    if FIRST_NONREC(u, ns, d, o, 0) >= 0:
        return DEFER_DOUBLE(u, ns, FIRST_NONREC(u, ns, d, o, 0))
    return BEST_REC(u, ns, d, o, 0, -1, -1)


@spec
def STRIP(u: list, ns: dict, d: object, o: dict) -> object:
    """the datum with a (name, value) tuple hint removed"""
    if isinstance(d, tuple) and not o.get("disable_tuple_notation"):
        return d[1]
    return d


@spec
def ENC(s: object, ns: dict, d: object, o: dict) -> bytes:
    """the specification's binary encoding of conforming datum d under schema s"""
    t = TYPE(s)
    if t == "null":
        return b""
    if t == "boolean":
        return b"\x01" if d else b"\x00"
    if t == "int" or t == "long":
        return long_bytes(d)
    if t == "float":
        return float_bytes(num_to_float(d))
    if t == "double":
        return double_bytes(num_to_float(d))
    if t == "bytes":
        return long_bytes(len(d)) + d
    if t == "string":
        return long_bytes(len(utf8(d))) + utf8(d)
    if isinstance(s, list):
        return long_bytes(SEL(s, ns, d, o)) + ENC(s[SEL(s, ns, d, o)], ns, STRIP(s, ns, d, o), o)
    if isinstance(s, dict):
        if t == "fixed":
            return d
        if t == "enum":
            return long_bytes(INDEX_OF(s["symbols"], d))
        if t == "array":
            if len(d) == 0:
                return b"\x00"
            return long_bytes(len(d)) + ENC_ITEMS(seq_items(d), s["items"], ns, o, len(d)) + b"\x00"
        if t == "map":
            if len(d) == 0:
                return b"\x00"
            return long_bytes(len(d)) + ENC_PAIRS(list(d), list(d.values()), s["values"], ns, o, len(d)) + b"\x00"
        if t == "record" or t == "error":
            return ENC_FIELDS(s["fields"], d, ns, o, len(s["fields"]))
        return b""
    return ENC(ns[s], ns, d, o)


@spec
def INDEX_OF(xs: list, x: object) -> int:
    return xs.index(x)


@spec
def ENC_ITEMS(xs: list, s: object, ns: dict, o: dict, hi: int) -> bytes:
    """encodings of xs[:hi] concatenated (right unfolding: 'what has been written')"""
    if hi <= 0:
        return b""
    return ENC_ITEMS(xs, s, ns, o, hi - 1) + ENC(s, ns, xs[hi - 1], o)


@spec
def ENC_PAIRS(ks: list, vs: list, s: object, ns: dict, o: dict, hi: int) -> bytes:
    """map entries: string key then value, for the first hi entries"""
    if hi <= 0:
        return b""
    return ENC_PAIRS(ks, vs, s, ns, o, hi - 1) + long_bytes(len(utf8(ks[hi - 1]))) + utf8(ks[hi - 1]) \
        + ENC(s, ns, vs[hi - 1], o)


@spec
def ENC_FIELDS(fs: list, d: dict, ns: dict, o: dict, hi: int) -> bytes:
    """a record is the concatenation of its fields in schema order"""
    if hi <= 0:
        return b""
    return ENC_FIELDS(fs, d, ns, o, hi - 1) + ENC(fs[hi - 1]["type"], ns, FIELDVAL(fs[hi - 1], d), o)


# --------------------------------------------- reader side: encoding derivations
# derivation w per kind (DESIGN A.4):
#   null: None | boolean: byte value 0..255 | int/long: the int | float: binary32 pattern
#   double: binary64 pattern | bytes: the bytes | string: its (valid) UTF-8 bytes
#   fixed: the bytes | enum: index | union: (index, w') | record: [w_field ...]
#   array: [(neg, size, [w_item ...]) ...] | map: [(neg, size, [(keybytes, w_value) ...]) ...]
@spec
def WFW(s: object, ns: dict, w: object) -> bool:
    t = TYPE(s)
    if t == "null":
        return w is None
    if t == "boolean":
        return isinstance(w, int) and not isinstance(w, bool) and 0 <= w and w <= 255
    if t == "int" or t == "long":
        return isinstance(w, int) and not isinstance(w, bool)
    if t == "float":
        return isinstance(w, int) and not isinstance(w, bool) and 0 <= w and w < 4294967296
    if t == "double":
        return isinstance(w, int) and not isinstance(w, bool) and 0 <= w and w < 18446744073709551616
    if t == "bytes":
        return isinstance(w, bytes)
    if t == "string":
        return isinstance(w, bytes) and utf8_valid(w)
    if isinstance(s, list):
        return isinstance(w, tuple) and len(w) == 2 and isinstance(w[0], int) and not isinstance(w[0], bool) \
            and 0 <= w[0] and w[0] < len(s) and WFW(s[w[0]], ns, w[1])
    if isinstance(s, dict):
        if t == "fixed":
            return isinstance(w, bytes) and len(w) == s["size"]
        if t == "enum":
            return isinstance(w, int) and not isinstance(w, bool) and 0 <= w and w < len(s["symbols"])
        if t == "array":
            return isinstance(w, list) and BLOCKS_WF(s["items"], ns, w, 0, False)
        if t == "map":
            return isinstance(w, list) and BLOCKS_WF(s["values"], ns, w, 0, True)
        if t == "record" or t == "error":
            return isinstance(w, list) and len(w) == len(s["fields"]) and FIELDS_WF(s["fields"], ns, w, 0)
        return False
    if isinstance(s, str) and s in ns:
        return WFW(ns[s], ns, w)
    return False


@spec
def BLOCKS_WF(s: object, ns: dict, w: list, k: int, ismap: bool) -> bool:
    """blocks w[k:] well formed: (neg: bool, byte_size: int, non-empty item list)"""
    if k >= len(w):
        return True
    return (isinstance(w[k], tuple) and len(w[k]) == 3 and isinstance(w[k][0], bool)
            and isinstance(w[k][1], int) and not isinstance(w[k][1], bool)
            and isinstance(w[k][2], list) and len(w[k][2]) >= 1
            and ITEMS_WF(s, ns, w[k][2], 0, ismap) and BLOCKS_WF(s, ns, w, k + 1, ismap))


@spec
def ITEMS_WF(s: object, ns: dict, items: list, j: int, ismap: bool) -> bool:
    if j >= len(items):
        return True
    if ismap:
        return (isinstance(items[j], tuple) and len(items[j]) == 2 and isinstance(items[j][0], bytes)
                and utf8_valid(items[j][0]) and WFW(s, ns, items[j][1])
                and ITEMS_WF(s, ns, items, j + 1, ismap))
    return WFW(s, ns, items[j]) and ITEMS_WF(s, ns, items, j + 1, ismap)


@spec
def FIELDS_WF(fs: list, ns: dict, w: list, j: int) -> bool:
    if j >= len(fs):
        return True
    return WFW(fs[j]["type"], ns, w[j]) and FIELDS_WF(fs, ns, w, j + 1)


@spec
def BYTES(s: object, ns: dict, w: object) -> bytes:
    """the byte string derivation w denotes (spec: Binary Encoding)"""
    t = TYPE(s)
    if t == "null":
        return b""
    if t == "boolean":
        return bytes([w])
    if t == "int" or t == "long":
        return long_bytes(w)
    if t == "float":
        return le_bytes4(w)
    if t == "double":
        return le_bytes8(w)
    if t == "bytes" or t == "string":
        return long_bytes(len(w)) + w
    if isinstance(s, list):
        return long_bytes(w[0]) + BYTES(s[w[0]], ns, w[1])
    if isinstance(s, dict):
        if t == "fixed":
            return w
        if t == "enum":
            return long_bytes(w)
        if t == "array":
            return TAIL(s["items"], ns, w, 0, False)
        if t == "map":
            return TAIL(s["values"], ns, w, 0, True)
        if t == "record" or t == "error":
            return FIELDS_REM(s["fields"], ns, w, 0)
        return b""
    return BYTES(ns[s], ns, w)


@spec
def CNT(w: list, k: int) -> int:
    """the count field that introduces block k (negative in the sized form); 0 = end"""
    if k >= len(w):
        return 0
    if w[k][0]:
        return -len(w[k][2])
    return len(w[k][2])


@spec
def TAIL(s: object, ns: dict, w: list, k: int, ismap: bool) -> bytes:
    """everything from the count of block k up to and including the terminator"""
    return long_bytes(CNT(w, k)) + AFTER(s, ns, w, k, ismap)


@spec
def AFTER(s: object, ns: dict, w: list, k: int, ismap: bool) -> bytes:
    """what follows the count field of block k"""
    if k >= len(w):
        return b""
    if w[k][0]:
        return long_bytes(w[k][1]) + ITEMS_REM(s, ns, w[k][2], 0, ismap) + TAIL(s, ns, w, k + 1, ismap)
    return ITEMS_REM(s, ns, w[k][2], 0, ismap) + TAIL(s, ns, w, k + 1, ismap)


@spec
def ITEMS_REM(s: object, ns: dict, items: list, j: int, ismap: bool) -> bytes:
    """bytes of items[j:] (left unfolding: 'what remains to be read')"""
    if j >= len(items):
        return b""
    if ismap:
        return long_bytes(len(items[j][0])) + items[j][0] + BYTES(s, ns, items[j][1]) \
            + ITEMS_REM(s, ns, items, j + 1, ismap)
    return BYTES(s, ns, items[j]) + ITEMS_REM(s, ns, items, j + 1, ismap)


@spec
def FIELDS_REM(fs: list, ns: dict, w: list, j: int) -> bytes:
    if j >= len(fs):
        return b""
    return BYTES(fs[j]["type"], ns, w[j]) + FIELDS_REM(fs, ns, w, j + 1)


@spec
def VALUE(s: object, ns: dict, w: object) -> object:
    """the Python value derivation w denotes (reader without reader schema, no naming
    options)"""
    t = TYPE(s)
    if t == "null":
        return None
    if t == "boolean":
        return w != 0
    if t == "int" or t == "long":
        return w
    if t == "float":
        return f_of_single(w)
    if t == "double":
        return float_from_bits(w)
    if t == "bytes":
        return w
    if t == "string":
        return utf8_decode(w)
    if isinstance(s, list):
        return VALUE(s[w[0]], ns, w[1])
    if isinstance(s, dict):
        if t == "fixed":
            return w
        if t == "enum":
            return s["symbols"][w]
        if t == "array":
            return ARR_VALS(s["items"], ns, w, len(w))
        if t == "map":
            return MAP_VALS(s["values"], ns, w, len(w))
        if t == "record" or t == "error":
            return REC_VALS(s["fields"], ns, w, len(s["fields"]))
        return None
    return VALUE(ns[s], ns, w)


@spec
def ARR_VALS(s: object, ns: dict, w: list, hi: int) -> list:
    """values of all items of blocks w[:hi], in order"""
    if hi <= 0:
        return []
    return ITEM_VALS(ARR_VALS(s, ns, w, hi - 1), s, ns, w[hi - 1][2], len(w[hi - 1][2]))


@spec
def ITEM_VALS(acc: list, s: object, ns: dict, items: list, hi: int) -> list:
    """acc extended by the values of items[:hi]"""
    if hi <= 0:
        return acc
    return ITEM_VALS(acc, s, ns, items, hi - 1) + [VALUE(s, ns, items[hi - 1])]


@spec
def MAP_VALS(s: object, ns: dict, w: list, hi: int) -> dict:
    if hi <= 0:
        return {}
    return PAIR_VALS(MAP_VALS(s, ns, w, hi - 1), s, ns, w[hi - 1][2], len(w[hi - 1][2]))


@spec
def PAIR_VALS(acc: dict, s: object, ns: dict, items: list, hi: int) -> dict:
    """acc updated with the entries items[:hi] (later keys overwrite)"""
    if hi <= 0:
        return acc
    return dset(PAIR_VALS(acc, s, ns, items, hi - 1), utf8_decode(items[hi - 1][0]),
                VALUE(s, ns, items[hi - 1][1]))


@spec
def REC_VALS(fs: list, ns: dict, w: list, hi: int) -> dict:
    if hi <= 0:
        return {}
    return dset(REC_VALS(fs, ns, w, hi - 1), fs[hi - 1]["name"], VALUE(fs[hi - 1]["type"], ns, w[hi - 1]))


@spec
def READ_OPTS_PLAIN(o: dict) -> bool:
    """reader options of the plain reading mode: no naming of union branches, and a string
    as the unicode error handler"""
    return (not o.get("return_record_name") and not o.get("return_record_name_override")
            and not o.get("return_named_type") and not o.get("return_named_type_override")
            and isinstance(o.get("handle_unicode_errors", "strict"), str))



# ------------------------------------------------------------------ data generation (C20)
@spec
def GENOK(s: object, ns: dict) -> bool:
    """the schemas for which gen_data is under contract: every schema without logical types whose unions are
    non-empty and whose records have pairwise distinct field names"""
    t = TYPE(s)
    if t == "null" or t == "boolean" or t == "int" or t == "long" or t == "float" \
            or t == "double" or t == "bytes" or t == "string":
        return True
    if isinstance(s, list):
        return len(s) >= 1 and GENOK_ALL(s, ns, 0)
    if isinstance(s, dict):
        if t == "array":
            return GENOK(s["items"], ns)
        if t == "map":
            return GENOK(s["values"], ns)
        if t == "record":
            # field names are pairwise distinct and none is the hint key "-type" (the Avro specification asks for
            # both -- names are identifiers, fields are uniquely named -- but fastavro's parser enforces neither:
            # this is a restriction of the contract's domain)
            return DISTINCT_FROM(s["fields"], 0) and NOT_AMONG(s["fields"], "-type", len(s["fields"])) \
                and GENOK_FIELDS(s["fields"], ns, 0)
        return t == "fixed" or t == "enum"
    if isinstance(s, str) and s in ns:
        return GENOK(ns[s], ns)
    return False


@spec
def GENOK_ALL(u: list, ns: dict, k: int) -> bool:
    if k >= len(u):
        return True
    return GENOK(u[k], ns) and GENOK_ALL(u, ns, k + 1)


@spec
def ALL_VALID_R(xs: list, s: object, ns: dict, o: dict, hi: int) -> bool:
    """the first hi elements of xs validate against s (right unfolding: what a builder has established)"""
    if hi <= 0:
        return True
    return ALL_VALID_R(xs, s, ns, o, hi - 1) and VALID(xs[hi - 1], s, ns, o)


@spec
def ALL_STR_R(xs: list, hi: int) -> bool:
    """the first hi elements of xs are strings"""
    if hi <= 0:
        return True
    return ALL_STR_R(xs, hi - 1) and isinstance(xs[hi - 1], str)


@spec
def GENOK_FIELDS(fs: list, ns: dict, k: int) -> bool:
    if k >= len(fs):
        return True
    return GENOK(fs[k]["type"], ns) and GENOK_FIELDS(fs, ns, k + 1)


@spec
def NOT_AMONG(fs: list, x: object, hi: int) -> bool:
    """x is not the name of any of the fields fs[:hi]"""
    if hi <= 0:
        return True
    return NOT_AMONG(fs, x, hi - 1) and fs[hi - 1]["name"] != x


@spec
def DISTINCT_FROM(fs: list, k: int) -> bool:
    """every field from k on has a name that no earlier field has"""
    if k >= len(fs):
        return True
    return NOT_AMONG(fs, fs[k]["name"], k) and DISTINCT_FROM(fs, k + 1)


@spec
def REC_R(fs: list, d: dict, ns: dict, o: dict, hi: int) -> bool:
    """the record under construction: the first hi fields are present with valid values"""
    if hi <= 0:
        return True
    return REC_R(fs, d, ns, o, hi - 1) and fs[hi - 1]["name"] in d \
        and VALID(d[fs[hi - 1]["name"]], fs[hi - 1]["type"], ns, o)


@spec
def FNAME(fs: list, j: int) -> object:
    """name of field j (total: unspecified for ill-formed field lists)"""
    return fs[j]["name"]


@spec
def DVAL(d: dict, k: object) -> object:
    """d[k] (total: unspecified when absent)"""
    return d[k]


@spec
def VALID_FLAGS(xs: list, s: object, ns: dict, o: dict, hi: int) -> list:
    """the answers VALID gives for the first hi records, in order"""
    if hi <= 0:
        return []
    return VALID_FLAGS(xs, s, ns, o, hi - 1) + [VALID(xs[hi - 1], s, ns, o)]
