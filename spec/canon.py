"""Parsing Canonical Form (C13) as specification functions over *parsed* schemas, written from the Avro
specification ("Transforming into Parsing Canonical Form"):

  [PRIMITIVES] primitives in simple form; [FULLNAMES] names are full names (the parser has substituted
  them) and namespaces are dropped; [STRIP] only type, name, fields, symbols, items, values, size are
  kept; [ORDER] in the order name, type, fields, symbols, items, values, size; [STRINGS] / [INTEGERS]
  plain JSON strings and decimal integers; [WHITESPACE] none.

Lists are described by right unfoldings (`the text of the first hi elements'), which is also what a
writer that emits them left to right has produced after hi steps.
(spec/schema.py: pcf is an independent executable version used by the bounded stand-in.)"""
from pyvc.dsl import spec, opaque, dset
from spec.core import str_of_int, f_str_parses


@spec
def IS_PRIM(t: object) -> bool:
    return t == "null" or t == "boolean" or t == "int" or t == "long" or t == "float" or t == "double" \
        or t == "bytes" or t == "string"


@spec
def STRS(xs: list, k: int) -> bool:
    if k >= len(xs):
        return True
    return isinstance(xs[k], str) and STRS(xs, k + 1)


@spec
def CANON_WF(s: object) -> bool:
    """shape of a parsed schema as far as canonicalisation looks at it"""
    if isinstance(s, list):
        return CANON_WF_ALL(s, 0)
    if isinstance(s, str):
        return True
    if not isinstance(s, dict) or "type" not in s:
        return False
    if s["type"] == "array":
        return "items" in s and CANON_WF(s["items"])
    if s["type"] == "map":
        return "values" in s and CANON_WF(s["values"])
    if s["type"] == "enum":
        return "name" in s and isinstance(s["name"], str) and "symbols" in s and isinstance(s["symbols"], list) \
            and STRS(s["symbols"], 0)
    if s["type"] == "fixed":
        return "name" in s and isinstance(s["name"], str) and "size" in s and isinstance(s["size"], int) \
            and not isinstance(s["size"], bool)
    if s["type"] == "record" or s["type"] == "error":
        return "name" in s and isinstance(s["name"], str) and "fields" in s and isinstance(s["fields"], list) \
            and CANON_WF_FIELDS(s["fields"], 0)
    return IS_PRIM(s["type"])


@spec
def CANON_WF_ALL(u: list, k: int) -> bool:
    if k >= len(u):
        return True
    return CANON_WF(u[k]) and CANON_WF_ALL(u, k + 1)


@spec
def CANON_WF_FIELDS(fs: list, k: int) -> bool:
    if k >= len(fs):
        return True
    return isinstance(fs[k], dict) and "name" in fs[k] and isinstance(fs[k]["name"], str) and "type" in fs[k] \
        and CANON_WF(fs[k]["type"]) and CANON_WF_FIELDS(fs, k + 1)


@spec
def PCF(s: object) -> str:
    """the canonical text of parsed schema s"""
    if isinstance(s, list):
        return "[" + PCF_BRANCHES(s, len(s)) + "]"
    if isinstance(s, str):
        return '"' + s + '"'
    if s["type"] == "array":
        return '{"type":"array","items":' + PCF(s["items"]) + "}"
    if s["type"] == "map":
        return '{"type":"map","values":' + PCF(s["values"]) + "}"
    if s["type"] == "enum":
        return '{"name":"' + s["name"] + '","type":"enum","symbols":[' + PCF_SYMBOLS(s["symbols"], len(s["symbols"])) + "]}"
    if s["type"] == "fixed":
        return '{"name":"' + s["name"] + '","type":"fixed","size":' + str_of_int(s["size"]) + "}"
    if s["type"] == "record" or s["type"] == "error":
        return '{"name":"' + s["name"] + '","type":"record","fields":[' + PCF_FIELDS(s["fields"], len(s["fields"])) + "]}"
    return '"' + s["type"] + '"'


@spec
def PCF_BRANCHES(u: list, hi: int) -> str:
    """texts of u[:hi] separated by commas"""
    if hi <= 0:
        return ""
    if hi == 1:
        return PCF(u[0])
    return PCF_BRANCHES(u, hi - 1) + "," + PCF(u[hi - 1])


@spec
def PCF_SYMBOLS(xs: list, hi: int) -> str:
    if hi <= 0:
        return ""
    if hi == 1:
        return '"' + xs[0] + '"'
    return PCF_SYMBOLS(xs, hi - 1) + ',"' + xs[hi - 1] + '"'


@spec
def PCF_FIELDS(fs: list, hi: int) -> str:
    if hi <= 0:
        return ""
    if hi == 1:
        return '{"name":"' + fs[0]["name"] + '","type":' + PCF(fs[0]["type"]) + "}"
    return PCF_FIELDS(fs, hi - 1) + ',{"name":"' + fs[hi - 1]["name"] + '","type":' + PCF(fs[hi - 1]["type"]) + "}"


# ------------------------------------------------------------------ schema resolution: promotions (C08)
@spec
def PROMOTABLE(w: object, r: object) -> bool:
    """Avro 'Schema Resolution': int -> long, float, double; long -> float, double; float -> double;
    string <-> bytes"""
    return (w == "int" and (r == "long" or r == "float" or r == "double")) \
        or (w == "long" and (r == "float" or r == "double")) \
        or (w == "float" and r == "double") \
        or (w == "string" and r == "bytes") or (w == "bytes" and r == "string")


# ------------------------------------------------------------------ name tables (C12)
@spec
def MERGED(a: dict, b: dict, hi: int) -> dict:
    """a updated with the first hi entries of b, in b's order"""
    if hi <= 0:
        return a
    return dset(MERGED(a, b, hi - 1), list(b)[hi - 1], list(b.values())[hi - 1])


# ------------------------------------------------------------------ field defaults (C11)
@spec
def DEFAULT_MATCHES(default: object, s: object) -> bool:
    """does JSON value `default` have the JSON kind that a field of (non-union) type s expects?  null: null;
    boolean: true/false; string, bytes, enum, fixed: a string; int, long: an integer (not a boolean);
    float, double: a number (not a boolean) or a string float() understands ("NaN", "Infinity", ...);
    array: an array; map, record, error: an object.  By-name references are not looked at."""
    if isinstance(s, dict):
        if s["type"] == "array":
            return isinstance(default, list)
        if s["type"] == "map" or s["type"] == "record" or s["type"] == "error":
            return isinstance(default, dict)
        if s["type"] == "enum" or s["type"] == "fixed":
            return isinstance(default, str)
        return PRIM_DEFAULT_MATCHES(default, s["type"])
    return PRIM_DEFAULT_MATCHES(default, s)


@spec
def PRIM_DEFAULT_MATCHES(default: object, t: object) -> bool:
    if t == "null":
        return default is None
    if t == "boolean":
        return isinstance(default, bool)
    if t == "string" or t == "bytes":
        return isinstance(default, str)
    if t == "int" or t == "long":
        return isinstance(default, int) and not isinstance(default, bool)
    if t == "float" or t == "double":
        return (not isinstance(default, bool)) and (isinstance(default, int) or isinstance(default, float)
                                                     or (isinstance(default, str) and f_str_parses(default)))
    return True


@spec
def NT(schema: dict) -> dict:
    """the name table a parsed schema carries, as parse_schema rebuilds it entry by entry into an empty table
    (for a dictionary -- distinct keys -- that is the carried table itself)"""
    return MERGED({}, schema["__named_schemas"], len(schema["__named_schemas"]))
