"""Schema resolution oracle (C08), written from the Avro specification's "Schema
Resolution" section and the property statement.  resolve_decode reads a value written
under `ws` and returns what a reader with schema `rs` must see, or raises ResolutionError.
Both schemas are in parsed form with their own name tables."""
from spec.decode import decode, read_long, take, Short, Bad

PROMOTIONS = {("int", "long"), ("int", "float"), ("int", "double"), ("long", "float"), ("long", "double"),
              ("float", "double"), ("string", "bytes"), ("bytes", "string")}
NAMED = ("record", "error", "enum", "fixed")
PRIMS = ("null", "boolean", "int", "long", "float", "double", "bytes", "string")


class ResolutionError(Exception):
    pass


def _t(s):
    return s["type"] if isinstance(s, dict) else ("union" if isinstance(s, list) else s)


def deref(s, ns):
    while isinstance(s, str) and s not in PRIMS:
        if s not in ns:
            raise ResolutionError(f"unknown name {s}")
        s = ns[s]
    return s


def unqual(n):
    return n.rsplit(".", 1)[-1]


def names_match(w, r):
    """named types match by unqualified name, or when the writer's name (full or
    unqualified) is one of the reader's aliases"""
    wn, rn = w["name"], r["name"]
    al = r.get("aliases", []) or []
    return unqual(wn) == unqual(rn) or wn in al or unqual(wn) in [unqual(a) for a in al] or unqual(wn) in al


def same_type(w, r, nsw, nsr):
    """reader branch `r` has the same type as writer schema `w` (no promotion)"""
    w, r = deref(w, nsw), deref(r, nsr)
    tw, tr = _t(w), _t(r)
    if tw in PRIMS or tr in PRIMS:
        return tw == tr
    if tw != tr and not ({tw, tr} <= {"record", "error"}):
        return False
    if tw in ("array", "map"):
        return True
    if tw in NAMED:
        return names_match(w, r)
    return False


def promotable(w, r, nsw, nsr):
    w, r = deref(w, nsw), deref(r, nsr)
    return (_t(w), _t(r)) in PROMOTIONS


def schemas_match(w, r, nsw, nsr, depth=0):
    """the specification's schema-level "match" relation (Schema Resolution): used for the
    item / value types of arrays and maps, which must match even when the datum is empty"""
    if depth > 8:
        return True
    w, r = deref(w, nsw), deref(r, nsr)
    if isinstance(w, list) or isinstance(r, list):
        return True
    tw, tr = _t(w), _t(r)
    if tw in PRIMS or tr in PRIMS:
        return tw == tr or (tw, tr) in PROMOTIONS
    if tw == "array" and tr == "array":
        return schemas_match(w["items"], r["items"], nsw, nsr, depth + 1)
    if tw == "map" and tr == "map":
        return schemas_match(w["values"], r["values"], nsw, nsr, depth + 1)
    if tw in NAMED and tr in NAMED and (tw == tr or {tw, tr} <= {"record", "error"}):
        if tw == "fixed" and w["size"] != r["size"]:
            return False
        return names_match(w, r)
    return False


def pick_branch(w, ru, nsw, nsr):
    """the reader-union branch for (non-union) writer schema w: the first of the same
    type, otherwise the first reachable by promotion"""
    for b in ru:
        if same_type(w, b, nsw, nsr):
            return b
    for b in ru:
        if promotable(w, b, nsw, nsr):
            return b
    raise ResolutionError("no matching branch")


def promote(v, tw, tr):
    if tw == tr:
        return v
    if (tw, tr) in (("int", "long"),):
        return v
    if (tw, tr) in (("int", "float"), ("int", "double"), ("long", "float"), ("long", "double")):
        return float(v)
    if (tw, tr) == ("float", "double"):
        return v
    if (tw, tr) == ("string", "bytes"):
        return v.encode("utf-8")
    if (tw, tr) == ("bytes", "string"):
        return v.decode("utf-8")
    raise ResolutionError(f"{tw} is not promotable to {tr}")


def resolve_decode(ws, rs, nsw, nsr, buf, pos=0):
    """-> (value, pos)"""
    ws = deref(ws, nsw)
    if isinstance(ws, list):
        i, pos = read_long(buf, pos)
        if not 0 <= i < len(ws):
            raise Bad("union index")
        return resolve_decode(ws[i], rs, nsw, nsr, buf, pos)
    rs = deref(rs, nsr)
    if isinstance(rs, list):
        rs = deref(pick_branch(ws, rs, nsw, nsr), nsr)
    tw, tr = _t(ws), _t(rs)
    if tw in PRIMS:
        v, pos = decode(ws, nsw, buf, pos)
        if tr not in PRIMS:
            raise ResolutionError(f"{tw} vs {tr}")
        return promote(v, tw, tr), pos
    if tr in PRIMS:
        raise ResolutionError(f"{tw} vs {tr}")
    if tw in ("record", "error") and tr in ("record", "error"):
        pass
    elif tw != tr:
        raise ResolutionError(f"{tw} vs {tr}")
    if tw == "array" and not schemas_match(ws["items"], rs["items"], nsw, nsr):
        raise ResolutionError("array item types do not match")
    if tw == "map" and not schemas_match(ws["values"], rs["values"], nsw, nsr):
        raise ResolutionError("map value types do not match")
    if tw == "array":
        out = []
        while True:
            n, pos = read_long(buf, pos)
            if n == 0:
                return out, pos
            if n < 0:
                n = -n
                _, pos = read_long(buf, pos)
            for _ in range(n):
                v, pos = resolve_decode(ws["items"], rs["items"], nsw, nsr, buf, pos)
                out.append(v)
    if tw == "map":
        out = {}
        while True:
            n, pos = read_long(buf, pos)
            if n == 0:
                return out, pos
            if n < 0:
                n = -n
                _, pos = read_long(buf, pos)
            for _ in range(n):
                k, pos = decode("string", nsw, buf, pos)
                v, pos = resolve_decode(ws["values"], rs["values"], nsw, nsr, buf, pos)
                out[k] = v
    if not names_match(ws, rs):
        raise ResolutionError("type name mismatch")
    if tw == "fixed":
        if ws["size"] != rs["size"]:
            raise ResolutionError("fixed size mismatch")
        return decode(ws, nsw, buf, pos)
    if tw == "enum":
        v, pos = decode(ws, nsw, buf, pos)
        if v in rs["symbols"]:
            return v, pos
        if "default" in rs:
            return rs["default"], pos
        raise ResolutionError("unknown symbol without default")
    # records
    by_name = {}
    for rf in rs["fields"]:
        by_name.setdefault(rf["name"], rf)
    by_alias = {}
    for rf in rs["fields"]:
        for a in rf.get("aliases", []) or []:
            by_alias.setdefault(a, rf)
    got = {}
    for wf in ws["fields"]:
        rf = by_name.get(wf["name"]) or by_alias.get(wf["name"])
        if rf is None:
            _, pos = decode(wf["type"], nsw, buf, pos)       # writer-only field: skipped
        else:
            got[rf["name"]], pos = resolve_decode(wf["type"], rf["type"], nsw, nsr, buf, pos)
    out = {}
    for rf in rs["fields"]:
        if rf["name"] in got:
            out[rf["name"]] = got[rf["name"]]
        elif "default" in rf:
            out[rf["name"]] = default_value(rf["type"], rf["default"], nsr)
        else:
            raise ResolutionError(f"no default for {rf['name']}")
    return out, pos


def default_value(s, j, ns, depth=0):
    """the value a JSON default `j` of a field of (parsed) type `s` denotes (Avro spec, table "field default
    values"): bytes/fixed defaults are JSON strings whose code points 0-255 are the bytes; float/double
    accept the JSON spellings of the non-finite values; record defaults are objects whose missing entries take
    the nested fields' own defaults; arrays and maps element-wise; a union default belongs to the first branch
    it fits."""
    if depth > 12:
        return j
    s = deref(s, ns) if not isinstance(s, list) else s
    if isinstance(s, list):
        for b in s:
            try:
                if _json_fits(j, deref(b, ns)):
                    return default_value(b, j, ns, depth + 1)
            except ResolutionError:
                continue
        return j
    t = _t(s)
    if t in ("bytes", "fixed") and isinstance(j, str):
        try:
            return j.encode("latin-1")
        except UnicodeEncodeError:
            return j
    if t in ("float", "double"):
        if isinstance(j, str):
            return {"NaN": float("nan"), "nan": float("nan"), "Infinity": float("inf"), "inf": float("inf"),
                    "-Infinity": float("-inf"), "-inf": float("-inf")}.get(j, j)
        return j
    if t == "array" and isinstance(j, list):
        return [default_value(s["items"], x, ns, depth + 1) for x in j]
    if t == "map" and isinstance(j, dict):
        return {k: default_value(s["values"], v, ns, depth + 1) for k, v in j.items()}
    if t in ("record", "error") and isinstance(j, dict):
        out = {}
        for f in s["fields"]:
            if f["name"] in j:
                out[f["name"]] = default_value(f["type"], j[f["name"]], ns, depth + 1)
            elif "default" in f:
                out[f["name"]] = default_value(f["type"], f["default"], ns, depth + 1)
        return out
    return j


def _json_fits(j, s):
    t = _t(s)
    if t == "null":
        return j is None
    if t == "boolean":
        return isinstance(j, bool)
    if t in ("int", "long"):
        return isinstance(j, int) and not isinstance(j, bool)
    if t in ("float", "double"):
        return (isinstance(j, (int, float)) and not isinstance(j, bool)) or isinstance(j, str)
    if t in ("bytes", "string", "fixed", "enum"):
        return isinstance(j, str)
    if t == "array":
        return isinstance(j, list)
    if t in ("map", "record", "error"):
        return isinstance(j, dict)
    return False
