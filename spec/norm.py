"""NORM: the documented normalisation of C01 (executable oracle only)."""
import struct

from spec.avro import FIELDVAL, TYPE
from spec.union import select, strip_hint


def single(x):
    return struct.unpack("<f", struct.pack("<f", x))[0]


def NORM(s, ns, d, o):
    t = TYPE(s)
    if t == "null":
        return None
    if t == "boolean":
        return bool(d)
    if t in ("int", "long"):
        return int(d)
    if t == "double":
        return float(d)
    if t == "float":
        return single(float(d))
    if t == "bytes":
        return bytes(d)
    if t == "string":
        return d
    if isinstance(s, list):
        i = select(s, ns, d, o)
        return NORM(s[i], ns, strip_hint(d, o), o)
    if isinstance(s, dict):
        if t in ("fixed", "enum"):
            return d
        if t == "array":
            return [NORM(s["items"], ns, x, o) for x in d]
        if t == "map":
            return {k: NORM(s["values"], ns, v, o) for k, v in d.items()}
        if t in ("record", "error"):
            return {f["name"]: NORM(f["type"], ns, FIELDVAL(f, d), o) for f in s["fields"]}
    return NORM(ns[s], ns, d, o)
