"""Executable specification of schema parsing, names and canonical form (C11-C13),
written from the Avro 1.11 specification ("Names", "Schema Declaration", "Parsing
Canonical Form") and the property statements -- not from the code.

Used by the bounded stand-in (and as the source of parsed schemas / name tables for
the other oracles, so that those do not depend on fastavro's own parser).
"""
import json
import math
import re

PRIMITIVES = ("null", "boolean", "int", "long", "float", "double", "bytes", "string")
NAMED = ("record", "error", "enum", "fixed")
NAME_RE = re.compile(r"[A-Za-z_][A-Za-z0-9_]*\Z")


class Invalid(Exception):
    """the schema is ill-formed; .kind in {unknown, redefined, noname, enum, default, decimal, other}"""
    def __init__(self, kind, msg=""):
        super().__init__(f"{kind}: {msg}")
        self.kind = kind


def fullname(name, namespace, enclosing):
    """spec 'Names': a dotted name wins; else the explicit namespace; else the enclosing one.
    returns (namespace of the type, full name)"""
    if "." in name:
        return name.rsplit(".", 1)[0], name
    ns = namespace if namespace is not None else enclosing
    if ns:
        return ns, f"{ns}.{name}"
    return "", name


def json_default_matches(default, s, ns):
    """can the JSON value `default` be a default for (parsed) schema s?  For unions: any branch
    (property C11)."""
    t = s["type"] if isinstance(s, dict) else ("union" if isinstance(s, list) else s)
    if isinstance(s, list):
        return any(json_default_matches(default, b, ns) for b in s)
    if t == "null":
        return default is None
    if t == "boolean":
        return isinstance(default, bool)
    if t in ("int", "long"):
        return isinstance(default, int) and not isinstance(default, bool)
    if t in ("float", "double"):
        return (isinstance(default, (int, float)) and not isinstance(default, bool)) or \
            (isinstance(default, str) and default in ("NaN", "Infinity", "-Infinity", "nan", "inf", "-inf"))
    if t in ("bytes", "string", "fixed", "enum"):
        return isinstance(default, str)
    if t == "array":
        return isinstance(default, list)
    if t in ("map", "record", "error"):
        return isinstance(default, dict)
    if isinstance(t, str) and t in ns:
        return json_default_matches(default, ns[t], ns)
    return True


def parse(raw, ns=None, enclosing="", names=None, top=True):
    """raw schema -> parsed schema (full names substituted, references resolved against
    `ns`, which is filled with the definitions met).  Raises Invalid for ill-formed
    schemas.  The parsed form carries no parser markers."""
    if ns is None:
        ns = {}
    if names is None:
        names = set()
    if isinstance(raw, list):
        if any(isinstance(b, list) for b in raw):
            raise Invalid("other", "union directly inside a union")
        return [parse(b, ns, enclosing, names, False) for b in raw]
    if isinstance(raw, str):
        if raw in PRIMITIVES:
            return raw
        ref = raw if ("." in raw or not enclosing) else f"{enclosing}.{raw}"
        if ref not in ns:
            raise Invalid("unknown", ref)
        return ref
    if not isinstance(raw, dict) or "type" not in raw:
        raise Invalid("other", "not a schema")
    t = raw["type"]
    extra = {k: v for k, v in raw.items()
             if k not in ("type", "name", "namespace", "fields", "items", "size", "symbols", "values", "doc")}
    out = dict(extra)
    out["type"] = t
    if "doc" in raw:
        out["doc"] = raw["doc"]
    if out.get("logicalType") == "decimal":
        check_decimal(raw)
    if isinstance(t, (list, dict)):
        # {"type": {...}} nests a schema; fastavro does not support it at this level
        raise Invalid("other", "nested type object")
    if t in PRIMITIVES:
        return out
    if t == "array":
        out["items"] = parse(raw["items"], ns, enclosing, names, False)
        return out
    if t == "map":
        out["values"] = parse(raw["values"], ns, enclosing, names, False)
        return out
    if t in NAMED:
        if "name" not in raw:
            raise Invalid("noname")
        nspace, full = fullname(raw["name"], raw.get("namespace"), enclosing)
        if full in names:
            raise Invalid("redefined", full)
        names.add(full)
        out["name"] = full
        ns[full] = out
        if t == "enum":
            syms = raw["symbols"]
            if any((not isinstance(x, str)) or not NAME_RE.match(x) for x in syms):
                raise Invalid("enum", "symbol")
            if len(set(syms)) != len(syms):
                raise Invalid("enum", "duplicate")
            if "default" in raw and raw["default"] not in syms:
                raise Invalid("enum", "default")
            out["symbols"] = list(syms)
            return out
        if t == "fixed":
            out["size"] = raw["size"]
            return out
        fields = []
        for f in raw.get("fields", []):
            pf = {k: v for k, v in f.items() if k not in ("type", "name", "doc", "aliases", "default")}
            for k in ("doc", "aliases", "default"):
                if k in f:
                    pf[k] = f[k]
            pf["name"] = f["name"]
            pf["type"] = parse(f["type"], ns, nspace, names, False)
            if "default" in f and not json_default_matches(f["default"], pf["type"], ns):
                raise Invalid("default", f["name"])
            fields.append(pf)
        out["fields"] = fields
        return out
    # a by-name reference spelled as {"type": "Name"}: not part of the parsed grammar
    raise Invalid("unknown", str(t))


def check_decimal(raw):
    """exactly the rejections the property lists: negative or non-integer precision or scale,
    scale above the precision, precision beyond what the fixed size holds (a missing or zero
    precision is not in that list)"""
    scale = raw.get("scale", 0)
    precision = raw.get("precision")
    if not isinstance(scale, int) or isinstance(scale, bool) or scale < 0:
        raise Invalid("decimal", "scale")
    if precision is None:
        return
    if not isinstance(precision, int) or isinstance(precision, bool) or precision < 0:
        raise Invalid("decimal", "precision")
    if scale > precision:
        raise Invalid("decimal", "scale > precision")
    if raw["type"] == "fixed":
        size = raw["size"]
        if precision > math.floor(math.log10(2) * (8 * size - 1)):
            raise Invalid("decimal", "precision too large for size")


def parse_top(raw):
    """-> (parsed, name table)"""
    ns = {}
    p = parse(raw, ns)
    return p, ns


# ------------------------------------------------------- parsing canonical form
def pcf(p):
    """Parsing Canonical Form of a *parsed* schema (full names already substituted):
    [PRIMITIVES] [FULLNAMES] [STRIP] [ORDER] [STRINGS] [INTEGERS] [WHITESPACE]"""
    if isinstance(p, list):
        return "[" + ",".join(pcf(b) for b in p) + "]"
    if isinstance(p, str):
        return json.dumps(p, separators=(",", ":"))
    t = p["type"]
    if t in PRIMITIVES:
        return f'"{t}"'
    if t == "array":
        return '{"type":"array","items":' + pcf(p["items"]) + "}"
    if t == "map":
        return '{"type":"map","values":' + pcf(p["values"]) + "}"
    if t == "enum":
        return '{"name":' + json.dumps(p["name"]) + ',"type":"enum","symbols":[' + \
            ",".join(json.dumps(x) for x in p["symbols"]) + "]}"
    if t == "fixed":
        return '{"name":' + json.dumps(p["name"]) + ',"type":"fixed","size":' + str(int(p["size"])) + "}"
    if t in ("record", "error"):
        return '{"name":' + json.dumps(p["name"]) + ',"type":"record","fields":[' + \
            ",".join('{"name":' + json.dumps(f["name"]) + ',"type":' + pcf(f["type"]) + "}" for f in p["fields"]) + "]}"
    raise ValueError(t)


def pcf_raw(raw):
    p, _ = parse_top(raw)
    return pcf(p)


# ------------------------------------------------------------ CRC-64-AVRO (C14)
EMPTY64 = 0xC15D213AA4D7A795


def rabin(bs):
    """the specification's fingerprint by bitwise polynomial division (no table)"""
    fp = EMPTY64
    for b in bs:
        fp ^= b
        for _ in range(8):
            fp = (fp >> 1) ^ (EMPTY64 if fp & 1 else 0)
    return fp


def rabin_hex(bs):
    return rabin(bs).to_bytes(8, "little").hex()
