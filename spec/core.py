"""Executable specification library, part 1: integers, varints, byte strings.

Written from the Avro 1.11 specification ("Binary Encoding") and from the
property statements, not from the code.  Every function is pure and total and
is *also* translated into SMT by pyvc (see pyvc/specs.py), so it is written in
the small expression subset the translator accepts.
"""
from pyvc.dsl import spec, opaque, is_lib


# ----------------------------------------------------------------- integers
@spec
def zigzag(n: int) -> int:
    """Avro spec: (n << 1) ^ (n >> 63) for a 64-bit n, i.e. 2n for n >= 0, -2n-1 otherwise"""
    if n >= 0:
        return 2 * n
    return -2 * n - 1


@spec
def unzigzag(z: int) -> int:
    if z % 2 == 0:
        return z // 2
    return -(z // 2) - 1


@spec
def varint(z: int) -> bytes:
    """base-128 little-endian digits, continuation bit on all but the last (z >= 0)"""
    if z < 128:
        return bytes([z])
    return bytes([z % 128 + 128]) + varint(z // 128)


@spec
def varint_len(z: int) -> int:
    if z < 128:
        return 1
    return 1 + varint_len(z // 128)


@spec
def pow2(k: int) -> int:
    """2**k for k >= 0 (unfolds seven bits at a time, the step of varint decoding)"""
    if k <= 0:
        return 1
    if k >= 7:
        return 128 * pow2(k - 7)
    return 2 * pow2(k - 1)


@spec
def pow10(k: int) -> int:
    if k <= 0:
        return 1
    return 10 * pow10(k - 1)


@spec
def zeros(k: int) -> bytes:
    if k <= 0:
        return b""
    return b"\x00" + zeros(k - 1)


@spec
def long_bytes(n: int) -> bytes:
    """Avro binary encoding of an int/long value"""
    return varint(zigzag(n))


LONG_MIN = -(2 ** 63)
LONG_MAX = 2 ** 63 - 1
INT_MIN = -(2 ** 31)
INT_MAX = 2 ** 31 - 1


# ------------------------------------------------------------------ strings
@opaque
def utf8(s: str) -> bytes:
    """UTF-8 encoding (assumed contract of str.encode; see externals)"""
    return s.encode()


@opaque
def utf8_valid(b: bytes) -> bool:
    try:
        b.decode()
        return True
    except UnicodeDecodeError:
        return False


@opaque
def utf8_decode(b: bytes) -> str:
    return b.decode()


@opaque
def str_of_int(n: int) -> str:
    return str(n)


@opaque
def hex_of(b: bytes) -> str:
    return b.hex()


# ------------------------------------------------------------------- floats
# In SMT a Python float is its IEEE-754 binary64 bit pattern (an Int in
# [0, 2^64)); all arithmetic on floats is opaque.  The executable versions below
# compute bit patterns without `struct`, so that the `struct` contract assumed
# by the verifier is checked against an independent definition (vcheck axioms).
import math


def float_bits(x: float) -> int:
    """IEEE-754 binary64 bit pattern of x (identity in SMT)"""
    if x != x:
        return 0x7FF8000000000000
    sign = 1 if math.copysign(1.0, x) < 0 else 0
    ax = abs(x)
    if ax == 0.0:
        return sign << 63
    if ax == math.inf:
        return (sign << 63) | (0x7FF << 52)
    m, e = math.frexp(ax)          # ax = m * 2^e, 0.5 <= m < 1
    e -= 1
    if e >= -1022:                 # normal: 1.f * 2^e
        frac = int((m * 2 - 1) * (1 << 52))
        return (sign << 63) | ((e + 1023) << 52) | frac
    frac = int(math.ldexp(ax, 1074))  # subnormal
    return (sign << 63) | frac


def float_from_bits(b: int) -> float:
    sign = -1.0 if (b >> 63) & 1 else 1.0
    e = (b >> 52) & 0x7FF
    f = b & ((1 << 52) - 1)
    if e == 0x7FF:
        return sign * math.inf if f == 0 else math.nan
    if e == 0:
        return sign * math.ldexp(float(f), -1074)
    return sign * math.ldexp(float((1 << 52) | f), e - 1075)


@opaque
def f_of_int(n: int) -> float:
    return float(n)


@opaque
def f_int_fits_double(n: int) -> bool:
    try:
        float(n)
        return True
    except OverflowError:
        return False


@opaque
def f_to_single(x: float) -> int:
    """bit pattern of x rounded to IEEE-754 binary32 (round to nearest even)"""
    b = float_bits(x)
    sign = (b >> 63) & 1
    e = (b >> 52) & 0x7FF
    f = b & ((1 << 52) - 1)
    if e == 0x7FF:
        return (sign << 31) | (0xFF << 23) | ((1 << 22) if f else 0)
    if e == 0 and f == 0:
        return sign << 31
    # value = m * 2^q with integer m
    if e == 0:
        m, q = f, -1074
    else:
        m, q = (1 << 52) | f, e - 1075
    # target: integer significand s with value ~= s * 2^t
    # normal single: s in [2^23, 2^24), t = E - 150 with E in [1, 254]; subnormal: t = -149
    bl = m.bit_length()
    t = q + bl - 24
    if t < -149:
        t = -149
    shift = t - q
    if shift <= 0:
        s = m << (-shift)
    else:
        s = m >> shift
        remd = m & ((1 << shift) - 1)
        half = 1 << (shift - 1)
        if remd > half or (remd == half and (s & 1)):
            s += 1
    if s >= (1 << 24):
        s >>= 1
        t += 1
    if s < (1 << 23):
        return (sign << 31) | s          # subnormal or zero (t == -149)
    E = t + 150
    if E >= 255:
        return (sign << 31) | (0xFF << 23)
    return (sign << 31) | (E << 23) | (s - (1 << 23))


@opaque
def f_of_single(b: int) -> float:
    sign = -1.0 if (b >> 31) & 1 else 1.0
    e = (b >> 23) & 0xFF
    f = b & ((1 << 23) - 1)
    if e == 0xFF:
        return sign * math.inf if f == 0 else math.nan
    if e == 0:
        return sign * math.ldexp(float(f), -149)
    return sign * math.ldexp(float((1 << 23) | f), e - 150)


@opaque
def f_fits_single(x: float) -> bool:
    """struct.pack('<f', x) succeeds: x is nan/inf or rounds to a finite single"""
    if x != x or abs(x) == math.inf:
        return True
    return ((f_to_single(x) >> 23) & 0xFF) != 0xFF


@opaque
def f_isfinite(x: float) -> bool:
    return x == x and abs(x) != math.inf


@opaque
def f_trunc(x: float) -> int:
    return int(x)


@opaque
def f_idiv(a: int, b: int) -> float:
    return a / b


@opaque
def f_feq(a: float, b: float) -> bool:
    return a == b


@opaque
def f_str_parses(s: str) -> bool:
    try:
        float(s)
        return True
    except ValueError:
        return False


@opaque
def f_of_str(s: str) -> float:
    return float(s)


@opaque
def f_neg(x: float) -> float:
    return -x


@spec
def le_bytes8(b: int) -> bytes:
    return bytes([b % 256, (b // 256) % 256, (b // 65536) % 256, (b // 16777216) % 256,
                  (b // 4294967296) % 256, (b // 1099511627776) % 256,
                  (b // 281474976710656) % 256, (b // 72057594037927936) % 256])


@spec
def le_bytes4(b: int) -> bytes:
    return bytes([b % 256, (b // 256) % 256, (b // 65536) % 256, (b // 16777216) % 256])


@spec
def be_bytes4(b: int) -> bytes:
    return bytes([(b // 16777216) % 256, (b // 65536) % 256, (b // 256) % 256, b % 256])


@spec
def double_bytes(x: float) -> bytes:
    """Avro: IEEE-754 binary64, little-endian"""
    return le_bytes8(float_bits(x))


@spec
def float_bytes(x: float) -> bytes:
    """Avro: the value rounded to IEEE-754 binary32, little-endian"""
    return le_bytes4(f_to_single(x))


@opaque
def crc32(b: bytes) -> int:
    import binascii
    return binascii.crc32(b) & 0xFFFFFFFF


@spec
def num_to_float(d: object) -> float:
    """the float a number denotes when written under float/double (C01 normalisation)"""
    if isinstance(d, float):
        return d
    return f_of_int(d)


@spec
def shr7(z: int, shift: int) -> int:
    """z // 2**shift for shift a multiple of 7 (what is left of a varint's value after
    shift/7 digits have been consumed)"""
    if shift <= 0:
        return z
    return shr7(z, shift - 7) // 128


# ------------------------------------------------------ assumed facts (axioms)
from pyvc.dsl import axiom
from pyvc.contracts import implies


@axiom("utf8")
def ax_utf8_roundtrip(s: str) -> bool:
    """str.encode() / bytes.decode() are inverse on encodable strings"""
    return utf8_valid(utf8(s)) and utf8_decode(utf8(s)) == s


@axiom("utf8")
def ax_utf8_ascii_char(s: str) -> bool:
    """a single ASCII character encodes to the byte of its code point"""
    return not (len(s) == 1 and ord(s) < 128) or utf8(s) == bytes([ord(s)])


@axiom("utf8_decode")
def ax_utf8_decode_inverse(b: bytes) -> bool:
    return implies(utf8_valid(b), utf8(utf8_decode(b)) == b)


@axiom("f_of_single")
def ax_single_roundtrip(b: int) -> bool:
    """widening a binary32 pattern to binary64 and rounding back is the identity
    (NaN payloads excepted: quiet bit) and always representable"""
    return implies(0 <= b < 4294967296 and not f_single_is_nan(b),
                   f_to_single(f_of_single(b)) == b and f_fits_single(f_of_single(b))
                   and 0 <= float_bits(f_of_single(b)) < 18446744073709551616)


@opaque
def f_single_is_nan(b: int) -> bool:
    return ((b >> 23) & 0xFF) == 0xFF and (b & 0x7FFFFF) != 0


@opaque
def le_value(b: bytes) -> int:
    return int.from_bytes(b, "little")


@axiom("le_bytes8")
def ax_le8_value(b: int) -> bool:
    return implies(0 <= b < 18446744073709551616, le_value(le_bytes8(b)) == b)


@axiom("le_bytes4")
def ax_le4_value(b: int) -> bool:
    return implies(0 <= b < 4294967296, le_value(le_bytes4(b)) == b)


@axiom("le_value")
def ax_le_value_bytes(b: bytes) -> bool:
    """every 4- or 8-byte string is the little-endian form of its value (bytes are 0..255)"""
    return (implies(len(b) == 8, le_bytes8(le_value(b)) == b and 0 <= le_value(b) < 18446744073709551616)
            and implies(len(b) == 4, le_bytes4(le_value(b)) == b and 0 <= le_value(b) < 4294967296))


# ------------------------------------------------------------------- sets etc.
@opaque
def set_diff(a: set, b: set) -> set:
    return a - b


@opaque
def set_union(a: set, b: set) -> set:
    return a | b


@opaque
def set_inter(a: set, b: set) -> set:
    return a & b


@opaque
def dedup(xs: list) -> set:
    return set(xs)


@opaque
def str_join(sep: str, parts: list) -> str:
    return sep.join(parts)


@opaque
def str_split(s: str, sep: str, maxsplit: int) -> list:
    return s.split(sep, maxsplit)


@opaque
def str_rsplit(s: str, sep: str, maxsplit: int) -> list:
    return s.rsplit(sep, maxsplit)


@spec
def ALL_STRS(xs: list, k: int) -> bool:
    if k >= len(xs):
        return True
    return isinstance(xs[k], str) and ALL_STRS(xs, k + 1)


@axiom("str_split")
def ax_split_parts(s: str, sep: str, maxsplit: int) -> bool:
    """str.split with a separator returns at least one part, all of them strings"""
    return len(str_split(s, sep, maxsplit)) >= 1 and ALL_STRS(str_split(s, sep, maxsplit), 0)


@axiom("str_rsplit")
def ax_rsplit_parts(s: str, sep: str, maxsplit: int) -> bool:
    return len(str_rsplit(s, sep, maxsplit)) >= 1 and ALL_STRS(str_rsplit(s, sep, maxsplit), 0)


@spec
def FLOATED(x: object) -> object:
    """float(x) as the record writer applies it to float/double fields, so that JSON
    defaults such as "NaN" work; values float() rejects are left alone"""
    if isinstance(x, float):
        return x
    if isinstance(x, bool):
        return f_of_int(1 if x else 0)
    if isinstance(x, int):
        return f_of_int(x)
    if isinstance(x, str) and f_str_parses(x):
        return f_of_str(x)
    return x


# --------------------------------------------------------- integers <-> bytes
@opaque
def int_to_bytes_little(x: int, n: int) -> bytes:
    return x.to_bytes(n, "little")


@opaque
def int_to_bytes_big(x: int, n: int) -> bytes:
    return x.to_bytes(n, "big")


@opaque
def int_to_bytes_signed_big(x: int, n: int) -> bytes:
    return x.to_bytes(n, "big", signed=True)


@opaque
def int_to_bytes_signed_little(x: int, n: int) -> bytes:
    return x.to_bytes(n, "little", signed=True)


@axiom("int_to_bytes_little")
def ax_to_bytes_little_len(x: int, n: int) -> bool:
    """int.to_bytes(n, ...) has exactly n bytes (whenever it is defined)"""
    return not (n >= 0 and 0 <= x and x < 2 ** (8 * n)) or len(int_to_bytes_little(x, n)) == n


@axiom("int_to_bytes_big")
def ax_to_bytes_big_len(x: int, n: int) -> bool:
    return not (n >= 0 and 0 <= x and x < 2 ** (8 * n)) or len(int_to_bytes_big(x, n)) == n


@opaque
def bit_length(x: int) -> int:
    return x.bit_length()


# ------------------------------------------------- CRC-64-AVRO (C14), 64-bit vectors
EMPTY64 = 0xC15D213AA4D7A795


@spec
def STEP1(fp: "bv64") -> "bv64":
    """one step of the polynomial division: shift right, xor the polynomial if a 1 fell out"""
    if fp & 1 != 0:
        return (fp >> 1) ^ EMPTY64
    return fp >> 1


@spec
def STEP8(fp: "bv64") -> "bv64":
    return STEP1(STEP1(STEP1(STEP1(STEP1(STEP1(STEP1(STEP1(fp))))))))


@spec
def RABIN(bs: bytes, hi: int) -> "bv64":
    """the specification's 64-bit Rabin fingerprint of bs[:hi]: start from EMPTY64; for each
    byte xor it into the low bits and divide eight times"""
    if hi <= 0:
        return EMPTY64
    return STEP8(RABIN(bs, hi - 1) ^ bs[hi - 1])


@spec
def HEX_LE8(v: "bv64") -> str:
    """sixteen hex digits, little-endian byte order"""
    return hex_of(int_to_bytes_little(bv_to_int(v), 8))


def bv_to_int(v):
    return v


@opaque
def HASH_HEX(alg: str, data: bytes) -> str:
    """hex digest of `data` under the hashlib algorithm `alg` (assumed external)"""
    import hashlib
    return hashlib.new(alg, data).hexdigest()


JAVA_DIGEST_NAMES = {"SHA-256": "sha256", "MD5": "md5"}


@spec
def FINGERPRINT(text: str, alg: str) -> str:
    """C14: CRC-64-AVRO is the Rabin fingerprint of the UTF-8 bytes, sixteen hex digits
    little-endian; every other algorithm is that hashlib digest of the UTF-8 bytes, with the
    Java spellings SHA-256 and MD5 mapped to sha256 and md5"""
    if alg == "CRC-64-AVRO":
        return HEX_LE8(RABIN(utf8(text), len(utf8(text))))
    if alg == "SHA-256":
        return HASH_HEX("sha256", utf8(text))
    if alg == "MD5":
        return HASH_HEX("md5", utf8(text))
    return HASH_HEX(alg, utf8(text))


@spec
def ADVERTISED(alg: str) -> bool:
    """the advertised algorithm names: hashlib's guaranteed algorithms, the two Java
    spellings and CRC-64-AVRO"""
    return HASHLIB_GUARANTEED(alg) or alg == "SHA-256" or alg == "MD5" or alg == "CRC-64-AVRO"


@opaque
def HASHLIB_GUARANTEED(alg: str) -> bool:
    import hashlib
    return alg in hashlib.algorithms_guaranteed


# ------------------------------------------------------------------ calendar objects (C16)
# datetime.time / datetime.date values are opaque objects; what the logical-type converters read from them
# are these observers (executable: the attribute itself).  Ranges are facts about every such object.
@spec
def is_time(x: object) -> bool:
    return is_lib(x, "datetime.time")


@spec
def is_date(x: object) -> bool:
    """a date that is not a datetime"""
    return is_lib(x, "datetime.date")


@spec
def is_datetime(x: object) -> bool:
    return is_lib(x, "datetime.datetime")


@opaque
def tod_hour(x: object) -> int:
    return x.hour


@opaque
def tod_minute(x: object) -> int:
    return x.minute


@opaque
def tod_second(x: object) -> int:
    return x.second


@opaque
def tod_micro(x: object) -> int:
    return x.microsecond


@opaque
def date_ordinal(x: object) -> int:
    """proleptic Gregorian ordinal: 0001-01-01 is day 1 (so 1970-01-01 is day 719163)"""
    return x.toordinal()


@axiom("f_idiv")
def ax_idiv_trunc(a: int, b: int) -> bool:
    """int(a / b) on integers well below 2**53: the correctly rounded quotient truncates to the integer
    quotient (a = k*b - r with r >= 1 is at least 1/b below k, the rounding error is at most k * 2**-53,
    and k*b < a + b < 2**53)"""
    return (not (0 <= a < 4503599627370496 and 0 < b < 4503599627370496)
            or (f_trunc(f_idiv(a, b)) == a // b and f_isfinite(f_idiv(a, b))))


# ------------------------------------------------------------------ decimals (C16)
# decimal.Decimal values are opaque objects; the writers read them through as_tuple() = (sign, digits, exponent):
# sign is 0 or 1, digits a tuple of decimal digits, the exponent an int for finite numbers (a str for NaN / Infinity).
@opaque
def dec_sign(x: object) -> int:
    return x.as_tuple()[0]


@opaque
def dec_digits(x: object) -> tuple:
    return x.as_tuple()[1]


@opaque
def dec_exp(x: object) -> object:
    return x.as_tuple()[2]


@spec
def is_decimal(x: object) -> bool:
    return is_lib(x, "decimal.Decimal")


@spec
def DIGITS_OK(ds: tuple, hi: int) -> bool:
    """the first hi elements are decimal digits"""
    if hi <= 0:
        return True
    return DIGITS_OK(ds, hi - 1) and isinstance(ds[hi - 1], int) and not isinstance(ds[hi - 1], bool) and 0 <= ds[hi - 1] and ds[hi - 1] <= 9


@spec
def DIGVAL(ds: tuple, hi: int) -> int:
    """the number written by the first hi digits"""
    if hi <= 0:
        return 0
    return DIGVAL(ds, hi - 1) * 10 + ds[hi - 1]


@spec
def UNSCALED(x: object, scale: int) -> int:
    """the unscaled integer of the decimal x at the given scale: (-1)**sign * digits * 10**(exponent + scale)
    (meaningful when exponent + scale >= 0, i.e. x has no more fractional digits than the scale)"""
    if dec_sign(x) == 1:
        return -(pow10(dec_exp(x) + scale) * DIGVAL(dec_digits(x), len(dec_digits(x))))
    return pow10(dec_exp(x) + scale) * DIGVAL(dec_digits(x), len(dec_digits(x)))


@axiom("bit_length")
def ax_bit_length(x: int) -> bool:
    """a non-negative integer is below 2**bit_length (and bit_length is not negative)"""
    return not x >= 0 or (bit_length(x) >= 0 and x < 2 ** bit_length(x))


@spec
def repeat_tuple(t: tuple, n: int) -> tuple:
    """t * n (right-unfolded: n copies, the last one appended)"""
    if n <= 0:
        return ()
    return repeat_tuple(t, n - 1) + t


@spec
def FITS_SIGNED(x: int, n: int) -> bool:
    """x is representable in n bytes of two's complement"""
    if n <= 0:
        return x == 0
    return -(2 ** (8 * n - 1)) <= x and x < 2 ** (8 * n - 1)


# ------------------------------------------------------------------ datetimes and timedeltas (C16, timestamps)
@opaque
def dt_aware(x: object) -> bool:
    """the datetime carries a UTC offset"""
    return x.tzinfo is not None and x.utcoffset() is not None


@opaque
def dt_offset_us(x: object) -> int:
    """UTC offset of an aware datetime in microseconds (0 for a naive one)"""
    import datetime as _d
    o = x.utcoffset() if x.tzinfo is not None else None
    return 0 if o is None else (o.days * 86400 + o.seconds) * 1000000 + o.microseconds


@opaque
def dt_us(x: object) -> int:
    """microseconds from 0001-01-01T00:00:00: of the instant in UTC for an aware datetime, of the wall-clock reading
    for a naive one"""
    import datetime as _d
    n = x.replace(tzinfo=None)
    d = n - _d.datetime(1, 1, 1)
    us = (d.days * 86400 + d.seconds) * 1000000 + d.microseconds
    if x.tzinfo is not None and x.utcoffset() is not None:
        o = x.utcoffset()
        us -= (o.days * 86400 + o.seconds) * 1000000 + o.microseconds
    return us


@opaque
def td_days(x: object) -> int:
    return x.days


@opaque
def td_seconds(x: object) -> int:
    return x.seconds


@opaque
def td_micros(x: object) -> int:
    return x.microseconds


@spec
def is_timedelta(x: object) -> bool:
    return is_lib(x, "datetime.timedelta")


@spec
def td_total_us(x: object) -> int:
    """a timedelta is normalised: days any sign, 0 <= seconds < 86400, 0 <= microseconds < 1000000"""
    return (td_days(x) * 86400 + td_seconds(x)) * 1000000 + td_micros(x)


# 1970-01-01T00:00:00 counted from 0001-01-01T00:00:00, in microseconds (719162 days)
EPOCH_US = 62135596800000000
# 9999-12-31T23:59:59.999999
MAX_DT_US = 315537897599999999


@spec
def all_truthy(xs: list) -> bool:
    """all(xs)"""
    return ALL_TRUTHY(xs, len(xs))


@spec
def ALL_TRUTHY(xs: list, hi: int) -> bool:
    if hi <= 0:
        return True
    return ALL_TRUTHY(xs, hi - 1) and bool(xs[hi - 1])


@spec
def any_truthy(xs: list) -> bool:
    """any(xs)"""
    return ANY_TRUTHY(xs, len(xs))


@spec
def ANY_TRUTHY(xs: list, hi: int) -> bool:
    if hi <= 0:
        return False
    return ANY_TRUTHY(xs, hi - 1) or bool(xs[hi - 1])


@axiom("int_to_bytes_signed_big")
def ax_to_bytes_signed_big_len(x: int, n: int) -> bool:
    """int.to_bytes(n, "big", signed=True) has exactly n bytes whenever it is defined"""
    return not (n >= 1 and FITS_SIGNED(x, n)) or len(int_to_bytes_signed_big(x, n)) == n
