"""Executable specification library, part 1: integers, varints, byte strings.

Written from the Avro 1.11 specification ("Binary Encoding") and from the
property statements, not from the code.  Every function is pure and total and
is *also* translated into SMT by pyvc (see pyvc/specs.py), so it is written in
the small expression subset the translator accepts.
"""
from pyvc.specs import spec, opaque


# ----------------------------------------------------------------- integers
@spec
def zigzag(n: int) -> int:
    """Avro spec: (n << 1) ^ (n >> 63) for a 64-bit n, i.e. 2n for n >= 0, -2n-1 otherwise"""
    if n >= 0:
        return 2 * n
    return -2 * n - 1


@spec
def unzigzag(z: int) -> int:
    if z % 2 == 0:
        return z // 2
    return -(z // 2) - 1


@spec
def varint(z: int) -> bytes:
    """base-128 little-endian digits, continuation bit on all but the last (z >= 0)"""
    if z < 128:
        return bytes([z])
    return bytes([z % 128 + 128]) + varint(z // 128)


@spec
def varint_len(z: int) -> int:
    if z < 128:
        return 1
    return 1 + varint_len(z // 128)


@spec
def pow2(k: int) -> int:
    if k <= 0:
        return 1
    return 2 * pow2(k - 1)


@spec
def pow10(k: int) -> int:
    if k <= 0:
        return 1
    return 10 * pow10(k - 1)


@spec
def zeros(k: int) -> bytes:
    if k <= 0:
        return b""
    return b"\x00" + zeros(k - 1)


@spec
def long_bytes(n: int) -> bytes:
    """Avro binary encoding of an int/long value"""
    return varint(zigzag(n))


LONG_MIN = -(2 ** 63)
LONG_MAX = 2 ** 63 - 1
INT_MIN = -(2 ** 31)
INT_MAX = 2 ** 31 - 1


# ------------------------------------------------------------------ strings
@opaque
def utf8(s: str) -> bytes:
    """UTF-8 encoding (assumed contract of str.encode; see externals)"""
    return s.encode()


@opaque
def utf8_valid(b: bytes) -> bool:
    try:
        b.decode()
        return True
    except UnicodeDecodeError:
        return False


@opaque
def utf8_decode(b: bytes) -> str:
    return b.decode()


@opaque
def str_of_int(n: int) -> str:
    return str(n)


@opaque
def hex_of(b: bytes) -> str:
    return b.hex()
