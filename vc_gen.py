import sys, time, faulthandler
sys.path.insert(0, '/verif')
faulthandler.dump_traceback_later(int(sys.argv[2]) if len(sys.argv)>2 else 60, exit=True)
from pyvc.verifier import Engine
from pyvc import run
eng = Engine().load()
pat = sys.argv[1]
for key, c in eng.contracts.by_key.items():
    if pat not in f"{key[0]}:{key[1]}[{key[2]}]": continue
    t=time.time(); res = run.generate(eng, c)
    print("==", key, "paths", res.paths, "obs", len(res.obligations), "gen %.2fs" % (time.time()-t), res.unsupported, res.error)
    for o in res.obligations: print("  ", o.name)
