"""Regenerates MANIFEST.json from the table below (keeps it valid at all times)."""
import json

CLAIMS = {
 "C01": dict(cat="other", design="0.3, 0.18, 7/C01",
   text=("Deductive: every BinaryEncoder/BinaryDecoder method, the type writers incl. write_union (branch search against the "
         "statement's selection rule SEL), write_data, the readers and skips and read_data are under contract against the "
         "specification functions ENC (writer side) and BYTES/VALUE over all encoding derivations (reader side); all obligations "
         "discharged by z3 for all schemas, data and iterations; no assumed contract on repository functions remains on this path. "
         "The public schemaless_writer / schemaless_reader are under contract too (on an already parsed schema, with the name table "
         "the schema carries): they append exactly ENC(...) / return VALUE(w) consuming exactly BYTES(w). "
         "Not deductive: the glue ENC == BYTES(WIT) / VALUE(WIT) == NORM between the two spec views, which the bounded stand-in "
         "checks on enumerated schemas x boundary data; hence 'other', not 'proof'."),
   note=("Trusted: z3, the pyvc translator and stream model, struct/UTF-8 external contracts, float axioms, len<=2^63-1; "
         "domain: parsed schemas without logical types, no Avro keyword used as a type name (NS_CLEAN), field defaults valid as data "
         "(DEFAULTS_DATA; outside it KF12); parse_schema not involved (parsed schemas are inputs); Cython mirrors unverified."),
   technique="contract-based deductive verification (AST->VC, z3) + bounded stand-in for the spec-level round-trip glue"),
 "C02": dict(cat="other", design="0.3, 0.18, 7/C02",
   text=("Deductive: encoder primitives and composite writers append exactly ENC(schema, datum) -- the specification's "
         "encoding written independently from the Avro document -- for all conforming data; write_fixed raises on wrong "
         "length before writing; write_union writes the index of the branch the statement's rule selects (SEL: hinted branch, first "
         "conforming non-record branch with float deferring to a later double, else the record sharing most field names, first on ties) "
         "followed by the value. The public schemaless_writer (parsed schema) appends exactly ENC under the options its keywords "
         "spell. All obligations discharged. ENC's agreement with the reader-side view (BYTES of a derivation) is "
         "only bounded, so the level is 'other'."),
   note="Trusted: as C01. One known finding (KF13) is excluded by predicate; any other violation of that obligation is still reported.",
   technique="contract-based deductive verification (AST->VC, z3); bounded differential check against the executable spec"),
 "C03": dict(cat="other", design="0.3, 0.15, 0.18, 7/C03",
   text=("Deductive: every decoder method and every read_*/skip_* function returns VALUE(schema, w) and consumes exactly "
         "BYTES(schema, w) for EVERY well-formed derivation w (any block partition, negative-count blocks); out-of-range "
         "union/enum indices raise; the public schemaless_reader (parsed schema) does the same; behaviour 'short' of the decoder "
         "and of every reader and skip: with NO assumption about the input a call that returns has not had a read come back short. "
         "The conclusion 'every proper prefix raises' additionally rests on the paper lemma L-prefix and is exercised by "
         "the bounded stand-in (every prefix of enumerated encodings)."),
   note="Trusted: as C01; paper lemma L-prefix (DESIGN 7/C03) is an unchecked assumption; that a proper prefix cannot itself be a complete encoding (prefix-freeness) is not mechanised.",
   technique="contract-based deductive verification over encoding derivations (ghost witnesses, loop ghosts); bounded prefix/partition enumeration"),
 "C17": dict(cat="other", design="7/C17",
   text=("Frame obligations decided by the provenance pass for EVERY store site of every function of the pure-Python "
         "package (268 sites in 288 functions): no call writes module-level objects, mutable default arguments, class "
         "attributes, undeclared parameters or objects of unknown origin; schema and datum parameters are never declared "
         "modifiable. The step from per-call frames to 'any history' is the paper lemma L-frame (unchecked); the bounded "
         "stand-in replays sampled call histories against fresh-interpreter results and checks inputs intact."),
   note=("Trusted: the provenance rules (flow-insensitive, intraprocedural; field-sensitive only for attributes of self), the "
         "declarations in contracts/_frames.py (listed in evidence), L-frame; C extensions / Cython mirrors not analysed."),
   technique="frame conditions checked by a provenance analysis over the real AST; bounded differential history replay"),
 "C18": dict(cat="other", design="7/C18",
   text=("Interleavings are outside what contracts can quantify over. What is machine-checked is the sufficient condition: "
         "the same frame obligations as C17 (nothing shared is written; per-operation state is per-instance). "
         "The non-interference step is a paper lemma (unchecked). The schedule quantifier is NOT explored; a bounded "
         "stand-in runs thread stress with a tiny switch interval and, for any failing store site, deterministic "
         "pause-after-store schedules."),
   note="Trusted: as C17 plus CPython GIL atomicity of bytecodes and thread-safety of the C externals; schedules sampled only.",
   technique="frame / non-interference obligations by provenance analysis; deterministic schedule replay as bounded stand-in"),
 "C04": dict(cat="exploration", design="7/C04",
   text=("Bounded stand-in only (labelled bounded, nothing counted as proved): container round trip against NORM; self-description (canonical form, codec, metadata); block-size independence; read-only sequential input; write-only non-seekable output. "
         "Deductive contracts for the functions this property is anchored in are not yet discharged in this version; "
         "the level claimed is therefore exploration."),
   note="Oracles: executable spec library under /verif/spec (written from the Avro specification and the property text); stdlib codecs, json, hashlib trusted; enumeration bounds are in the evidence file.",
   technique="bounded run-time checking against executable specification functions (stand-in for contracts not yet discharged)"),
 "C05": dict(cat="exploration", design="7/C05",
   text=("Bounded stand-in only (labelled bounded, nothing counted as proved): files written by fastavro parsed by an independent layout parser; files built by an independent writer (any partition, empty blocks, chunked header map, codec key absent) read by reader and block_reader; block tiling; is_avro on byte strings; Java fixtures. "
         "Deductive contracts for the functions this property is anchored in are not yet discharged in this version; "
         "the level claimed is therefore exploration."),
   note="Oracles: executable spec library under /verif/spec (written from the Avro specification and the property text); stdlib codecs, json, hashlib trusted; enumeration bounds are in the evidence file.",
   technique="bounded run-time checking against executable specification functions (stand-in for contracts not yet discharged)"),
 "C06": dict(cat="exploration", design="7/C06",
   text=("Bounded stand-in only (labelled bounded, nothing counted as proved): every cut offset of enumerated files under all four local codecs; single-bit alterations of every sync marker. "
         "Deductive contracts for the functions this property is anchored in are not yet discharged in this version; "
         "the level claimed is therefore exploration."),
   note="Oracles: executable spec library under /verif/spec (written from the Avro specification and the property text); stdlib codecs, json, hashlib trusted; enumeration bounds are in the evidence file.",
   technique="bounded run-time checking against executable specification functions (stand-in for contracts not yet discharged)"),
 "C07": dict(cat="exploration", design="7/C07",
   text=("Bounded stand-in only (labelled bounded, nothing counted as proved): random histories over write / large write / failing write / flush / write_block from donor files / reopen for append with arbitrary arguments; header frozen. "
         "Deductive contracts for the functions this property is anchored in are not yet discharged in this version; "
         "the level claimed is therefore exploration."),
   note="Oracles: executable spec library under /verif/spec (written from the Avro specification and the property text); stdlib codecs, json, hashlib trusted; enumeration bounds are in the evidence file.",
   technique="bounded run-time checking against executable specification functions (stand-in for contracts not yet discharged)"),
 "C08": dict(cat="exploration", design="7/C08",
   text=("Bounded stand-in only (labelled bounded, nothing counted as proved): reader schemas derived from writer schemas by single evolution steps at every position, against the resolution oracle. "
         "Deductive contracts for the functions this property is anchored in are not yet discharged in this version; "
         "the level claimed is therefore exploration."),
   note="Oracles: executable spec library under /verif/spec (written from the Avro specification and the property text); stdlib codecs, json, hashlib trusted; enumeration bounds are in the evidence file.",
   technique="bounded run-time checking against executable specification functions (stand-in for contracts not yet discharged)"),
 "C09": dict(cat="exploration", design="7/C09",
   text=("Bounded stand-in only (labelled bounded, nothing counted as proved): writer's branch index against the selection oracle with and without hints; closure under read-with-names / rewrite. "
         "Deductive contracts for the functions this property is anchored in are not yet discharged in this version; "
         "the level claimed is therefore exploration."),
   note="Oracles: executable spec library under /verif/spec (written from the Avro specification and the property text); stdlib codecs, json, hashlib trusted; enumeration bounds are in the evidence file.",
   technique="bounded run-time checking against executable specification functions (stand-in for contracts not yet discharged)"),
 "C10": dict(cat="exploration", design="7/C10",
   text=("Bounded stand-in only (labelled bounded, nothing counted as proved): validate against CONFORMS on conforming and singly-mutated data x raise_errors x strict x tuple notation; writer agreement and validation gate. "
         "Deductive contracts for the functions this property is anchored in are not yet discharged in this version; "
         "the level claimed is therefore exploration."),
   note="Oracles: executable spec library under /verif/spec (written from the Avro specification and the property text); stdlib codecs, json, hashlib trusted; enumeration bounds are in the evidence file.",
   technique="bounded run-time checking against executable specification functions (stand-in for contracts not yet discharged)"),
 "C11": dict(cat="exploration", design="7/C11",
   text=("Bounded stand-in only (labelled bounded, nothing counted as proved): parse_schema against the spec parser on valid schemas; every listed kind of ill-forming mutation at every position. "
         "Deductive contracts for the functions this property is anchored in are not yet discharged in this version; "
         "the level claimed is therefore exploration."),
   note="Oracles: executable spec library under /verif/spec (written from the Avro specification and the property text); stdlib codecs, json, hashlib trusted; enumeration bounds are in the evidence file.",
   technique="bounded run-time checking against executable specification functions (stand-in for contracts not yet discharged)"),
 "C12": dict(cat="exploration", design="7/C12",
   text=("Bounded stand-in only (labelled bounded, nothing counted as proved): idempotence; raw / parsed / piecewise-parsed forms across binary, container, JSON, validate, canonical form, generate. "
         "Deductive contracts for the functions this property is anchored in are not yet discharged in this version; "
         "the level claimed is therefore exploration."),
   note="Oracles: executable spec library under /verif/spec (written from the Avro specification and the property text); stdlib codecs, json, hashlib trusted; enumeration bounds are in the evidence file.",
   technique="bounded run-time checking against executable specification functions (stand-in for contracts not yet discharged)"),
 "C13": dict(cat="exploration", design="7/C13",
   text=("Bounded stand-in only (labelled bounded, nothing counted as proved): canonical form against the spec transformation; fixed point; same encoding; cosmetic rewrites. "
         "Deductive contracts for the functions this property is anchored in are not yet discharged in this version; "
         "the level claimed is therefore exploration."),
   note="Oracles: executable spec library under /verif/spec (written from the Avro specification and the property text); stdlib codecs, json, hashlib trusted; enumeration bounds are in the evidence file.",
   technique="bounded run-time checking against executable specification functions (stand-in for contracts not yet discharged)"),
 "C14": dict(cat="exploration", design="7/C14",
   text=("Bounded stand-in only (labelled bounded, nothing counted as proved): CRC-64-AVRO against bitwise polynomial division on generated texts; every fixed-length hashlib algorithm and the Java names; unknown names. "
         "Deductive contracts for the functions this property is anchored in are not yet discharged in this version; "
         "the level claimed is therefore exploration."),
   note="Oracles: executable spec library under /verif/spec (written from the Avro specification and the property text); stdlib codecs, json, hashlib trusted; enumeration bounds are in the evidence file.",
   technique="bounded run-time checking against executable specification functions (stand-in for contracts not yet discharged)"),
 "C15": dict(cat="exploration", design="7/C15",
   text=("Bounded stand-in only (labelled bounded, nothing counted as proved): JSON text against the spec's JSON encoding; JSON round trip; agreement with binary; absent keys take defaults. "
         "Deductive contracts for the functions this property is anchored in are not yet discharged in this version; "
         "the level claimed is therefore exploration."),
   note="Oracles: executable spec library under /verif/spec (written from the Avro specification and the property text); stdlib codecs, json, hashlib trusted; enumeration bounds are in the evidence file.",
   technique="bounded run-time checking against executable specification functions (stand-in for contracts not yet discharged)"),
 "C16": dict(cat="exploration", design="7/C16",
   text=("Bounded stand-in only (labelled bounded, nothing counted as proved): dates, times, timestamps (aware with offsets, local), uuid, bytes- and fixed-decimals against independent arithmetic over boundary and random values. "
         "Deductive contracts for the functions this property is anchored in are not yet discharged in this version; "
         "the level claimed is therefore exploration."),
   note="Oracles: executable spec library under /verif/spec (written from the Avro specification and the property text); stdlib codecs, json, hashlib trusted; enumeration bounds are in the evidence file.",
   technique="bounded run-time checking against executable specification functions (stand-in for contracts not yet discharged)"),
 "C19": dict(cat="exploration", design="7/C19",
   text=("Bounded stand-in only (labelled bounded, nothing counted as proved): dependency graphs written one type per file; equality with the inlined schema (canonical form and encodings); load_schema_ordered; every needed file missing. "
         "Deductive contracts for the functions this property is anchored in are not yet discharged in this version; "
         "the level claimed is therefore exploration."),
   note="Oracles: executable spec library under /verif/spec (written from the Avro specification and the property text); stdlib codecs, json, hashlib trusted; enumeration bounds are in the evidence file.",
   technique="bounded run-time checking against executable specification functions (stand-in for contracts not yet discharged)"),
 "C20": dict(cat="exploration", design="7/C20",
   text=("Bounded stand-in only (labelled bounded, nothing counted as proved): counts, validation, binary and container round trip of generated values over seeded random states. "
         "Deductive contracts for the functions this property is anchored in are not yet discharged in this version; "
         "the level claimed is therefore exploration."),
   note="Oracles: executable spec library under /verif/spec (written from the Avro specification and the property text); stdlib codecs, json, hashlib trusted; enumeration bounds are in the evidence file.",
   technique="bounded run-time checking against executable specification functions (stand-in for contracts not yet discharged)"),
}

PENDING = ["C04", "C05", "C06", "C07", "C08", "C09", "C10", "C11", "C12", "C13", "C14", "C15", "C16", "C17", "C18", "C19", "C20"]


OVERRIDES = {
 "C04": dict(cat="other", design="0.3, 0.9, 0.18, 7/C04",
   text=("Deductive, writer side: the codec block writers (null, deflate, bzip2, xz) append exactly the block payload the layout "
         "specification prescribes; Writer.dump / write / flush are specified by what they append to the user's stream and what they "
         "leave in the pending buffer. Deductive, reader side: skip_sync, the four codec block readers (inverse of the writers' payload, "
         "codecs as assumed externals with pair axioms) and the record iterator _iter_avro_records: for EVERY layout-valid sequence of "
         "data blocks FILE_BLOCKS(codec, schema, blocks, sync) -- any number of blocks, any counts incl. 0, any partition inside the "
         "records -- it yields exactly the records the blocks denote, in order, and stops at end of file. write_header appends exactly "
         "the specification's header (magic, metadata map with UTF-8 values, sync marker, as the binary encoding of the header record). "
         "Not deductive: reading the header (json + parse_schema), Writer.__init__, the composition 'what the Writer emitted is such a "
         "block sequence' and schema self-description -- bounded stand-in; hence 'other'."),
   note=("Trusted: zlib/bz2/lzma contracts and pair axioms, stream model, read_data / write_data contracts (verified under C01-C03); "
         "snappy/zstandard/lz4 not importable here and not considered; reader_schema None, no logical types."),
   technique="contract-based deductive verification of writer- and reader-side container functions incl. a generator with nested loops; bounded container round trips against an independent parser"),
 "C05": dict(cat="other", design="0.3, 0.9, 7/C05",
   text=("Deductive: the reader accepts every layout-valid block sequence from any writer: _iter_avro_records yields exactly the "
         "records denoted by FILE_BLOCKS for any number of blocks, empty blocks included; the block reader _iter_avro_blocks yields one "
         "Block per data block whose (count, offset, size, payload) are BLOCK_VIEWS -- offsets and sizes tile the file from the end of "
         "the header to the end of the file (offset_k = start + sum of earlier sizes, final position = file length) and the counts are "
         "the blocks' counts; Block.__iter__ yields the block's records; the codec block readers invert the block writers; the writer "
         "side (block writers, Writer.dump/flush) emits BLOCK_BYTES. Not deductive: magic / metadata map / is_avro, header parsing "
         "(chunked metadata map, codec key absent) and the Java fixtures -- bounded stand-in with an independent parser and writer."),
   note=("Trusted: codec externals and pair axioms, stream model (tell/seek), read_data contract (verified under C03). "
         "reader_schema None; schemas without logical types."),
   technique="contract-based deductive verification of the container iterators against a layout specification (ghost file derivations, loop ghosts); bounded differential check with an independent layout parser / writer"),
 "C06": dict(cat="other", design="0.3, 0.9, 0.15, 7/C06",
   text=("Deductive: for every BinaryDecoder method, (a) on valid input exactly the encoding is consumed, (b) with no assumption "
         "on the input a read that comes back short makes the method raise (eof_hit unchanged on every normal return), and read_long "
         "raises EOFError exactly when there is nothing at all to read -- the one signal the container iterators take as the regular "
         "end of the file. Behaviour 'short' (no assumption about the remaining bytes) of every reader read_* / read_data (generated "
         "contracts), of the four codec block readers, of Block.__iter__ and of _iter_avro_records / _iter_avro_blocks: a call that "
         "returns has not had a read come back short; the iterators end normally only with the input exhausted exactly where a block "
         "would start, every other end-of-input or mismatch propagates. skip_sync consumes the 16-byte marker or raises ValueError for "
         "ANY other 16 bytes, a truncated marker or end of file. Not deductive: that the records yielded from a cut file are a prefix "
         "of what was written (paper lemma L-prefix-file), the header, schemaless_reader -- bounded stand-in: every cut offset, values "
         "larger than 64 KiB, multi-byte block counts, every sync-marker byte; hence 'other'."),
   note="Trusted: stream model (eof_hit = some read returned fewer bytes than asked for); codecs' decompressors as may-raise externals.",
   technique="contract-based deductive verification of the short-read behaviour of decoder, readers, block readers and container iterators, and of the sync check; bounded truncation / corruption enumeration"),
 "C07": dict(cat="other", design="0.3, 0.17, 7/C07",
   text=("Deductive: Writer.dump / write / flush / write_block and the codec block writers under contract: every operation appends "
         "at the append position only (so the header is never touched), write_block first emits the pending block, and -- behaviour "
         "'anydatum' -- a write that raises leaves buffer, count and file exactly as they were, whatever Python value the record is. "
         "What that rests on is verified too: behaviour 'anydatum' of every BinaryEncoder method and of every writer write_* / "
         "write_data (generated contracts): with an arbitrary datum they only ever append to the stream, also when they raise "
         "part-way (no contract on a repository function is assumed any more). The induction over operation histories "
         "(and the append/re-open path of Writer.__init__) is not mechanised: the bounded stand-in replays random histories."),
   note="Domain: well-formed schemas without logical types whose defaults are data (DEFAULTS_DATA). Trusted: stream model; codecs.",
   technique="contract-based deductive verification of each Writer operation incl. exceptional postconditions; bounded history replay"),
 "C09": dict(cat="other", design="0.3, 7/C09",
   text=("Deductive: write_union is verified against SEL, the statement's selection rule written as specification functions "
         "(HINTED for (name, value) tuples, FIRST_NONREC / DEFER_DOUBLE / BEST_REC otherwise): for every union, datum and option "
         "set the index written is SEL's, a hint naming no branch raises ValueError with nothing written (behaviour 'nohint'), and "
         "the '-type' hint is honoured through the validators' contracts (VALID / HINT_OK). Frame obligations (provenance) for every "
         "store site of the functions involved: the choice depends on schema, datum and options only. Not deductive: the read side "
         "((name, value) pairs reported for named branches and the re-write closure) -- bounded stand-in; hence 'other'."),
   note=("Trusted: provenance rules and declarations (contracts/_frames.py); z3; domain as C01 (no logical types, DEFAULTS_DATA, NS_CLEAN); "
         "'record branch' means type \"record\" (an \"error\" branch is treated by the writer like a non-record branch)."),
   technique="contract-based deductive verification of the branch search (answer-preserving loop invariants) + frame obligations; bounded differential check against an independent selection oracle"),
 "C10": dict(cat="other", design="0.3, 0.18, 7/C10",
   text=("Deductive: every validator of fastavro/_validation_py.py (_validate_null ... _validate_union and the dispatcher _validate) "
         "is under contract against VALID, the statement's predicate written clause by clause (strict mode, '-type' and (name, value) "
         "hints included): in the non-raising mode the result IS VALID(datum, schema); in the raising mode (behaviour 'raising') "
         "ValidationError is raised exactly when VALID is false. Writer.write with validation enabled (behaviour 'validating') raises "
         "ValidationError exactly for data that is not VALID, with buffer, count and file unchanged. All obligations discharged by z3 "
         "for all schemas/data/iterations. The public validate() (both modes) and validate_many() (non-raising mode) are under "
         "contract on an already parsed schema: exactly VALID under the name table the schema carries and the options the keywords "
         "spell / the conjunction over the records. Not deductive: raw schemas (parse_schema first), validate_many's raising mode, "
         "'accepted => the writer encodes and round-trips' and logical-type values -- bounded stand-in; hence 'other'."),
   note=("Domain of the contracts: parsed schemas without logical types whose field defaults are valid Python data (DEFAULTS_DATA); "
         "outside it validate deviates from the statement -- known finding KF12, reported by the bounded part. Trusted: z3, the pyvc "
         "translator, the data-model assumption that module sentinels (NoValue) are never container elements."),
   technique="contract-based deductive verification (AST->VC, z3) of every validator incl. exceptional postconditions; bounded differential check against the same executable predicate"),
 "C08": dict(cat="other", design="0.3, 0.10, 0.13, 7/C08",
   text=("Deductive: (a) alignment under schema resolution -- for every reader (read_null ... read_record, read_union, read_data), "
         "EVERY reader schema and EVERY option set, a call that returns has consumed exactly the encoding of one value of the WRITER's "
         "schema (any block partition of arrays/maps, writer-only fields skipped, whichever reader branch is matched); it may raise "
         "instead; match_schemas / match_types have no effect on the decoder; (b) maybe_promote performs exactly the value conversions "
         "of the promotions; match_types on primitive names is 'equal or promotable'; read_enum with a reader enum returns the symbol, "
         "the reader's default for an unknown symbol, or raises SchemaResolutionError when there is none. All obligations discharged. "
         "Not deductive: the resolved VALUES (field matching by name / alias, reader-only defaults, union branch choice, recursion) -- "
         "bounded stand-in: single evolution steps at every position against an executable resolution oracle; hence 'other'."),
   note=("Known findings KF07 (reader union: first matching branch, promotions included) and KF12 (reader-only defaults handed out as raw "
         "JSON) are excluded by predicate; three defects fixed (inline vs by-name named types, named kinds matched by name alone, "
         "named-type reporting crash). Trusted: z3, pyvc translator, stream model; reader schemas are arbitrary values (no assumption)."),
   technique="contract-based deductive verification of stream alignment under resolution (every reader, exceptional exits allowed) and of the promotion / enum-default helpers; bounded differential checking against an executable resolution oracle"),
 "C16": dict(cat="other", design="0.3, 0.16, 7/C16",
   text=("Deductive, for date, time-millis, time-micros, the four timestamp types and the two decimal writers (16 of the 19 converter "
         "functions): prepare_date / prepare_time_* return exactly the integer the specification prescribes (days from 1970-01-01; "
         "units after midnight, truncated) and the readers build, for EVERY value of the stored domain, the object with exactly those "
         "components (four arithmetic round-trip lemmas); prepare_timestamp_* store the whole units from the UTC epoch to the instant of "
         "an aware datetime with any offset before or after the epoch (floor), the local variants the units to the wall-clock reading of a "
         "naive one, and read_*timestamp_* return the datetime of exactly that instant, in UTC / naive; prepare_bytes_decimal / "
         "prepare_fixed_decimal return the big-endian two's complement of the unscaled integer (-1)**sign * digits * 10**(exponent+scale) "
         "-- minimal length for bytes, exactly the declared size for fixed -- and raise ValueError exactly when the digits exceed the "
         "precision, the fractional digits the scale, or the integer the size (lemmas about padding with zeros and powers). Every value "
         "that is not of the logical type's class is passed on unchanged. Not deductive: read_decimal (decimal contexts), uuid, naive "
         "datetimes under the timestamp types (mktime), the dispatch through LOGICAL_WRITERS / LOGICAL_READERS and the composition with the "
         "binary codec -- bounded stand-in over boundary and random values of every type; hence 'other'."),
   note="Assumed (cross-checked by `vcheck axioms` on boundary and random values): calendar / decimal objects through observer functions with their library ranges; constructor and arithmetic contracts of datetime (time(), date.fromordinal, datetime - datetime, datetime + timedelta, timedelta(microseconds=), replace(tzinfo=utc)); int.to_bytes; int(a / b) == a // b below 2**52; module constants built from literals are evaluated by CPython at verification time.",
   technique="contract-based deductive verification of the logical-type converters against observer-based specifications (library semantics as assumed contracts); bounded differential checking against independent calendar / decimal arithmetic"),
 "C19": dict(cat="exploration", design="0.3, 0.16, 7/C19",
   text=("Bounded stand-in (labelled bounded, never counted as proved): dependency graphs written one type per file (hand-written and "
         "random DAGs); equality with the inlined schema (canonical form and encodings); load_schema_ordered; every needed file missing. "
         "Deductive piece only: _inject_schema returns exactly INJ(outer, inner, ns) -- the loaded type inlined at its FIRST use in "
         "depth-first, left-to-right order (union branches, array items, map values, record fields), namespace-relative references "
         "resolved against the enclosing record's namespace, every later reference left a name -- and reports whether a reference was "
         "found; nothing is touched once something has been injected. The loader around it (files, the parse / load / inject retry "
         "loop, load_schema_ordered) has no contract. Level therefore exploration."),
   note="Data model of the verifier: values, not objects (two sub-schemas that are the same object are not distinguished from equal ones); unmatched references are specified in their qualified spelling (taken from the code).",
   technique="bounded differential checking of load_schema against parsing the inlined schema; contract-based deductive verification of the injection step"),
 "C11": dict(cat="exploration", design="0.3, 0.10, 7/C11",
   text=("Bounded stand-in (labelled bounded, never counted as proved): parse_schema against an independent parser written from the "
         "specification on valid schemas; every listed kind of ill-forming mutation at every position. Deductive pieces only: schema_name "
         "returns exactly the (namespace, full name) pair the specification's 'Names' rules prescribe; _default_matches_schema accepts a "
         "default exactly when it has the JSON kind the (non-union) field type expects. Level therefore exploration."),
   note="Oracle: spec/schema.py (written from the Avro specification and the property text); three defects fixed (decimal precision 0; union-typed field defaults / bool as int default; bool as float/double default).",
   technique="bounded differential checking against an independent schema parser; contract-based deductive verification of the name rule"),
 "C12": dict(cat="exploration", design="0.3, 0.10, 7/C12",
   text=("Bounded stand-in (labelled bounded, never counted as proved): idempotence (same object returned); raw / parsed / "
         "piecewise-parsed forms across binary, container, JSON, validate, canonical form and generate. Deductive piece only: on an "
         "already parsed schema parse_schema returns the schema unchanged and merges its name table into the caller's, entry by entry. "
         "Level therefore exploration."),
   note="Known finding KF05 (piecewise-parsed schemas keep bare references) is excluded by predicate. Data values have no object identity in the logic.",
   technique="bounded differential checking of the three schema forms; contract-based deductive verification of the already-parsed path"),
 "C20": dict(cat="other", design="0.3, 0.12, 0.18, 7/C20",
   text=("Deductive: for every parsed schema without logical types (unions non-empty, field names of a record pairwise distinct) "
         "gen_data returns a value that validates against the schema (VALID, the predicate the validators are verified against), "
         "whatever the random source returns within its documented ranges: primitives, fixed (exact size), enum (a declared symbol), "
         "unions (any branch), references, arrays and maps of ten generated items / entries (random keys may repeat and overwrite), "
         "records with every field generated. All obligations discharged, including 16 small inductive lemmas about list and "
         "dictionary building. generate_many (parsed schema) yields exactly `count` values, each of them VALID. "
         "Not deductive: logical types, generate_one, raw schemas (parse_schema first), "
         "acceptance by the writers and the read-back, recursive types -- bounded stand-in; hence 'other'."),
   note=("Trusted: random.randint / random / getrandbits / choices as assumed externals (ranges and kinds only), int.to_bytes length axiom "
         "(cross-checked by ./vcheck axioms), z3, pyvc translator. Known finding KF20 (no termination for a type that contains itself "
         "through an array or map; the contract is partial correctness) is excluded by predicate in the bounded part."),
   technique="contract-based deductive verification (right-unfolded invariants for list / dictionary comprehensions, inductive lemmas instantiated at loop, call and return points); bounded run-time checking of generated values"),
 "C13": dict(cat="other", design="0.3, 0.10, 0.18, 7/C13",
   text=("Deductive: _to_parsing_canonical_form (the recursive writer behind to_parsing_canonical_form) appends exactly PCF(schema) "
         "for every parsed schema -- PCF being the Avro specification's transformation written as specification functions "
         "(primitives in simple form, name/type/fields/symbols/items/values/size only and in that order, no whitespace, plain "
         "decimal integers, commas between list elements); all obligations discharged (three loops, recursion by contract); the "
         "public to_parsing_canonical_form returns PCF(schema) for an already parsed schema. "
         "Not deductive: the parse_schema step that substitutes full names and drops namespaces, the fixed-point and same-encoding "
         "consequences and the invariance under cosmetic edits -- bounded stand-in against an independent implementation of the rules."),
   note=("Trusted: z3, pyvc translator, io.StringIO model, str() of str / int values (str_of_int external). Domain: schemas of the shape "
         "parse_schema produces (CANON_WF); names and symbols are written unescaped, as the code does (Avro names need no escaping)."),
   technique="contract-based deductive verification (AST->VC, z3 sequence/string theory) of the canonical-form writer; bounded differential check against an independent canonicaliser"),
 "C14": dict(cat="proof", design="0.3, 7/C14",
   text=("rabin_fingerprint: the table is produced by executing the real construction loops; the main loop's invariant "
         "result == RABIN(data[:i]) against the specification's bit-by-bit polynomial division is discharged over 64-bit vectors for "
         "all byte strings; the result is the 16-hex-digit little-endian form. fingerprint: unknown names raise ValueError, CRC-64-AVRO "
         "goes to rabin_fingerprint of the UTF-8 bytes, SHA-256/MD5 map to sha256/md5, every other advertised name is that hashlib digest. "
         "All 9 obligations discharged; bounded differential run in addition."),
   note="Trusted: hashlib, int.to_bytes / bytes.hex, str.encode (assumed externals); z3 bit-blasting after abstraction of non-bit-vector terms.",
   technique="contract-based deductive verification (loop invariant over 64-bit vectors against the bitwise CRC definition)"),
}


def main():
    CLAIMS.update(OVERRIDES)
    checks = []
    for pid, c in sorted(CLAIMS.items()):
        checks.append({
            "property_id": pid,
            "quick_cmd": f"./vcheck {pid} --tier quick",
            "thorough_cmd": f"./vcheck {pid} --tier thorough",
            "evidence_file": f"evidence/{pid}.json",
            "replay_cmd_template": "cd /repo && PYTHONPATH=/repo:/verif /venv/bin/python {path}",
            "engine": "pyvc",
            "level_claimed": {"category": c["cat"], "text": c["text"], "design_ref": c["design"]},
            "level_note": c["note"],
            "technique": c["technique"],
        })
    m = {
        "version": 1,
        "setup_cmd": "python3-vt -c 'import z3' && /venv/bin/python -c 'import sys' && chmod +x vcheck",
        "hooks": {"guard": "FASTAVRO_VERIF",
                  "enable": "no hooks: contracts are sidecar files under /verif/contracts; /repo is only read (re-parsed on every run)",
                  "baseline_off_cmd": "cd /repo && /venv/bin/python -m pytest -q -p no:cacheprovider --timeout=900 --continue-on-collection-errors",
                  "source_commits": [], "add_only": True},
        "engines": [{"name": "pyvc", "path": "pyvc/", "serves_properties": sorted(CLAIMS),
                     "kind_free_text": "home-built deductive verifier for a Python subset: AST -> verification conditions -> z3; sidecar contracts; executable spec library"}],
        "checks": checks,
        "notes": "See DESIGN.md. known_findings.py lists recorded defects and fixed ones.",
        "not_applicable": [{"property_id": p, "reason": "check not built yet (work in progress; see DESIGN.md section 7 for the plan)"}
                           for p in PENDING if p not in CLAIMS],
    }
    json.dump(m, open("MANIFEST.json", "w"), indent=1)


if __name__ == "__main__":
    main()
