"""`./vcheck axioms`: run-time cross-check of the ASSUMED part of the specification library against CPython.

Every @axiom of /verif/spec is an executable boolean function whose universal truth the verifier
assumes; here each is evaluated on boundary and random arguments drawn from its parameter
annotations.  The opaque spec functions that stand for CPython built-ins / library calls are what
the axioms are about (utf8 = str.encode, ZLIB = zlib.compress, le_value = struct ...), so this is a
differential test of the trusted base, not a proof: it is reported as 'cross-checked on N samples',
never counted as discharged.

Run under /venv's interpreter (no z3 needed):  PYTHONPATH=/verif /venv/bin/python axioms_check.py
"""
import inspect
import json
import os
import random
import struct
import sys
import time

HERE = os.path.dirname(os.path.abspath(__file__))
sys.path.insert(0, HERE)

import spec.core as SC          # noqa: E402
import spec.container as CC     # noqa: E402
import spec.avro as SA          # noqa: E402

MODULES = [SC, CC, SA]


def gen(ann, rng, name):
    if ann is bytes:
        pool = [b"", b"\x00", b"abc", bytes(range(256)), b"\xff" * 8, bytes(rng.randrange(256) for _ in range(rng.choice([1, 3, 4, 8, 9, 17, 64, 300])))]
        if name == "b" and rng.random() < 0.5:
            pool += [bytes(rng.randrange(256) for _ in range(8)), bytes(rng.randrange(256) for _ in range(4))]
        return rng.choice(pool)
    if ann is int:
        pool = [0, 1, -1, 127, 128, 255, 256, 2 ** 31 - 1, -2 ** 31, 2 ** 32 - 1, 2 ** 63 - 1, -2 ** 63, 2 ** 64 - 1,
                rng.randrange(2 ** 32), rng.randrange(2 ** 64), rng.randrange(-2 ** 63, 2 ** 63)]
        if name == "maxsplit":
            pool = [-1, 0, 1, 2]
        if name == "n":
            pool = [0, 1, 2, 3, 4, 8, 10, 16]        # byte counts
        return rng.choice(pool)
    if ann is str:
        pool = ["", "a", "\x01", "\x7f", "\x80", "Z", "a.b", "ns.Name.x", "é€\U0001f600", ".", "..", "".join(chr(rng.choice([65, 46, 0x3b1, 0x10400])) for _ in range(rng.randrange(12)))]
        if name == "sep":
            pool = [".", "::", "a"]
        return rng.choice(pool)
    if ann is object:
        return rng.choice([None, 1, 6, 9] if name == "level" else [None, 0, "x"])
    if ann is float:
        return rng.choice([0.0, -0.0, 1.5, float("inf"), float("nan"), struct.unpack("<d", struct.pack("<Q", rng.randrange(2 ** 64)))[0]])
    if ann is bool:
        return rng.random() < 0.5
    raise TypeError(ann)


def main():
    rng = random.Random(int(os.environ.get("VERIF_SEED", "1")))
    n_each = int(os.environ.get("AXIOM_SAMPLES", "400"))
    report = {"axioms": {}, "failures": []}
    t0 = time.time()
    for mod in MODULES:
        for name, fn in vars(mod).items():
            trig = getattr(fn, "__pyvc_axiom__", None)
            if trig is None or getattr(fn, "__pyvc_lemma__", False) or getattr(fn, "__module__", None) != mod.__name__:
                continue
            sig = inspect.signature(fn)
            ok = bad = skipped = 0
            for _ in range(n_each):
                try:
                    args = [gen(p.annotation, rng, p.name) for p in sig.parameters.values()]
                except TypeError:
                    skipped += 1
                    continue
                try:
                    r = fn(*args)
                except (UnicodeDecodeError, UnicodeEncodeError, OverflowError, struct.error, ValueError, IndexError):
                    skipped += 1        # outside the axiom's guarded domain (the guard is part of the axiom where it matters)
                    continue
                if r:
                    ok += 1
                else:
                    bad += 1
                    if len(report["failures"]) < 20:
                        report["failures"].append({"axiom": f"{mod.__name__}.{name}", "args": [repr(a)[:200] for a in args]})
            report["axioms"][f"{mod.__name__}.{name}"] = {"trigger": trig, "held": ok, "failed": bad, "skipped": skipped}
    # a few direct anchors of spec functions that mirror CPython / the Avro text
    anchors = {"zigzag": 0, "varint": 0, "float_bytes": 0, "double_bytes": 0}
    for _ in range(2000):
        n = rng.choice([0, -1, 1, 63, -64, 64, 2 ** 31, -2 ** 63, 2 ** 63 - 1, rng.randrange(-2 ** 63, 2 ** 63)])
        if SC.zigzag(n) != ((n << 1) ^ (n >> 63)):
            report["failures"].append({"anchor": "zigzag", "n": n})
        anchors["zigzag"] += 1
        z = SC.zigzag(n)
        out = bytearray()
        zz = z
        while (zz & ~0x7F) != 0:
            out.append((zz & 0x7F) | 0x80)
            zz >>= 7
        out.append(zz)
        if SC.varint(z) != bytes(out):
            report["failures"].append({"anchor": "varint", "z": z})
        anchors["varint"] += 1
        x = struct.unpack("<d", struct.pack("<Q", rng.randrange(2 ** 64)))[0]
        if x == x:
            if SA.double_bytes(x) != struct.pack("<d", x):
                report["failures"].append({"anchor": "double_bytes", "x": repr(x)})
            anchors["double_bytes"] += 1
            try:
                want = struct.pack("<f", x)
            except OverflowError:
                want = None
            if want is not None:
                if SA.float_bytes(x) != want:
                    report["failures"].append({"anchor": "float_bytes", "x": repr(x)})
                anchors["float_bytes"] += 1
    # calendar observers / constructors assumed by the C16 contracts (contracts/externals.py, spec/core.py)
    import datetime
    anchors["datetime.time"] = anchors["date.fromordinal"] = 0
    for _ in range(2000):
        h, m, s_, us = (rng.choice([-1, 0, 1, 23, 24, rng.randrange(24)]), rng.choice([-1, 0, 59, 60, rng.randrange(60)]),
                        rng.choice([-1, 0, 59, 60, rng.randrange(60)]), rng.choice([-1, 0, 999, 1000, 999999, 1000000, rng.randrange(10 ** 6)]))
        ok = 0 <= h < 24 and 0 <= m < 60 and 0 <= s_ < 60 and 0 <= us < 1000000
        try:
            t = datetime.time(h, m, s_, us)
            good = ok and SC.is_time(t) and (SC.tod_hour(t), SC.tod_minute(t), SC.tod_second(t), SC.tod_micro(t)) == (h, m, s_, us)
        except ValueError:
            good = not ok
        if not good:
            report["failures"].append({"anchor": "datetime.time", "args": [h, m, s_, us]})
        anchors["datetime.time"] += 1
        n = rng.choice([0, 1, 2, 719163, 3652059, 3652060, -5, rng.randrange(1, 3652060)])
        try:
            d = datetime.date.fromordinal(n)
            good = 1 <= n <= 3652059 and SC.is_date(d) and SC.date_ordinal(d) == n and not SC.is_datetime(d)
        except ValueError:
            good = not (1 <= n <= 3652059)
        if not good:
            report["failures"].append({"anchor": "date.fromordinal", "n": n})
        anchors["date.fromordinal"] += 1
    if datetime.date(1970, 1, 1).toordinal() != 719163 or datetime.date(1, 1, 1).toordinal() != 1 or datetime.date(9999, 12, 31).toordinal() != 3652059:
        report["failures"].append({"anchor": "epoch ordinal"})
    # datetime arithmetic assumed by the timestamp contracts (contracts/externals.py: __sub__, __add__, timedelta, replace)
    anchors["datetime.arith"] = 0
    D = datetime.datetime
    def rand_dt(aware):
        us = rng.choice([0, 1, SC.MAX_DT_US, SC.MAX_DT_US - 1, SC.EPOCH_US, SC.EPOCH_US - 1, SC.EPOCH_US + 999, rng.randrange(SC.MAX_DT_US + 1)])
        x = D(1, 1, 1) + datetime.timedelta(microseconds=us)
        if aware:
            off = rng.choice([0, 1, -1, 3600, -3600, 86399, -86399, rng.randrange(-86399, 86400)])
            x = x.replace(tzinfo=datetime.timezone(datetime.timedelta(seconds=off)))
        return x
    if SC.dt_us(D(1970, 1, 1, tzinfo=datetime.timezone.utc)) != SC.EPOCH_US or SC.dt_us(D(1970, 1, 1)) != SC.EPOCH_US or SC.dt_us(D.max) != SC.MAX_DT_US:
        report["failures"].append({"anchor": "EPOCH_US / MAX_DT_US"})
    for _ in range(4000):
        aw = rng.random() < 0.5
        a, b = rand_dt(aw), rand_dt(aw if rng.random() < 0.8 else not aw)
        good = SC.is_datetime(a) and SC.dt_aware(a) == aw and (a.tzinfo is None) == (not aw)
        try:
            td = a - b
            good = (good and SC.dt_aware(a) == SC.dt_aware(b) and SC.is_timedelta(td) and SC.td_total_us(td) == SC.dt_us(a) - SC.dt_us(b)
                    and 0 <= SC.td_seconds(td) < 86400 and 0 <= SC.td_micros(td) < 1000000)
        except TypeError:
            good = good and SC.dt_aware(a) != SC.dt_aware(b)
        n = rng.choice([0, 1, -1, 10 ** 6, -10 ** 6, SC.MAX_DT_US, -SC.MAX_DT_US, rng.randrange(-SC.MAX_DT_US, SC.MAX_DT_US),
                        86399999999999999999, 86399999999999999999 + 1, -86399999913600000000, -86399999913600000000 - 1])
        try:
            t2 = datetime.timedelta(microseconds=n)
            good = (good and -86399999913600000000 <= n <= 86399999999999999999 and SC.td_total_us(t2) == n
                    and 0 <= SC.td_seconds(t2) < 86400 and 0 <= SC.td_micros(t2) < 1000000)
            inrange = 0 <= SC.dt_us(a) + SC.dt_offset_us(a) + n <= SC.MAX_DT_US
            try:
                r = a + t2
                good = (good and inrange and SC.is_datetime(r) and SC.dt_us(r) == SC.dt_us(a) + n and SC.dt_aware(r) == SC.dt_aware(a)
                        and SC.dt_offset_us(r) == SC.dt_offset_us(a))
            except OverflowError:
                good = good and not inrange
        except OverflowError:
            good = good and not (-86399999913600000000 <= n <= 86399999999999999999)
        if not aw:
            r = a.replace(tzinfo=datetime.timezone.utc)
            good = good and SC.is_datetime(r) and SC.dt_aware(r) and SC.dt_offset_us(r) == 0 and SC.dt_us(r) == SC.dt_us(a)
        if not good:
            report["failures"].append({"anchor": "datetime.arith", "a": repr(a), "b": repr(b), "n": n})
        anchors["datetime.arith"] += 1
    # decimal observers (as_tuple) and the two's-complement meaning of int.to_bytes(n, "big", signed=True)
    import decimal
    anchors["decimal.as_tuple"] = anchors["to_bytes_signed_big"] = 0
    for _ in range(3000):
        sign = rng.randrange(2)
        digs = tuple(rng.randrange(10) for _ in range(rng.randrange(1, 40)))
        exp = rng.randrange(-30, 30)
        d = decimal.Decimal((sign, digs, exp))
        ok = (SC.is_decimal(d) and SC.dec_sign(d) in (0, 1) and SC.DIGITS_OK(SC.dec_digits(d), len(SC.dec_digits(d)))
              and isinstance(SC.dec_exp(d), int))
        # the unscaled integer at scale s (exponent + s >= 0) is the number times 10**s
        sc = rng.randrange(max(0, -exp), max(0, -exp) + 5)
        with decimal.localcontext() as ctx:
            ctx.prec = 200
            ok = ok and SC.UNSCALED(d, sc) == int(d.scaleb(sc))
        if not ok:
            report["failures"].append({"anchor": "decimal.as_tuple", "d": str(d)})
        anchors["decimal.as_tuple"] += 1
        n = rng.randrange(0, 12)
        x = rng.choice([0, 1, -1, 127, 128, -128, -129, 2 ** (8 * n - 1) if n else 0, -(2 ** (8 * n - 1)) if n else 0,
                        rng.randrange(-2 ** 90, 2 ** 90)])
        try:
            b = SC.int_to_bytes_signed_big(x, n)
            good = (SC.FITS_SIGNED(x, n) or (n == 0 and x == -1)) and len(b) == n and sum(v << (8 * (n - 1 - i)) for i, v in enumerate(b)) == x % (1 << (8 * n))
        except OverflowError:
            good = not SC.FITS_SIGNED(x, n) and not (n == 0 and x == -1)
        if not good:
            report["failures"].append({"anchor": "to_bytes_signed_big", "x": x, "n": n})
        anchors["to_bytes_signed_big"] += 1
    for sp in (decimal.Decimal("NaN"), decimal.Decimal("Infinity"), decimal.Decimal("-Infinity")):
        if isinstance(SC.dec_exp(sp), int):
            report["failures"].append({"anchor": "special decimals have a str exponent", "d": str(sp)})
    # int(a / b) == a // b below 2**52 (ax_idiv_trunc): the dangerous inputs are a = k*b - 1 (quotient just below an integer)
    anchors["idiv_trunc"] = 0
    for _ in range(20000):
        b = rng.choice([1, 2, 3, 7, 10, 1000, 60000, 3600000, 3600000000, rng.randrange(1, 2 ** rng.randrange(1, 52))])
        k = rng.randrange(0, max(1, (2 ** 52 - 1) // b))
        for a in (k * b - 1, k * b, k * b + 1, rng.randrange(2 ** 52)):
            if 0 <= a < 2 ** 52 and int(a / b) != a // b:
                report["failures"].append({"anchor": "idiv_trunc", "a": a, "b": b})
            anchors["idiv_trunc"] += 1
    report["anchors"] = anchors
    report["wall_s"] = round(time.time() - t0, 2)
    report["note"] = "differential test of assumed axioms against CPython; not a proof and not counted as discharged"
    os.makedirs(os.path.join(HERE, "evidence"), exist_ok=True)
    json.dump(report, open(os.path.join(HERE, "evidence", "axioms.json"), "w"), indent=1)
    for k, v in report["axioms"].items():
        print(f"{k:45s} held {v['held']:4d} failed {v['failed']} skipped {v['skipped']}")
    print("anchors", anchors)
    if report["failures"]:
        for f in report["failures"][:10]:
            print("FAIL", f)
        return 1
    return 0


if __name__ == "__main__":
    sys.exit(main())
