import sys, time
sys.path.insert(0, '/verif')
from pyvc.verifier import Engine
from pyvc import run
eng = Engine().load()
pat, obpat = sys.argv[1], sys.argv[2]
tmo = int(sys.argv[3]) if len(sys.argv) > 3 else 60000
fuel = int(sys.argv[4]) if len(sys.argv) > 4 else None
for key, c in eng.contracts.by_key.items():
    if pat not in f"{key[0]}:{key[1]}[{key[2]}]": continue
    res = run.generate(eng, c)
    print(res.unsupported, res.error)
    for o in res.obligations:
        if obpat in o.name:
            if fuel: o.fuel = fuel
            t=time.time(); v = eng.discharge(o, timeout_ms=tmo)
            print(o.name, v, "%.1fs"%(time.time()-t), getattr(o,'fuel_used',None), getattr(o,'reason',''))
            if "-s" in sys.argv:
                import z3
                s = z3.Solver(); [s.add(h) for h in o.hyps]; s.add(z3.Not(o.goal)); [s.add(d) for d in o.defs]
                open("/tmp/ob.smt2","w").write(s.to_smt2())
            if "-v" in sys.argv:
                print("goal:", o.goal)
                for h in o.hyps: print(" hyp:", str(h)[:3000])
