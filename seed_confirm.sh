#!/bin/bash
# usage: seed_confirm.sh <Cxx> [suffix]   -- confirm a seeded change in a fresh scratch worktree and file it under /verif/seeded
set -u
ID=$1; SFX=${2:-}
SRC=${SRC:-/tmp/wt}
W=/tmp/confirm/$ID$SFX
rm -rf $W; mkdir -p /tmp/confirm
git -C /repo worktree add -q --detach $W HEAD || exit 2
cp $SRC/$ID/demo_$ID.py $W/demo_$ID.py
cd $W
export PYTHONPATH=$W PYTHONDONTWRITEBYTECODE=1
OUT0=$(/venv/bin/python demo_$ID.py 2>&1); RC0=$?
git apply $SRC/$ID.patch.diff || { echo "PATCH DOES NOT APPLY"; git -C /repo worktree remove --force $W; exit 2; }
TESTS=$(/venv/bin/python -m pytest -q -p no:cacheprovider --deselect tests/test_compression.py --deselect tests/test_logical_types.py::test_pandas_datetime 2>&1 | tail -n 1)
OUT1=$(/venv/bin/python demo_$ID.py 2>&1); RC1=$?
echo "$ID: demo without change rc=$RC0; tests with change: $TESTS; demo with change rc=$RC1"
if [ $RC0 -eq 0 ] && [ $RC1 -ne 0 ] && echo "$TESTS" | grep -q " passed" && ! echo "$TESTS" | grep -q "failed"; then
  D=/verif/seeded/$ID$SFX; mkdir -p $D
  cp $SRC/$ID.patch.diff $D/patch.diff; cp $SRC/$ID/demo_$ID.py $D/demo.py
  python3 - <<PY
import json
m=json.load(open("$SRC/$ID.meta.json"))
m["confirmed"]={"worktree":"$W (scratch, removed)","demo_without_change_rc":$RC0,"demo_with_change_rc":$RC1,
 "tests_with_change":"""$TESTS""","command":"seed_confirm.sh $ID: git worktree add; demo; git apply patch.diff; pytest (codec/pandas tests deselected); demo",
 "demo_output_with_change":r"""${OUT1:0:600}"""}
json.dump(m,open("$D/meta.json","w"),indent=1)
PY
  echo "CONFIRMED -> $D"
else
  echo "NOT CONFIRMED"; echo "$OUT0" | tail -n 3; echo "$OUT1" | tail -n 3
fi
cd /; git -C /repo worktree remove --force $W
