"""Bounded stand-ins for C17 (results depend only on arguments; inputs intact) and C18
(concurrent operations on distinct streams).  Labelled bounded: histories and
schedules are sampled, never enumerated completely."""
import copy
import io
import json
import os
import random
import subprocess
import sys
import tempfile
import threading

import fastavro
from fastavro import (schemaless_writer, schemaless_reader, writer, reader, json_writer, json_reader,
                      parse_schema, validate)
from fastavro.schema import to_parsing_canonical_form, fingerprint, load_schema
from fastavro.utils import generate_many

from . import gen
from .harness import Result, short

REC_A1 = {"type": "record", "name": "ns.A", "fields": [{"name": "x", "type": "int"},
                                                       {"name": "e", "type": {"type": "enum", "name": "E", "symbols": ["P", "Q"]}}]}
REC_A2 = {"type": "record", "name": "ns.A", "fields": [{"name": "y", "type": "string"},
                                                       {"name": "e", "type": {"type": "fixed", "name": "E", "size": 2}}]}
REC_DEF = {"type": "record", "name": "D", "fields": [
    {"name": "a", "type": {"type": "array", "items": "int"}, "default": [1, 2, 3]},
    {"name": "m", "type": {"type": "map", "values": "int"}, "default": {"k": 1}},
    {"name": "u", "type": [{"type": "array", "items": "int"}, "null"], "default": [7]},
    {"name": "r", "type": {"type": "record", "name": "Sub", "fields": [{"name": "q", "type": "int"}]}, "default": {"q": 5}},
    {"name": "b", "type": "int"}]}
REC_DEC = {"type": "record", "name": "Dec", "fields": [
    {"name": "d9", "type": {"type": "bytes", "logicalType": "decimal", "precision": 9, "scale": 2}},
    {"name": "d2", "type": {"type": "bytes", "logicalType": "decimal", "precision": 2, "scale": 0}}]}
LIST = {"type": "record", "name": "LinkedList", "fields": [{"name": "value", "type": "int"}, {"name": "next", "type": ["null", "LinkedList"]}]}


def canon(x):
    """result -> comparable, printable form (floats by bits, bytes as hex)"""
    import struct
    import decimal
    import datetime
    if isinstance(x, float):
        return ("f", struct.pack("<d", x).hex())
    if isinstance(x, (bytes, bytearray)):
        return ("b", bytes(x).hex())
    if isinstance(x, dict):
        return ("d", [(canon(k), canon(v)) for k, v in x.items()])
    if isinstance(x, (list, tuple)):
        return ("l" if isinstance(x, list) else "t", [canon(v) for v in x])
    if isinstance(x, BaseException):
        return ("exc", type(x).__name__)
    if isinstance(x, (decimal.Decimal, datetime.date, datetime.time)):
        return (type(x).__name__, str(x))
    return x


def op_binary(schema, datum):
    def f(env):
        s = env.schema(schema)
        fo = io.BytesIO()
        schemaless_writer(fo, s, datum)
        b = fo.getvalue()
        return [b, schemaless_reader(io.BytesIO(b), s)]
    return f


def op_container(schema, records, codec="null"):
    def f(env):
        s = env.schema(schema)
        fo = io.BytesIO()
        writer(fo, s, records, codec=codec, sync_marker=b"S" * 16)
        b = fo.getvalue()
        r = reader(io.BytesIO(b))
        return [b, list(r), r.codec]
    return f


def op_json(schema, records, text=None):
    def f(env):
        s = env.schema(schema)
        if text is None:
            out = io.StringIO()
            json_writer(out, s, records)
            t = out.getvalue()
        else:
            t = text
        return [t, list(json_reader(io.StringIO(t), s))]
    return f


def op_validate(schema, datum):
    def f(env):
        return validate(datum, env.schema(schema), raise_errors=False)
    return f


def op_canon(schema):
    def f(env):
        c = to_parsing_canonical_form(env.schema(schema))
        return [c, fingerprint(c, "CRC-64-AVRO"), fingerprint(c, "md5")]
    return f


def op_parse(schema):
    def f(env):
        ns = {}
        p = parse_schema(copy.deepcopy(schema), ns)
        return [to_parsing_canonical_form(p), sorted(ns)]
    return f


def op_failing_write(schema, bad):
    def f(env):
        fo = io.BytesIO()
        try:
            schemaless_writer(fo, env.schema(schema), bad)
        except Exception as e:   # noqa
            return ["raised", type(e).__name__]
        return ["no error", fo.getvalue()]
    return f


def op_failing_parse(schema):
    def f(env):
        try:
            parse_schema(copy.deepcopy(schema))
        except Exception as e:   # noqa
            return ["raised", type(e).__name__]
        return ["no error"]
    return f


def op_generate(schema, n, seed):
    def f(env):
        random.seed(seed)
        return list(generate_many(env.schema(schema), n))
    return f


def op_resolve(ws, rs, datum):
    def f(env):
        fo = io.BytesIO()
        schemaless_writer(fo, env.schema(ws), datum)
        return schemaless_reader(io.BytesIO(fo.getvalue()), env.schema(ws), env.schema(rs))
    return f


def operations():
    import decimal
    ops = {
        "bin_A1": op_binary(REC_A1, {"x": 3, "e": "Q"}),
        "bin_A2": op_binary(REC_A2, {"y": "s", "e": b"ab"}),
        "bin_list": op_binary(LIST, {"value": 1, "next": {"value": 2, "next": None}}),
        "bin_dec": op_binary(REC_DEC, {"d9": decimal.Decimal("1234567.89"), "d2": decimal.Decimal("12")}),
        "cont_A1": op_container(REC_A1, [{"x": i, "e": "P"} for i in range(5)], "deflate"),
        "cont_A2": op_container(REC_A2, [{"y": "z", "e": b"\x00\x01"}]),
        "json_A1": op_json(REC_A1, [{"x": 3, "e": "Q"}]),
        "json_defaults": op_json(REC_DEF, None, text=json.dumps({"b": 1}) + "\n"),
        "json_list": op_json(LIST, [{"value": 1, "next": {"value": 2, "next": None}}]),
        "val_A1_ok": op_validate(REC_A1, {"x": 3, "e": "Q"}),
        "val_A2_bad": op_validate(REC_A2, {"x": 3, "e": "Q"}),
        "canon_A1": op_canon(REC_A1),
        "canon_A2": op_canon(REC_A2),
        "parse_A1": op_parse(REC_A1),
        "parse_A2": op_parse(REC_A2),
        "fail_write_A1": op_failing_write(REC_A1, {"x": "not an int", "e": "Q"}),
        "fail_write_mid": op_failing_write(REC_A1, {"x": 1, "e": "nope"}),
        "fail_parse": op_failing_parse({"type": "record", "name": "X", "fields": [{"name": "f", "type": "Undefined"}]}),
        "fail_parse_redef": op_failing_parse({"type": "record", "name": "X", "fields": [
            {"name": "f", "type": {"type": "enum", "name": "X", "symbols": ["A"]}}]}),
        "gen_A1": op_generate(REC_A1, 3, 11),
        "gen_def": op_generate(REC_DEF, 2, 5),
        "resolve_def": op_resolve({"type": "record", "name": "D", "fields": [{"name": "b", "type": "int"}]}, REC_DEF, {"b": 9}),
    }
    return ops


class Env:
    """how schemas are handed to the operations: raw (fresh deep copy), one shared raw
    object, or one shared parsed object (reused across calls)"""
    def __init__(self, mode):
        self.mode = mode
        self.cache = {}

    def schema(self, raw):
        key = json.dumps(raw, sort_keys=True)
        if self.mode == "fresh":
            return copy.deepcopy(raw)
        if self.mode == "fresh_parsed":
            return parse_schema(copy.deepcopy(raw))
        if key not in self.cache:
            self.cache[key] = copy.deepcopy(raw) if self.mode == "shared_raw" else parse_schema(copy.deepcopy(raw))
        return self.cache[key]


def fresh_results(mode="fresh"):
    """every operation alone in a fresh interpreter"""
    code = ("import json, sys; sys.path.insert(0, %r); from bounded.c17 import operations, Env, canon; "
            "ops = operations(); name = sys.argv[1]; "
            "print(json.dumps(canon(ops[name](Env(%r)))))" % (os.path.dirname(os.path.dirname(os.path.abspath(__file__))), mode))
    out = {}
    procs = {}
    for name in operations():
        procs[name] = subprocess.Popen([sys.executable, "-c", code, name], stdout=subprocess.PIPE, stderr=subprocess.PIPE, text=True,
                                       env=dict(os.environ))
    for name, p in procs.items():
        so, se = p.communicate(timeout=120)
        if p.returncode != 0:
            raise RuntimeError(f"fresh run of {name} failed: {se[-500:]}")
        out[name] = json.loads(so)
    return out


def run_c17(tier, seed):
    res = Result("C17", tier, seed)
    rng = random.Random(seed)
    bases = {"fresh": fresh_results("fresh"), "fresh_parsed": fresh_results("fresh_parsed")}
    ops = operations()
    names = sorted(ops)
    n_hist = 150 if tier == "quick" else 1500
    for mode in ("shared_parsed", "shared_raw", "fresh"):
        base = bases["fresh_parsed" if mode == "shared_parsed" else "fresh"]
        for h in range(n_hist // 3):
            env = Env(mode)
            length = rng.randrange(2, 7)
            hist = [rng.choice(names) for _ in range(length)]
            for i, nm in enumerate(hist):
                # inputs intact: snapshot every schema object the environment holds
                before = {k: copy.deepcopy(_strip(v)) for k, v in env.cache.items()}
                try:
                    got = json.loads(json.dumps(canon(ops[nm](env))))
                except Exception as e:   # noqa
                    got = ["unexpected", type(e).__name__, str(e)[:100]]
                res.case("history_independent", (mode, tuple(hist[:i + 1])), nontrivial=i > 0,
                         sample={"mode": mode, "history": hist[:i + 1]})
                if got != base[nm]:
                    res.fail("history_independent", f"{nm} after {hist[:i]} ({mode}) gave {short(got)} but {short(base[nm])} in a fresh interpreter",
                             {"mode": mode, "history": hist[:i + 1]},
                             f"# PYTHONPATH=/repo:/verif /venv/bin/python -c \"from bounded.c17 import replay; replay({mode!r}, {hist[:i + 1]!r})\"\n")
                for k, v in before.items():
                    res.case("inputs_intact", (mode, nm, k[:80]))
                    if not gen.same(_strip(env.cache[k]), v):
                        res.fail("inputs_intact", f"{nm} modified a schema object handed to an earlier call ({mode})",
                                 {"mode": mode, "history": hist[:i + 1], "schema": k[:200]},
                                 f"# from bounded.c17 import replay; replay({mode!r}, {hist[:i + 1]!r})\n")
    res.bounds = {"operations": len(names), "histories": n_hist, "max_length": 6,
                  "modes": "parsed schema objects shared across calls / raw schema objects shared / fresh copies"}
    return res


def _strip(s):
    """a schema object without the parser's own markers (which it adds to ITS result, not
    to the caller's input); compared structurally"""
    if isinstance(s, dict):
        return {k: _strip(v) for k, v in s.items() if k != "__named_schemas"}
    if isinstance(s, list):
        return [_strip(v) for v in s]
    return s


def replay(mode, hist):
    ops = operations()
    env = Env(mode)
    base = fresh_results()
    for nm in hist:
        got = json.loads(json.dumps(canon(ops[nm](env))))
        print(nm, "OK" if got == base[nm] else f"DIFFERS: {got} vs fresh {base[nm]}")


# ------------------------------------------------------------------------ C18
def run_c18(tier, seed):
    res = Result("C18", tier, seed)
    rng = random.Random(seed)
    ops = operations()
    names = [n for n in sorted(ops) if not n.startswith("gen_")]     # generate_* use the global random source
    env = Env("shared_parsed")
    seq = {}
    for nm in names:
        seq[nm] = json.loads(json.dumps(canon(ops[nm](env))))
    rounds = 30 if tier == "quick" else 300
    old = sys.getswitchinterval()
    sys.setswitchinterval(1e-6)
    try:
        for r in range(rounds):
            picks = [rng.choice(names) for _ in range(4)]
            out = {}

            def work(i, nm):
                try:
                    for _ in range(5):
                        got = json.loads(json.dumps(canon(ops[nm](env))))
                        if got != seq[nm]:
                            out[i] = got
                except Exception as e:   # noqa
                    out[i] = ["unexpected", type(e).__name__, str(e)[:100]]
            ts = [threading.Thread(target=work, args=(i, nm)) for i, nm in enumerate(picks)]
            for t in ts:
                t.start()
            for t in ts:
                t.join()
            res.case("threads_as_sequential", (r, tuple(picks)), sample={"threads": picks})
            for i, got in out.items():
                res.fail("threads_as_sequential", f"{picks[i]} run concurrently with {picks} gave {short(got)}; sequentially {short(seq[picks[i]])}",
                         {"threads": picks}, "# stress schedule (not deterministic): bounded.c17.run_c18\n")
    finally:
        sys.setswitchinterval(old)
    # deterministic schedules: pause thread A right after each store site the provenance pass
    # flagged (passed in by the driver), run B completely, resume A
    sites = json.loads(os.environ.get("PYVC_FAILED_SITES", "[]"))
    for site in sites:
        for a_nm in names:
            for b_nm in names:
                r = scheduled_pair(ops, env, a_nm, b_nm, site["file"], site["line"])
                if r is None:
                    continue
                res.case("schedule_at_store_site", (site["file"], site["line"], a_nm, b_nm))
                ga, gb = r
                if ga != seq[a_nm] or gb != seq[b_nm]:
                    who, got, want = ("A", ga, seq[a_nm]) if ga != seq[a_nm] else ("B", gb, seq[b_nm])
                    res.fail("schedule_at_store_site",
                             f"A={a_nm} paused after {site['file']}:{site['line']}, B={b_nm} ran, A resumed: {who} gave {short(got)} (sequential {short(want)})",
                             {"A": a_nm, "B": b_nm, "site": site},
                             f"# from bounded.c17 import replay_schedule; replay_schedule({a_nm!r}, {b_nm!r}, {site['file']!r}, {site['line']})\n")
    res.bounds = {"rounds": rounds, "threads": 4, "switch_interval": 1e-6, "deterministic_sites": len(sites)}
    return res


def scheduled_pair(ops, env, a_nm, b_nm, filename, lineno):
    """run A until it has executed line `lineno` of `filename`, then B completely, then
    the rest of A.  None if A never reaches the line."""
    hit = threading.Event()
    b_done = threading.Event()
    out = {}
    target = os.path.realpath(filename)

    def tracer(frame, event, arg):
        if os.path.realpath(frame.f_code.co_filename) != target:
            return None

        def local(frame, event, arg):
            if event == "line" and frame.f_lineno > lineno and getattr(local, "armed", False) and not hit.is_set():
                hit.set()
                b_done.wait(20)
            if event == "line" and frame.f_lineno == lineno:
                local.armed = True
            return local
        return local

    def A():
        sys.settrace(tracer)
        try:
            out["A"] = json.loads(json.dumps(canon(ops[a_nm](env))))
        except Exception as e:   # noqa
            out["A"] = ["unexpected", type(e).__name__]
        finally:
            sys.settrace(None)
            hit.set()

    def B():
        hit.wait(20)
        try:
            out["B"] = json.loads(json.dumps(canon(ops[b_nm](env))))
        except Exception as e:   # noqa
            out["B"] = ["unexpected", type(e).__name__]
        b_done.set()
    ta, tb = threading.Thread(target=A), threading.Thread(target=B)
    ta.start()
    tb.start()
    ta.join()
    tb.join()
    return out.get("A"), out.get("B")


def replay_schedule(a_nm, b_nm, filename, lineno):
    ops = operations()
    env = Env("shared_parsed")
    seq_a = json.loads(json.dumps(canon(ops[a_nm](env))))
    ga, gb = scheduled_pair(ops, env, a_nm, b_nm, filename, lineno)
    print("A interleaved:", ga)
    print("A sequential :", seq_a)
