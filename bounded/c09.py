"""Bounded stand-ins for C09 (union branch choice) and C10 (validate == CONFORMS)."""
import io
import random

import fastavro
from fastavro import schemaless_writer, schemaless_reader
from fastavro.validation import validate
from fastavro._validate_common import ValidationError
from fastavro.write import Writer

from spec import schema as SS
from spec import avro as A
from spec.union import select, branch_name, strip_hint
from spec.decode import read_long
from . import gen
from .harness import Result, short, guarded

RA = {"type": "record", "name": "ns.A", "fields": [{"name": "x", "type": "int"}]}
RB = {"type": "record", "name": "ns.B", "fields": [{"name": "x", "type": "int"}, {"name": "y", "type": "int", "default": 0}]}
RC = {"type": "record", "name": "C", "fields": [{"name": "z", "type": "string"}, {"name": "x", "type": "int", "default": 1}]}
EN = {"type": "enum", "name": "ns.E", "symbols": ["P", "Q"]}
FX = {"type": "fixed", "name": "Fx", "size": 2}


def unions():
    u = [
        ["null", "string"], ["int", "string", "null"], ["float", "double"], ["double", "float"], ["float", "int", "double"],
        ["long", "float", "bytes"], ["boolean", "int", "long"], ["string", "bytes", EN], [EN, "string"],
        [RA, RB, RC, "null"], [RB, RA], [RA, {"type": "map", "values": "int"}], [{"type": "map", "values": "int"}, RA],
        [{"type": "array", "items": "int"}, {"type": "map", "values": "string"}, "null"], [FX, "bytes"], ["bytes", FX],
        [RA, EN, FX, "int"], ["null", RC],
        # primitives spelled as objects
        [{"type": "null"}, "string"], [{"type": "string"}, {"type": "null"}, "int"], [{"type": "int"}, "null", {"type": "double"}],
    ]
    # the same with by-name references (types defined earlier in an enclosing record)
    holder = {"type": "record", "name": "Holder", "fields": [
        {"name": "defs", "type": [RA, RB, EN, FX, "null"], "default": None},
        {"name": "u", "type": ["ns.A", "ns.B", "ns.E", "Fx", "string"]}]}
    return u, holder


def data_for_union(p, ns, rng):
    out = []
    for b in p:
        ds = gen.data_for(b, ns, rng, depth=1, full=False)
        out += [x for x in ds if not isinstance(x, tuple)][:5]
    out += [{"x": 1}, {"x": 1, "y": 2}, {"z": "s"}, {"x": 1, "z": "s"}, {"q": 0}, {}, 3, 3.5, "P", b"ab", [1], {"k": 1}, {"k": "v"}, None, True]
    return out


def run_c09(tier, seed):
    res = Result("C09", tier, seed)
    rng = random.Random(seed)
    us, holder = unions()
    cases = [(u, None) for u in us] + [(holder, "u")]
    for raw, field in cases:
        p_all, ns = SS.parse_top(raw)
        p = p_all if field is None else [f for f in p_all["fields"] if f["name"] == field][0]["type"]
        data = data_for_union(p, ns, rng)
        hinted = []
        for b in p:
            nm = branch_name(ns[b] if isinstance(b, str) and b in ns else b) if not (isinstance(b, str) and b in ns) else b
            for d in data[:12]:
                hinted.append((nm, d))
        hinted += [("nosuch", 1), ("ns.A", {"x": 1}), ("A", {"x": 1})]
        typed = [dict(d, **{"-type": n}) for d in data if isinstance(d, dict) for n in ("ns.A", "ns.B", "C", "A", "nosuch")]
        for opts in ({}, {"disable_tuple_notation": True}):
            for d in data + hinted + typed:
                wrap = (lambda v: v) if field is None else (lambda v: {"defs": None, field: v})
                case = {"union": short(raw if field is None else p), "datum": short(d), "opts": opts}
                rp = f"import io, fastavro\ns = {raw!r}\nd = {wrap(d)!r}\nfo = io.BytesIO(); fastavro.schemaless_writer(fo, s, d, **{opts!r}); print(fo.getvalue().hex())\n"
                res.case("branch_choice", (short(p, 600), short(d, 300), bool(opts)), sample=case)
                try:
                    want = select(p, ns, d, opts)
                    conforms = A.CONFORMS(strip_hint(d, opts), p[want], ns, opts)
                except ValueError:
                    want, conforms = None, False
                except (TypeError, KeyError, AttributeError):
                    continue
                # the selection rule used by the deductive contracts (spec.avro.SEL) against this independent oracle
                try:
                    sel = A.SEL(p, ns, d, opts)
                except Exception as e:      # noqa
                    sel = f"{type(e).__name__}"
                if isinstance(d, tuple) and not opts.get("disable_tuple_notation") and len(d) != 2:
                    pass
                elif (sel if isinstance(sel, int) and sel >= 0 else None) != want:
                    res.fail("branch_choice", f"the two statements of the rule disagree: SEL gives {sel}, the oracle {want}", case, "")
                fo = io.BytesIO()
                try:
                    schemaless_writer(fo, raw, wrap(d), **opts)
                    b = fo.getvalue()
                    if field is not None:
                        b = b[1:]          # defs = null (branch 4 -> one byte 0x08)
                    got, _ = read_long(b, 0)
                except OverflowError:
                    continue
                except Exception as e:   # noqa
                    got = type(e).__name__
                hint = isinstance(d, tuple) and not opts.get("disable_tuple_notation")
                if want is None:
                    if isinstance(got, int) and hint and len(d) == 2:
                        res.fail("branch_choice", f"wrote branch {got} although the hint names no branch", case, rp)
                elif not conforms:
                    continue        # a hinted value that does not conform to the named branch: not conforming data
                elif got != want:
                    res.fail("branch_choice", f"branch {got} chosen, the rule gives {want}", case, rp)
    # closure under read/write with named-type reporting
    for raw, field in cases:
        p_all, ns = SS.parse_top(raw)
        p = p_all if field is None else [f for f in p_all["fields"] if f["name"] == field][0]["type"]
        for d in data_for_union(p, ns, rng):
            try:
                i = select(p, ns, d, {})
                if not A.CONFORMS(d, p[i], ns, {}):
                    continue
            except Exception:
                continue
            wrap = (lambda v: v) if field is None else (lambda v: {"defs": None, field: v})
            fo = io.BytesIO()
            try:
                schemaless_writer(fo, raw, wrap(d))
            except Exception:
                continue
            b = fo.getvalue()
            for ropt in ({"return_named_type": True}, {"return_record_name": True},
                         {"return_named_type": True, "return_named_type_override": True},
                         {"return_record_name": True, "return_record_name_override": True}):
                res.case("reread_rewrite_closure", (short(p, 600), short(d, 300), tuple(ropt)))
                case = {"union": short(p), "datum": short(d), "reader_options": ropt}

                def body():
                    v = schemaless_reader(io.BytesIO(b), raw, **ropt)
                    val = v if field is None else v[field]
                    if isinstance(val, tuple):
                        # a (name, value) pair was reported: writing it back must reproduce the bytes
                        fo2 = io.BytesIO()
                        schemaless_writer(fo2, raw, v)
                        if fo2.getvalue() != b:
                            res.fail("reread_rewrite_closure", f"read {short(v)}; writing it back gives {fo2.getvalue().hex()} not {b.hex()}", case, "")
                    bsch = p[i]
                    named = isinstance(bsch, str) and bsch in ns or (isinstance(bsch, dict) and bsch.get("type") in ("record", "enum", "fixed", "error"))
                    if ropt.get("return_named_type") and not ropt.get("return_named_type_override") and named:
                        nm = bsch if isinstance(bsch, str) else bsch["name"]
                        if not (isinstance(val, tuple) and val[0] == nm):
                            res.fail("reread_rewrite_closure", f"named branch {nm} not reported: {short(val)}", case, "")
                guarded(res, "reread_rewrite_closure", case, "", body)
    return res


# ------------------------------------------------------------------------ C10
def mutations(d, p, ns, rng):
    """data made non-conforming by one mutation"""
    out = [None, True, 1, 2 ** 31, -2 ** 63 - 1, 1.5, "s", b"b", [], {}, [1, "a"], {"k": 1}, {1: 2}, (1, 2), ("x", 1), (1, 2, 3), (), ("x",), object]
    if isinstance(d, dict):
        for k in list(d)[:3]:
            m = dict(d); del m[k]; out.append(m)
            m = dict(d); m[k] = object; out.append(m)
            m = dict(d); m[k] = "wrong" if not isinstance(d[k], str) else 7; out.append(m)
        m = dict(d); m["-type"] = "nosuch"; out.append(m)
        m = dict(d); m[3] = 1; out.append(m)
    if isinstance(d, list) and d:
        out.append(d + ["x" if not isinstance(d[0], str) else 1])
        out.append(d[:-1] + [object])
    if isinstance(d, bytes):
        out.append(d + b"x")
        out.append(bytearray(d))
    if isinstance(d, int) and not isinstance(d, bool):
        out.append(bool(d))
        out.append(float(d))
    return out


def hint_nested(d, s, ns, o, wrong=False, top=True):
    """a copy of conforming datum d in which every record value standing in a union position carries
    a '-type' entry naming its branch (the branch SEL picks); `wrong`: name another thing instead"""
    if isinstance(s, str) and s in ns:
        return hint_nested(d, ns[s], ns, o, wrong, top)
    if isinstance(s, list):
        if isinstance(d, tuple):
            return d
        try:
            i = select(s, ns, d, o)
        except Exception:
            return d
        b = ns[s[i]] if isinstance(s[i], str) and s[i] in ns else s[i]
        v = hint_nested(d, b, ns, o, wrong, False)
        if isinstance(b, dict) and b.get("type") in ("record", "error") and isinstance(v, dict) and A.CONFORMS(d, b, ns, o):
            v = dict(v)
            v["-type"] = "no.such.Name" if wrong else b["name"]
        return v
    if isinstance(s, dict):
        t = s.get("type")
        if t in ("record", "error") and isinstance(d, dict):
            out = dict(d)
            for f in s["fields"]:
                if f["name"] in d:
                    out[f["name"]] = hint_nested(d[f["name"]], f["type"], ns, o, wrong, False)
            return out
        if t == "array" and isinstance(d, list):
            return [hint_nested(x, s["items"], ns, o, wrong, False) for x in d]
        if t == "map" and isinstance(d, dict):
            return {k: hint_nested(x, s["values"], ns, o, wrong, False) for k, x in d.items()}
    return d


# records (with and without a namespace) standing in union positions below the top level: '-type' hints there
NEST = [
    {"type": "record", "name": "Outer", "fields": [{"name": "f", "type": ["null", RC]}, {"name": "g", "type": ["null", RA, RB], "default": None}]},
    {"type": "record", "name": "o.Outer2", "fields": [{"name": "xs", "type": {"type": "array", "items": [RC, "string"]}},
                                                        {"name": "m", "type": {"type": "map", "values": ["null", RA]}}]},
    {"type": "record", "name": "Outer3", "fields": [{"name": "inner", "type": {"type": "record", "name": "Mid", "fields": [
        {"name": "u", "type": [{"type": "record", "name": "Leaf", "fields": [{"name": "v", "type": "long"}]}, "null"]}]}}]},
]


def run_c10(tier, seed):
    res = Result("C10", tier, seed)
    rng = random.Random(seed)
    pool = list(gen.curated_schemas()) + list(gen.small_schemas(2 if tier == "quick" else 3, gen.PRIMS))
    us, holder = unions()
    pool += us + [holder] + NEST
    for raw in pool:
        try:
            p, ns = SS.parse_top(raw)
        except SS.Invalid:
            continue
        good = gen.data_for(p, ns, rng)
        if tier == "quick" and len(good) > 25:
            good = good[:15] + rng.sample(good[15:], 10)
        cand = list(good)
        for d in good[:6]:
            cand += mutations(d, p, ns, rng)
        for d in good[:10]:
            for wrong in (False, True):
                try:
                    h = hint_nested(d, p, ns, {}, wrong)
                except Exception:
                    continue
                if h != d:
                    cand.append(h)
        if isinstance(p, list):
            cand += [(branch_name(b), d) for b in p for d in good[:4]] + [("nosuch", 1)]
        for strict in (False, True):
            for dtn in (False, True):
                opts = {"strict": strict, "disable_tuple_notation": dtn}
                for d in cand:
                    if d is object:
                        d = object()
                    try:
                        want = A.VALID(d, p, ns, opts)
                    except Exception:
                        continue
                    if _has_unrepresentable_float(d, p, ns):
                        continue
                    case = {"schema": short(raw), "datum": short(d), "strict": strict, "disable_tuple_notation": dtn,
                            "_p": p, "_ns": ns, "_d": d}
                    rp = f"from fastavro.validation import validate\nprint(validate({d!r}, {raw!r}, raise_errors=False, strict={strict}, disable_tuple_notation={dtn}))\n"
                    res.case("validate_equals_conforms", (short(raw, 600), short(d, 300), strict, dtn), sample=case)
                    try:
                        got = validate(d, raw, raise_errors=False, strict=strict, disable_tuple_notation=dtn)
                    except Exception as e:   # noqa
                        res.fail("validate_equals_conforms", f"validate raised {type(e).__name__}: {e} (oracle: {want})", case, rp)
                        continue
                    if bool(got) != bool(want):
                        res.fail("validate_equals_conforms", f"validate -> {got}, the mapping says {want}", case, rp)
                        continue
                    try:
                        r2 = validate(d, raw, raise_errors=True, strict=strict, disable_tuple_notation=dtn)
                        raised = False
                    except ValidationError:
                        raised = True
                    except Exception as e:   # noqa
                        res.fail("raise_mode_agrees", f"unexpected {type(e).__name__} with raise_errors", case, rp)
                        continue
                    if raised != (not got):
                        res.fail("raise_mode_agrees", f"raise_errors: raised={raised} but result was {got}", case, rp)
                    if strict:
                        continue
                    # writer agreement
                    wopts = {"disable_tuple_notation": dtn}
                    if got:
                        res.case("accepted_is_writable", (short(raw, 600), short(d, 300), dtn))
                        fo = io.BytesIO()
                        try:
                            schemaless_writer(fo, raw, d, **wopts)
                            back = schemaless_reader(io.BytesIO(fo.getvalue()), raw)
                        except OverflowError:
                            pass
                        except Exception as e:   # noqa
                            res.fail("accepted_is_writable", f"validate accepts it but the writer raised {type(e).__name__}: {e}", case, rp)
                    else:
                        res.case("gate_rejects_before_bytes", (short(raw, 600), short(d, 300), dtn))
                        fo = io.BytesIO()
                        try:
                            w = Writer(fo, raw, validator=True, sync_marker=b"S" * 16, options=wopts)
                            before = len(fo.getvalue())
                            try:
                                w.write(d)
                                res.fail("gate_rejects_before_bytes", "a writer with validation enabled accepted what validate rejects", case, rp)
                            except Exception:
                                pass
                            if w.io._fo.tell() != 0 or len(fo.getvalue()) != before:
                                res.fail("gate_rejects_before_bytes", "bytes of the rejected record were emitted", case, rp)
                        except Exception as e:   # noqa
                            res.fail("gate_rejects_before_bytes", f"unexpected {type(e).__name__}: {e}", case, rp)
    return res


def _strict_ok(d, s, ns, o):
    """strict mode: an absent field without default is rejected even when it accepts null"""
    t = A.TYPE(s)
    if isinstance(s, str) and s in ns:
        return _strict_ok(d, ns[s], ns, o)
    if isinstance(s, list):
        if isinstance(d, tuple) and not o.get("disable_tuple_notation"):
            i = A.HINTED(s, d[0], 0)
            return i >= 0 and _strict_ok(d[1], s[i], ns, o)
        return any(A.CONFORMS(d, b, ns, o) and _strict_ok(d, b, ns, o) for b in s)
    if isinstance(s, dict):
        if t in ("record", "error"):
            if not isinstance(d, dict):
                return True
            for f in s["fields"]:
                if f["name"] not in d and "default" not in f:
                    return False
                if not _strict_ok(A.RAWFIELDVAL(f, d), f["type"], ns, o):
                    return False
            return True
        if t == "array" and isinstance(d, (list, tuple)):
            return all(_strict_ok(x, s["items"], ns, o) for x in d)
        if t == "map" and isinstance(d, dict):
            return all(_strict_ok(x, s["values"], ns, o) for x in d.values())
    return True


def _float_text_field(d, s, ns, depth=0):
    """CONFORMS (the writers' view) float()-converts record field values of float/double type, so text such as
    "NaN" is acceptable there; VALID (validate's view) does not -- the only intended difference"""
    if depth > 8:
        return False
    if isinstance(s, str) and s in ns:
        return _float_text_field(d, ns[s], ns, depth + 1)
    if isinstance(s, list):
        v = d[1] if isinstance(d, tuple) and len(d) == 2 else d
        return any(_float_text_field(v, b, ns, depth + 1) for b in s)
    if isinstance(s, dict):
        t = s.get("type")
        if t in ("record", "error") and isinstance(d, dict):
            for f in s["fields"]:
                v = A.RAWFIELDVAL(f, d)
                if f["type"] in ("float", "double") and isinstance(v, (str, bool)):
                    return True
                if _float_text_field(v, f["type"], ns, depth + 1):
                    return True
        if t == "array" and isinstance(d, (list, tuple)):
            return any(_float_text_field(x, s["items"], ns, depth + 1) for x in d)
        if t == "map" and isinstance(d, dict):
            return any(_float_text_field(x, s["values"], ns, depth + 1) for x in d.values())
    return False


def _has_unrepresentable_float(d, p, ns):
    try:
        A.ENC(p, ns, d, {})
    except OverflowError:
        return True
    except Exception:
        return False
    return False
