"""Enumerators for the bounded stand-in (DESIGN 6): schemas, conforming data,
encoding derivations.  Deterministic; anything random is seeded by VERIF_SEED.
Runs under /venv's interpreter (no z3)."""
import itertools
import math
import random
import struct

PRIMS = ["null", "boolean", "int", "long", "float", "double", "bytes", "string"]
LEAVES_SMALL = ["null", "int", "string", "double"]


def _rec(name, fields, **kw):
    d = {"type": "record", "name": name, "fields": [{"name": n, "type": t, **extra} for (n, t, *rest) in fields
                                                       for extra in [rest[0] if rest else {}]]}
    d.update(kw)
    return d


def curated_schemas():
    """hand-picked schemas covering the shapes named in the property quantifiers"""
    out = []
    out += PRIMS
    out.append({"type": "enum", "name": "E", "symbols": ["A", "B", "C"]})
    out.append({"type": "fixed", "name": "F", "size": 4})
    out.append({"type": "fixed", "name": "F0", "size": 0})
    for p in PRIMS:
        out.append({"type": "array", "items": p})
        out.append({"type": "map", "values": p})
    out.append(["null", "string"])
    out.append(["int", "string", "null"])
    out.append(["float", "double"])
    out.append(["double", "float"])
    out.append(["long", "float", "bytes"])
    out.append([{"type": "array", "items": "int"}, {"type": "map", "values": "int"}, "null"])
    out.append(_rec("R0", []))
    out.append(_rec("R1", [("a", "int"), ("b", "string")]))
    out.append(_rec("Rd", [("a", "int", {"default": 7}), ("b", "string", {"default": "dflt"}),
                           ("c", ["null", "long"], {"default": None}), ("d", "double", {"default": 1.5}),
                           ("e", "float", {"default": "NaN"})]))
    out.append(_rec("Rn", [("x", ["null", "int"]), ("y", "null")]))
    out.append(_rec("ns.Outer", [("inner", _rec("Inner", [("v", "long")])), ("again", "ns.Inner"),
                                 ("e", {"type": "enum", "name": "other.E2", "symbols": ["X", "Y"]}),
                                 ("e2", "other.E2")]))
    out.append(_rec("LinkedList", [("value", "int"), ("next", ["null", "LinkedList"])]))
    out.append(_rec("Tree", [("v", "string"), ("kids", {"type": "array", "items": "Tree"})]))
    out.append(_rec("U", [("u", [_rec("A", [("x", "int")]), _rec("B", [("x", "int"), ("y", "int")]),
                                 _rec("C", [("z", "string")]), "null"])]))
    out.append(_rec("M", [("m", {"type": "map", "values": ["null", {"type": "array", "items": ["int", "string"]}]})]))
    out.append({"type": "array", "items": {"type": "array", "items": {"type": "map", "values": "bytes"}}})
    out.append(_rec("Named", [("f", {"type": "fixed", "name": "Fx", "size": 2}), ("f2", "Fx"),
                              ("arr", {"type": "array", "items": "Fx"})]))
    out.append(_rec("a.b.Deep", [("r", _rec("c.d.Other", [("s", _rec("Leaf", [("q", "int")]))])), ("l", "c.d.Leaf")]))
    out.append({"type": "error", "name": "Err", "fields": [{"name": "msg", "type": "string"}]})
    out.append([_rec("P", [("a", "int")]), {"type": "enum", "name": "Q", "symbols": ["S"]},
                {"type": "fixed", "name": "Fz", "size": 1}, "P"][:3])
    out.append({"type": "int", "doc": "prim in dict form"})
    # the same simple name in the null namespace and in a namespace: a simple-name reference
    # inside the namespace denotes the namespaced type
    out.append({"type": "record", "name": "Root", "fields": [
        {"name": "u", "type": {"type": "enum", "name": "Unit", "symbols": ["A", "B"]}},
        {"name": "r", "type": {"type": "record", "name": "geo.Reading", "fields": [
            {"name": "gu", "type": {"type": "fixed", "name": "Unit", "size": 4}},
            {"name": "ref", "type": "Unit"}, {"name": "refs", "type": {"type": "array", "items": "Unit"}}]}},
        {"name": "u2", "type": "Unit"}]})
    out.append({"type": "record", "name": "Root2", "fields": [
        {"name": "r", "type": {"type": "record", "name": "geo2.Reading", "fields": [
            {"name": "gu", "type": {"type": "fixed", "name": "Unit2", "size": 4}},
            {"name": "ref", "type": ["null", "Unit2"]}]}},
        {"name": "u", "type": {"type": "enum", "name": "Unit2", "symbols": ["A", "B"]}},
        {"name": "u2", "type": "Unit2"}]})
    # nested container defaults
    out.append({"type": "record", "name": "NestedDefaults", "fields": [
        {"name": "aa", "type": {"type": "array", "items": {"type": "array", "items": "int"}}, "default": [[1, 2], [3]]},
        {"name": "ma", "type": {"type": "map", "values": {"type": "array", "items": "int"}}, "default": {"a": [1], "b": []}},
        {"name": "ra", "type": {"type": "record", "name": "HasArr", "fields": [{"name": "xs", "type": {"type": "array", "items": "int"}}]},
         "default": {"xs": [7, 8]}},
        {"name": "ua", "type": [{"type": "array", "items": {"type": "map", "values": "int"}}, "null"], "default": [{"k": 1}]},
        {"name": "b", "type": "int"}]})
    out.append(_rec("DictNull", [("a", {"type": "null"})]))
    return out


def small_schemas(max_nodes, leaves=None):
    """all schema trees with <= max_nodes nodes over the given leaves (records with 1-2
    fields, arrays, maps, 2-branch unions); names are made unique"""
    leaves = leaves or PRIMS
    counter = itertools.count()

    def trees(n):
        if n <= 0:
            return
        if n == 1:
            for p in leaves:
                yield p
            yield ("enum",)
            yield ("fixed",)
            return
        for sub in trees(n - 1):
            yield ("array", sub)
            yield ("map", sub)
            yield ("record", [sub])
        for a in range(1, n - 1):
            for s1 in trees(a):
                for s2 in trees(n - 1 - a):
                    yield ("record", [s1, s2])
                    if not _is_union(s1) and not _is_union(s2) and _kind(s1) != _kind(s2):
                        yield ("union", [s1, s2])

    def build(t):
        if isinstance(t, str):
            return t
        k = t[0]
        i = next(counter)
        if k == "enum":
            return {"type": "enum", "name": f"E{i}", "symbols": ["A", "B"]}
        if k == "fixed":
            return {"type": "fixed", "name": f"F{i}", "size": 2}
        if k == "array":
            return {"type": "array", "items": build(t[1])}
        if k == "map":
            return {"type": "map", "values": build(t[1])}
        if k == "record":
            return {"type": "record", "name": f"R{i}", "fields": [{"name": f"f{j}", "type": build(s)} for j, s in enumerate(t[1])]}
        if k == "union":
            return [build(s) for s in t[1]]
    for n in range(1, max_nodes + 1):
        for t in trees(n):
            yield build(t)


def _is_union(t):
    return isinstance(t, tuple) and t[0] == "union"


def _kind(t):
    if isinstance(t, str):
        return t
    if t[0] in ("record", "enum", "fixed"):
        return (t[0], id(t))
    return t[0]


# ------------------------------------------------------------------- data
INT_BOUNDS = sorted(set([0, 1, -1, 2, -2] + [s * (2 ** (7 * k - 1)) + d for k in range(1, 6) for s in (1, -1) for d in (-1, 0, 1)]
                        + [2 ** 31 - 1, -2 ** 31]))
INT_VALUES = [v for v in INT_BOUNDS if -2 ** 31 <= v <= 2 ** 31 - 1]
LONG_VALUES = sorted(set(INT_VALUES + [s * (2 ** (7 * k - 1)) + d for k in range(5, 10) for s in (1, -1) for d in (-1, 0, 1)
                                       if -2 ** 63 <= s * (2 ** (7 * k - 1)) + d <= 2 ** 63 - 1]
                         + [2 ** 63 - 1, -2 ** 63, 2 ** 62, -2 ** 62 - 1]))
FLOAT_VALUES = [0.0, -0.0, 1.5, -2.25, math.inf, -math.inf, math.nan, 1e-45, 5e-324, 3.4028234663852886e38,
                1.1754943508222875e-38, 0.1, 16777217.0, 3, -7, 2 ** 24 + 1]
DOUBLE_VALUES = [0.0, -0.0, 1.5, math.inf, -math.inf, math.nan, 5e-324, 1.7976931348623157e308,
                 2.2250738585072014e-308, 0.1, 3, -(2 ** 53) - 1, 10 ** 22]
STRING_VALUES = ["", "a", "é", "€", "\U0001d11e", "x" * 200, "nul\x00in", "A"]
BYTES_VALUES = [b"", b"\x00", bytes(range(256)), b"\xff" * 70, b"ab"]


def leaf_values(t):
    return {"null": [None], "boolean": [True, False], "int": INT_VALUES, "long": LONG_VALUES,
            "float": FLOAT_VALUES, "double": DOUBLE_VALUES, "bytes": BYTES_VALUES, "string": STRING_VALUES}[t]


def _t(s):
    return s["type"] if isinstance(s, dict) else ("union" if isinstance(s, list) else s)


def data_for(s, ns, rng, depth=0, full=True):
    """a list of conforming data for parsed schema s: boundary values at the leaves, one
    position varied at a time in composites (plus seeded random combinations)"""
    t = _t(s)
    if t in PRIMS:
        vals = leaf_values(t)
        return list(vals) if full else [vals[0], vals[-1]]
    if isinstance(s, list):
        out = []
        for b in s:
            sub = data_for(b, ns, rng, depth + 1, full=False)
            # a tuple under a union is a (name, value) hint, not data: C09 covers hints
            sub = [x for x in sub if not isinstance(x, tuple)]
            out += sub[:3] if len(s) > 2 else sub[:6]
        return out
    if isinstance(s, str):
        if depth > 3:
            base = minimal_datum(ns[s], ns, 0)
            return [] if base is _NONE else [base]
        return data_for(ns[s], ns, rng, depth + 1, full)
    if t == "fixed":
        n = s["size"]
        return [bytes([0] * n), bytes([(i * 37) % 256 for i in range(n)]), b"\xff" * n][: (3 if n else 1)]
    if t == "enum":
        return list(s["symbols"])
    if t == "array":
        items = data_for(s["items"], ns, rng, depth + 1, full=(full and depth < 1))
        out = [[]]
        if items:
            out.append([items[0]])
            out.append(list(items))
            out.append(tuple(items[:3]))
            out.append([items[i % len(items)] for i in range(65)])
        return out
    if t == "map":
        vals = data_for(s["values"], ns, rng, depth + 1, full=(full and depth < 1))
        out = [{}]
        if vals:
            out.append({"k": vals[0]})
            out.append({f"key{i}": v for i, v in enumerate(vals)})
            out.append({"": vals[-1], "é": vals[0], "f0": vals[0]})
            out.append({f"k{i:03d}": vals[i % len(vals)] for i in range(66)})
        return out
    if t in ("record", "error"):
        fields = s["fields"]
        per = []
        for f in fields:
            if depth > 3:
                m = minimal_datum(f["type"], ns, 0)
                per.append([] if m is _NONE else [m])
            else:
                per.append(data_for(f["type"], ns, rng, depth + 1, full=(full and depth < 1)))
        if any(len(p) == 0 for p in per):
            return []
        base = {f["name"]: p[0] for f, p in zip(fields, per)}
        out = [dict(base)]
        for f, p in zip(fields, per):
            for v in p[1:]:
                d = dict(base)
                d[f["name"]] = v
                out.append(d)
        # omitted fields with defaults / nullable
        for f in fields:
            if "default" in f or _admits_null(f["type"], ns):
                d = dict(base)
                del d[f["name"]]
                out.append(d)
        for _ in range(3):
            out.append({f["name"]: rng.choice(p) for f, p in zip(fields, per)})
        return out
    raise ValueError(t)


_NONE = object()


def minimal_datum(s, ns, depth):
    """a smallest conforming datum (terminates on recursive schemas through null/empty)"""
    t = _t(s)
    if t in PRIMS:
        return leaf_values(t)[0]
    if isinstance(s, list):
        for b in s:
            if _t(b) == "null":
                return None
        for b in s:
            m = minimal_datum(b, ns, depth + 1) if depth < 6 else _NONE
            if m is not _NONE:
                return m
        return _NONE
    if isinstance(s, str):
        return minimal_datum(ns[s], ns, depth + 1) if depth < 6 else _NONE
    if t == "fixed":
        return bytes(s["size"])
    if t == "enum":
        return s["symbols"][0]
    if t == "array":
        return []
    if t == "map":
        return {}
    if t in ("record", "error"):
        out = {}
        for f in s["fields"]:
            m = minimal_datum(f["type"], ns, depth + 1) if depth < 6 else _NONE
            if m is _NONE:
                return _NONE
            out[f["name"]] = m
        return out
    raise ValueError(t)


def _admits_null(s, ns):
    t = _t(s)
    if t == "null":
        return True
    if isinstance(s, list):
        return any(_t(b) == "null" for b in s)
    return False


# --------------------------------------------------------------- derivations
def float_bits(x):
    return int.from_bytes(struct.pack("<d", float(x)), "little")


def single_bits(x):
    return int.from_bytes(struct.pack("<f", float(x)), "little")


def derivations_for(s, ns, datum_pool, rng, depth=0):
    """encoding derivations (DESIGN A.4) for parsed schema s: the writer's own layout and
    alternative block partitions / negative-count blocks"""
    from spec.avro import CONFORMS
    out = []
    for d in datum_pool:
        try:
            w0 = witness(s, ns, d, rng, partition="single")
        except _Skip:
            continue
        out.append(w0)
        for part in ("each", "neg", "mixed"):
            try:
                w = witness(s, ns, d, rng, partition=part)
            except _Skip:
                continue
            if w != w0:
                out.append(w)
    return out


class _Skip(Exception):
    pass


def witness(s, ns, d, rng, partition="single"):
    """a derivation denoting datum d (d must conform; unions: first conforming branch)"""
    from spec.avro import CONFORMS
    t = _t(s)
    if t == "null":
        return None
    if t == "boolean":
        return (1 if d else 0) if partition == "single" else (1 if d else 0) * (rng.randrange(1, 256) if d else 1)
    if t in ("int", "long"):
        return d
    if t == "float":
        try:
            return single_bits(d)
        except OverflowError:
            raise _Skip()
    if t == "double":
        try:
            return float_bits(d)
        except OverflowError:
            raise _Skip()
    if t == "bytes":
        return bytes(d)
    if t == "string":
        return d.encode()
    if isinstance(s, list):
        for i, b in enumerate(s):
            if CONFORMS(d, b, ns, {}):
                return (i, witness(b, ns, d, rng, partition))
        raise _Skip()
    if isinstance(s, str):
        return witness(ns[s], ns, d, rng, partition)
    if t == "fixed":
        return bytes(d)
    if t == "enum":
        return s["symbols"].index(d)
    if t in ("array", "map"):
        if t == "array":
            items = [witness(s["items"], ns, x, rng, partition) for x in d]
        else:
            items = [(k.encode(), witness(s["values"], ns, v, rng, partition)) for k, v in d.items()]
        return blocks(items, partition, rng)
    if t in ("record", "error"):
        from spec.avro import FIELDVAL
        return [witness(f["type"], ns, FIELDVAL(f, d), rng, partition) for f in s["fields"]]
    raise ValueError(t)


def blocks(items, partition, rng):
    if not items:
        return []
    if partition == "single":
        return [(False, 0, items)]
    if partition == "each":
        return [(False, 0, [x]) for x in items]
    if partition == "neg":
        return [(True, rng.randrange(0, 1000), items)]
    out = []
    i = 0
    while i < len(items):
        n = rng.randrange(1, 4)
        out.append((rng.random() < 0.5, rng.randrange(0, 300), items[i:i + n]))
        i += n
    return out


def same(a, b):
    """structural equality with NaN == NaN and -0.0 != 0.0 (floats by bit pattern)"""
    if isinstance(a, float) and isinstance(b, float):
        return struct.pack("<d", a) == struct.pack("<d", b)
    if type(a) != type(b):
        if isinstance(a, (list, tuple)) and isinstance(b, (list, tuple)):
            return False
        return False
    if isinstance(a, (list, tuple)):
        return len(a) == len(b) and all(same(x, y) for x, y in zip(a, b))
    if isinstance(a, dict):
        return list(a.keys()) == list(b.keys()) and all(same(a[k], b[k]) for k in a)
    return a == b
