"""Bounded stand-ins for C04-C07 (container files), against the independent parser."""
import io
import json
import random

import fastavro
from fastavro import writer, reader, block_reader, is_avro, parse_schema
from fastavro.write import Writer
from fastavro.schema import to_parsing_canonical_form

from spec import schema as SS
from spec import avro as A
from spec import decode as D
from spec.norm import NORM
from . import gen
from .harness import Result, short, guarded

CODECS = ["null", "deflate", "bzip2", "xz"]
SYNC = bytes(range(100, 116))


class WriteOnly:
    """write-only, non-seekable output (pipe / socket): only write() and flush() exist"""
    def __init__(self):
        self.buf = bytearray()
        self.calls = set()

    def write(self, b):
        self.calls.add("write")
        self.buf += b
        return len(b)

    def flush(self):
        self.calls.add("flush")

    def seekable(self):
        self.calls.add("seekable")
        return False


class ReadOnly:
    """sequential input: only read(n)"""
    def __init__(self, data):
        self._b = io.BytesIO(data)

    def read(self, n=-1):
        return self._b.read(n)


def schema_pool(tier):
    pool = [s for s in gen.curated_schemas()]
    pool += list(gen.small_schemas(2, gen.PRIMS))
    return pool


def record_sets(p, ns, rng, tier):
    data = [d for d in gen.data_for(p, ns, rng) if A.CONFORMS(d, p, ns, {})]
    data = [d for d in data if _encodable(p, ns, d)]
    if not data:
        return []
    sets = [[], [data[0]], data[:7]]
    if len(data) > 7:
        sets.append(rng.sample(data, min(len(data), 12)))
    return sets


def _encodable(p, ns, d):
    try:
        A.ENC(p, ns, d, {})
        return True
    except (OverflowError, ValueError):
        return False


def run_c04(tier, seed):
    res = Result("C04", tier, seed)
    rng = random.Random(seed)
    pool = schema_pool(tier)
    for raw in pool:
        try:
            p, ns = SS.parse_top(raw)
        except SS.Invalid:
            continue
        for recs in record_sets(p, ns, rng, tier):
            want = [NORM(p, ns, r, {}) for r in recs]
            total = sum(len(A.ENC(p, ns, r, {})) for r in recs)
            intervals = sorted({1, 16, max(1, total // 2), total, total + 1, 16000})
            configs = [(c, si) for c in CODECS for si in (intervals if c == "null" else [rng.choice(intervals)])]
            if tier == "quick":
                configs = configs[:len(intervals)] + rng.sample(configs[len(intervals):], 2)
            for codec, si in configs:
                meta = rng.choice([None, {"k": "v"}, {"user.note": "é", "x": ""}])
                form = rng.choice(["raw", "parsed"])
                sch = raw if form == "raw" else parse_schema(raw)
                case = {"schema": short(raw), "n": len(recs), "codec": codec, "sync_interval": si, "meta": meta, "form": form}
                rp = f"# records: {short(recs, 1500)}\n"
                res.case("file_roundtrip", (short(raw, 1000), short(recs, 1000), codec, si), sample=case)

                def body():
                    fo = io.BytesIO()
                    writer(fo, sch, recs, codec=codec, sync_interval=si, metadata=dict(meta) if meta else None, sync_marker=SYNC)
                    data = fo.getvalue()
                    r = reader(io.BytesIO(data))
                    got = list(r)
                    if not gen.same(got, want):
                        res.fail("file_roundtrip", f"read back {short(got)} expected {short(want)}", case, rp)
                    if r.codec != codec:
                        res.fail("file_roundtrip", f"codec reported {r.codec}", case, rp)
                    for k, v in (meta or {}).items():
                        if r.metadata.get(k) != v:
                            res.fail("file_roundtrip", f"metadata {k} lost", case, rp)
                    if to_parsing_canonical_form(r.writer_schema) != SS.pcf(p):
                        res.fail("self_describing", "reported schema has a different canonical form", case, rp)
                    # sequential read-only input
                    got2 = list(reader(ReadOnly(data)))
                    if not gen.same(got2, want):
                        res.fail("sequential_input", "records differ when only read() is available", case, rp)
                    # write-only non-seekable output
                    wo = WriteOnly()
                    writer(wo, sch, recs, codec=codec, sync_interval=si, metadata=dict(meta) if meta else None, sync_marker=SYNC)
                    if bytes(wo.buf) != data:
                        res.fail("nonseekable_output", "bytes differ on a write-only stream", case, rp)
                    # grouping does not matter: same records under another block size
                    fo3 = io.BytesIO()
                    writer(fo3, sch, recs, codec=codec, sync_interval=1, sync_marker=SYNC)
                    if not gen.same(list(reader(io.BytesIO(fo3.getvalue()))), want):
                        res.fail("grouping_irrelevant", "records differ with one record per block", case, rp)
                guarded(res, "file_roundtrip", case, rp, body)
    res.bounds = {"schemas": len(pool), "codecs": CODECS, "sync_intervals": "1, 16, half, exact, exact+1, 16000"}
    return res


def run_c05(tier, seed):
    res = Result("C05", tier, seed)
    rng = random.Random(seed)
    pool = schema_pool(tier)
    for raw in pool:
        try:
            p, ns = SS.parse_top(raw)
        except SS.Invalid:
            continue
        for recs in record_sets(p, ns, rng, tier)[:3]:
            want = [NORM(p, ns, r, {}) for r in recs]
            for codec in (CODECS if tier != "quick" else [rng.choice(CODECS), "null"]):
                case = {"schema": short(raw), "n": len(recs), "codec": codec}
                # (a) what fastavro writes is layout-valid for the independent parser
                res.case("layout_of_written_file", (short(raw, 1000), short(recs, 1000), codec), sample=case)

                def body_a():
                    fo = io.BytesIO()
                    si = rng.choice([1, 30, 16000])
                    # user metadata: none, ordinary entries, or the metadata of another file handed on (it names that
                    # file's codec and schema -- the codec ARGUMENT and the schema ARGUMENT are what the header must say)
                    md = rng.choice([None, {"note": "x", "k": ""},
                                     {"avro.codec": rng.choice([c for c in CODECS if c != codec]), "avro.schema": '"int"', "who": "me"}])
                    writer(fo, raw, recs, codec=codec, sync_interval=si, sync_marker=SYNC, metadata=None if md is None else dict(md))
                    data = fo.getvalue()
                    got, f, c2, sch = D.file_records(data, SS.parse_top)
                    if not gen.same(got, want) or c2 != codec or f["sync"] != SYNC:
                        res.fail("layout_of_written_file", f"independent parser got {short(got)} codec {c2} (metadata argument {md})", case, "")
                    for k, v in (md or {}).items():
                        if not k.startswith("avro.") and f["meta"].get(k) != v.encode():
                            res.fail("layout_of_written_file", f"user metadata {k!r} lost or changed: {f['meta'].get(k)!r}", case, "")
                    if not is_avro(io.BytesIO(data)):
                        res.fail("is_avro", "is_avro false for a written file", case, "")
                    # blocks tile the file
                    blocks = list(block_reader(io.BytesIO(data)))
                    pos = f["header_end"]
                    n = 0
                    for b in blocks:
                        if b.offset != pos:
                            res.fail("blocks_tile", f"block offset {b.offset} expected {pos}", case, "")
                        pos += b.size
                        n += b.num_records
                    if pos != len(data) or n != len(recs):
                        res.fail("blocks_tile", f"blocks end at {pos} of {len(data)}, {n} records of {len(recs)}", case, "")
                    if not gen.same([r for b in block_reader(io.BytesIO(data)) for r in b], want):
                        res.fail("blocks_tile", "records from block iteration differ", case, "")
                guarded(res, "layout_of_written_file", case, "", body_a)
                # (b) independent writer -> fastavro reader: any partition, empty blocks, chunked meta, codec key absent
                encs = [A.ENC(p, ns, r, {}) for r in recs]
                parts = _partitions(encs, rng)
                for blocks in parts:
                    meta = [("avro.schema", json.dumps(raw).encode())]
                    if not (codec == "null" and rng.random() < 0.5):
                        meta.append(("avro.codec", codec.encode()))
                    meta.append(("note", b"x"))
                    rng.shuffle(meta)
                    cut = rng.randrange(0, len(meta) + 1)
                    chunks = [meta[:cut], meta[cut:]]
                    data = D.build_file(chunks, SYNC, blocks, codec)
                    res.case("reads_independent_file", (short(raw, 1000), len(blocks), codec, cut))

                    def body_b():
                        got = list(reader(io.BytesIO(data)))
                        if not gen.same(got, want):
                            res.fail("reads_independent_file", f"got {short(got)} want {short(want)} (blocks {[len(b) for b in blocks]}, meta chunks {cut})", case, f"# file: {data.hex()[:2000]}\n")
                        got = [r for b in block_reader(io.BytesIO(data)) for r in b]
                        if not gen.same(got, want):
                            res.fail("reads_independent_file", "block_reader differs", case, "")
                    guarded(res, "reads_independent_file", case, "", body_b)
    # is_avro on arbitrary byte strings
    for b in [b"", b"O", b"Ob", b"Obj", b"Obj\x01", b"Obj\x01rest", b"Obj\x02", b"xObj\x01", b"obj\x01", b"Obj\x00\x01"] + \
             [bytes(rng.randrange(256) for _ in range(rng.randrange(0, 8))) for _ in range(200)]:
        res.case("is_avro", b)
        if is_avro(io.BytesIO(b)) != (b[:4] == b"Obj\x01"):
            res.fail("is_avro", f"is_avro({b!r}) wrong", {"bytes": b.hex()}, "")
    # Java-written fixtures shipped with the test suite
    import glob
    import os
    for path in sorted(glob.glob("/repo/tests/avro-files/*.avro"))[: (12 if tier == "quick" else 200)]:
        data = open(path, "rb").read()
        try:
            want, f, codec, sch = D.file_records(data, SS.parse_top)
        except Exception:
            continue      # codecs / features outside the independent parser
        res.case("fixture_files", os.path.basename(path))
        try:
            got = list(reader(io.BytesIO(data), return_record_name=False))
        except Exception as e:   # noqa
            res.fail("fixture_files", f"{os.path.basename(path)}: reader raised {type(e).__name__}", {"file": path}, "")
            continue
        p, ns = SS.parse_top(sch)
        if not _values_agree(got, want):
            res.fail("fixture_files", f"{os.path.basename(path)}: records differ from the independent parser", {"file": path}, "")
    return res


def _values_agree(a, b):
    """fixtures may carry logical types (converted by fastavro, not by the spec parser):
    compare structure and plain values only"""
    if isinstance(a, dict) and isinstance(b, dict):
        return list(a) == list(b) and all(_values_agree(a[k], b[k]) for k in a)
    if isinstance(a, list) and isinstance(b, list):
        return len(a) == len(b) and all(_values_agree(x, y) for x, y in zip(a, b))
    if type(a) == type(b):
        return gen.same(a, b)
    return True


def _partitions(encs, rng):
    n = len(encs)
    out = [[encs]] if n else [[]]
    if n:
        out.append([[e] for e in encs])
        out.append([[], encs, []])                 # empty blocks around
        if n > 2:
            k = rng.randrange(1, n)
            out.append([encs[:k], [], encs[k:]])
    else:
        out.append([[], []])
    return out


def run_c06(tier, seed):
    res = Result("C06", tier, seed)
    rng = random.Random(seed)
    raws = [gen.curated_schemas()[i] for i in (2, 7, 30, 33)] + [{"type": "record", "name": "R", "fields": [{"name": "a", "type": "long"}, {"name": "s", "type": "string"}]}]
    BIG = {"type": "record", "name": "Big", "fields": [{"name": "id", "type": "long"}, {"name": "payload", "type": "bytes"}, {"name": "t", "type": "string"}]}
    raws.append(BIG)
    MANY = {"type": "record", "name": "Many", "fields": [{"name": "a", "type": "int"}]}
    raws.append(MANY)
    for raw in raws:
        try:
            p, ns = SS.parse_top(raw)
        except SS.Invalid:
            continue
        sets = record_sets(p, ns, rng, tier)
        recs = sets[2] if len(sets) > 2 else (sets[-1] if sets else [])
        if raw is BIG:
            # values larger than any internal chunk / buffer size (64 KiB, 1 MiB)
            recs = [{"id": 1, "payload": bytes(rng.randrange(256) for _ in range(70000)), "t": "x" * 66000}, {"id": 2, "payload": b"", "t": "end"}]
        many = raw is MANY
        if many:
            # blocks of 64..8191 and >= 8192 records: the block's record count is a 2- / 3-byte varint, so a cut can
            # fall INSIDE the count (every other file of this pool has 1-byte counts)
            recs = [{"a": i} for i in range(70)] + [{"a": -i} for i in range(8200 if tier != "quick" else 130)]
        want = [NORM(p, ns, r, {}) for r in recs]
        for codec in CODECS:
            fo = io.BytesIO()
            if many:
                w = Writer(fo, raw, codec=codec, sync_interval=10 ** 7, sync_marker=SYNC)
                for r in recs[:70]:
                    w.write(r)
                w.flush()
                for r in recs[70:]:
                    w.write(r)
                w.flush()
            else:
                writer(fo, raw, recs, codec=codec, sync_interval=rng.choice([1, 40]), sync_marker=SYNC)
            data = fo.getvalue()
            f = D.parse_file(data)
            boundaries = {f["header_end"]} | {b["offset"] + b["size"] for b in f["blocks"]}
            near = {x + d for x in boundaries for d in (-2, -1, 1, 2, 3) if 0 <= x + d <= len(data)}
            if len(data) > 20000:
                cuts = sorted(set(rng.sample(range(len(data)), 120 if tier == "quick" else 1500)) | boundaries | near | set(range(0, 40)))
            else:
                cuts = range(len(data) + 1) if len(data) <= 700 or tier != "quick" else sorted(set(rng.sample(range(len(data)), 300)) | boundaries | near)
            for cut in cuts:
                res.case("truncation", (short(raw, 500), codec, cut), sample={"schema": short(raw), "codec": codec, "cut": cut, "len": len(data)})
                got = []
                ended = "normal"
                try:
                    for r in reader(io.BytesIO(data[:cut])):
                        got.append(r)
                except Exception as e:   # noqa
                    ended = type(e).__name__
                case = {"schema": short(raw), "codec": codec, "cut": cut, "len": len(data)}
                rp = f"import io, fastavro\ndata = bytes.fromhex({data[:cut].hex()!r})\nprint(list(fastavro.reader(io.BytesIO(data))))\n"
                if not gen.same(got, want[:len(got)]):
                    res.fail("truncation", f"yielded {short(got)} which is not a prefix of what was written", case, rp)
                if ended == "normal" and cut not in boundaries:
                    res.fail("truncation", f"ended normally although the cut ({cut}) is not on a block boundary {sorted(boundaries)}", case, rp)
                if ended == "normal" and cut in boundaries:
                    nblocks = sum(1 for b in f["blocks"] if b["offset"] + b["size"] <= cut)
                    nrec = sum(b["count"] for b in f["blocks"][:nblocks])
                    if len(got) != nrec:
                        res.fail("truncation", f"{len(got)} records at boundary {cut}, expected {nrec}", case, rp)
            # proper prefixes of the schemaless encoding of the first record
            if recs:
                enc = A.ENC(p, ns, recs[0], {})
                pcuts = range(len(enc)) if len(enc) <= 300 else sorted(set(rng.sample(range(len(enc)), 60)))
                for cut in pcuts:
                    res.case("schemaless_prefix_raises", (short(raw, 500), cut))
                    try:
                        got = fastavro.schemaless_reader(io.BytesIO(enc[:cut]), raw)
                        res.fail("schemaless_prefix_raises", f"prefix of {cut}/{len(enc)} bytes decoded to {short(got, 120)}",
                                 {"schema": short(raw), "cut": cut, "len": len(enc)}, "")
                    except Exception:
                        pass
            # sync marker alterations
            for bi, b in enumerate(f["blocks"]):
                start = b["offset"] + b["size"] - 16
                for k in ([0, 7, 15] if tier == "quick" else range(16)):
                    bad = bytearray(data)
                    bad[start + k] ^= 0x01 << rng.randrange(8)
                    res.case("sync_corruption", (short(raw, 500), codec, bi, k))
                    got = []
                    try:
                        for r in reader(io.BytesIO(bytes(bad))):
                            got.append(r)
                        res.fail("sync_corruption", f"altered sync marker of block {bi} (byte {k}) not reported", {"schema": short(raw), "codec": codec}, "")
                    except Exception:
                        nrec = sum(x["count"] for x in f["blocks"][:bi + 1])
                        if len(got) > nrec or not gen.same(got, want[:len(got)]):
                            res.fail("sync_corruption", "records beyond the corrupted block were yielded", {"schema": short(raw), "codec": codec}, "")
    return res


def run_c07(tier, seed):
    res = Result("C07", tier, seed)
    rng = random.Random(seed)
    raw = {"type": "record", "name": "H", "fields": [{"name": "a", "type": "long"}, {"name": "s", "type": "string"}, {"name": "z", "type": "null"}]}
    zero = {"type": "record", "name": "Z", "fields": []}
    n_hist = 40 if tier == "quick" else 600
    for h in range(n_hist):
        schema = zero if h % 5 == 4 else raw
        p, ns = SS.parse_top(schema)
        codec = rng.choice(CODECS)
        si = rng.choice([1, 10, 50, 16000])
        fo = io.BytesIO()
        w = Writer(fo, schema, codec=codec, sync_interval=si, sync_marker=SYNC, metadata={"m": "1"})
        submitted = []
        ops = []
        header = None
        length = rng.randrange(3, 14)
        for step in range(length):
            op = rng.choice(["write", "write", "big", "bad", "flush", "block", "reopen"])
            ops.append(op)
            try:
                if op in ("write", "big"):
                    r = {} if schema is zero else {"a": rng.choice(gen.LONG_VALUES), "s": ("x" * (300 if op == "big" else rng.randrange(4))), "z": None}
                    w.write(r)
                    submitted.append(NORM(p, ns, r, {}))
                elif op == "bad":
                    if schema is zero:
                        continue
                    try:
                        w.write({"a": 7, "s": 3})       # s is not a string: fails after `a` was encoded
                        res.fail("failed_write", "non-conforming record accepted", {"ops": ops}, "")
                    except Exception:
                        pass
                elif op == "flush":
                    w.flush()
                elif op == "block":
                    donor = io.BytesIO()
                    dcodec = rng.choice(CODECS)
                    drecs = [({} if schema is zero else {"a": i, "s": "d", "z": None}) for i in range(rng.randrange(0, 4))]
                    writer(donor, schema, drecs, codec=dcodec, sync_interval=1)
                    donor.seek(0)
                    for blk in block_reader(donor):
                        w.write_block(blk)
                        submitted += [NORM(p, ns, r, {}) for r in drecs[:blk.num_records]]
                        drecs = drecs[blk.num_records:]
                elif op == "reopen":
                    w.flush()
                    fo.seek(0, 2)
                    other = rng.choice([None, raw, zero, "int"])
                    w = Writer(fo, other, codec=rng.choice(CODECS), sync_interval=si, sync_marker=b"Z" * 16, metadata={"m": "2"})
            except Exception as e:   # noqa
                res.fail("history", f"operation {op} raised {type(e).__name__}: {e}", {"ops": ops, "codec": codec}, "")
                break
            if op in ("flush", "reopen", "block"):
                if op == "block":
                    w.flush()
                data = fo.getvalue()
                res.case("history", (h, step), sample={"ops": list(ops), "codec": codec, "sync_interval": si})
                try:
                    got = list(reader(io.BytesIO(data)))
                    f = D.parse_file(data)
                except Exception as e:   # noqa
                    res.fail("history", f"file unreadable after {ops}: {type(e).__name__}: {e}", {"ops": ops, "codec": codec}, "")
                    break
                if not gen.same(got, submitted):
                    res.fail("history", f"after {ops}: read {short(got)} expected {short(submitted)}", {"ops": list(ops), "codec": codec, "sync_interval": si},
                             f"# history {ops} codec {codec} sync_interval {si} seed {seed}\n")
                    break
                hdr = data[:f["header_end"]]
                if header is None:
                    header = hdr
                elif hdr != header:
                    res.fail("header_frozen", f"header changed after {ops}", {"ops": list(ops)}, "")
                    break
    res.bounds = {"histories": n_hist, "max_ops": 13}
    return res
