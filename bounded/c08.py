"""Bounded stand-in for C08: reader schemas derived from writer schemas by evolution steps."""
import copy
import io
import random

import fastavro
from fastavro import schemaless_writer, schemaless_reader, writer, reader
from fastavro.read import SchemaResolutionError

from spec import schema as SS
from spec import avro as A
from spec import resolve as RS
from spec.decode import Short, Bad
from . import gen
from .harness import Result, short, guarded

PROMO = {"int": ["long", "float", "double"], "long": ["float", "double"], "float": ["double"], "string": ["bytes"], "bytes": ["string"]}
INCOMPAT = {"int": "string", "long": "int", "string": "int", "double": "float", "boolean": "int", "bytes": "long", "float": "int", "null": "int"}


def positions(s, path=()):
    """paths to every sub-schema"""
    yield path, s
    if isinstance(s, list):
        for i, b in enumerate(s):
            yield from positions(b, path + (i,))
    elif isinstance(s, dict):
        t = s.get("type")
        if t == "array":
            yield from positions(s["items"], path + ("items",))
        elif t == "map":
            yield from positions(s["values"], path + ("values",))
        elif t in ("record", "error"):
            for i, f in enumerate(s["fields"]):
                yield from positions(f["type"], path + ("fields", i, "type"))


def get(s, path):
    for p in path:
        s = s[p]
    return s


def put(s, path, v):
    if not path:
        return v
    s = copy.deepcopy(s)
    cur = s
    for p in path[:-1]:
        cur = cur[p]
    cur[path[-1]] = v
    return s


def steps(raw, rng):
    """(description, reader schema) for single evolution steps at every position"""
    out = []
    for path, sub in positions(raw):
        t = sub if isinstance(sub, str) else (sub.get("type") if isinstance(sub, dict) else "union")
        if isinstance(sub, str) and sub in PROMO:
            for to in PROMO[sub]:
                out.append((f"promote {sub}->{to} at {path}", put(raw, path, to)))
        if isinstance(sub, str) and sub in INCOMPAT:
            out.append((f"incompatible {sub}->{INCOMPAT[sub]} at {path}", put(raw, path, INCOMPAT[sub])))
        in_union = bool(path) and isinstance(path[-1], int)
        if isinstance(sub, str) and sub in gen.PRIMS and not in_union and sub != "null":
            out.append((f"wrap in union at {path}", put(raw, path, ["null", sub])))
            if sub in PROMO and not in_union:
                out.append((f"union promo-before-exact at {path}", put(raw, path, [PROMO[sub][-1], sub])))
        if isinstance(sub, dict) and t in ("record", "error"):
            fs = sub["fields"]
            if fs:
                out.append((f"reorder fields at {path}", put(raw, path, {**sub, "fields": list(reversed(fs))})))
                out.append((f"drop field {fs[0]['name']} at {path}", put(raw, path, {**sub, "fields": fs[1:]})))
                ren = dict(fs[0]); ren["aliases"] = [ren["name"]]; ren["name"] = ren["name"] + "_new"
                out.append((f"rename with alias at {path}", put(raw, path, {**sub, "fields": [ren] + fs[1:]})))
                ren2 = dict(fs[0]); ren2["aliases"] = ["zzz", ren2["name"]]; ren2["name"] = ren2["name"] + "_n2"
                out.append((f"rename with second alias at {path}", put(raw, path, {**sub, "fields": [ren2] + fs[1:]})))
            out.append((f"add field with default at {path}", put(raw, path, {**sub, "fields": fs + [{"name": "added", "type": "int", "default": 42}]})))
            out.append((f"add field without default at {path}", put(raw, path, {**sub, "fields": fs + [{"name": "added", "type": "int"}]})))
            # reader-only fields whose JSON default is not the Python value it denotes (bytes / non-finite floats /
            # records with nested defaults): the reader must see the denoted value
            for k, (ft, dv) in enumerate([("bytes", "\u00ff\u0001"), ("double", "NaN"), ("float", "-Infinity"),
                                          ({"type": "fixed", "name": f"AddedFx{len(path)}", "size": 2}, "\u0000\u00fe"),
                                          ({"type": "record", "name": f"AddedRec{len(path)}", "fields": [
                                              {"name": "z", "type": "int", "default": 5}, {"name": "b", "type": "bytes", "default": "\u0041"}]}, {}),
                                          ({"type": "map", "values": "bytes"}, {"k": "\u00e9"}),
                                          (["null", "int"], None), ({"type": "array", "items": "long"}, [1, 2])]):
                out.append((f"add {ft if isinstance(ft, str) else (ft.get('type') if isinstance(ft, dict) else 'union')} field with JSON default #{k} at {path}",
                            put(raw, path, {**sub, "fields": fs + [{"name": "added", "type": ft, "default": dv}]})))
            out.append((f"rename record with alias at {path}", put(raw, path, {**sub, "name": "Renamed" + sub["name"].rsplit('.', 1)[-1], "aliases": [sub["name"]]})))
            out.append((f"rename record no alias at {path}", put(raw, path, {**sub, "name": "Other" + sub["name"].rsplit('.', 1)[-1]})))
            out.append((f"other namespace same name at {path}", put(raw, path, {**sub, "name": "elsewhere." + sub["name"].rsplit('.', 1)[-1]})))
        if isinstance(sub, dict) and t == "enum":
            syms = sub["symbols"]
            out.append((f"enum drop symbol with default at {path}", put(raw, path, {**sub, "symbols": syms[:-1] or ["Z"], "default": (syms[:-1] or ["Z"])[0]})))
            out.append((f"enum drop symbol no default at {path}", put(raw, path, {**sub, "symbols": syms[:-1] or ["Z"]})))
            out.append((f"enum add symbol at {path}", put(raw, path, {**sub, "symbols": syms + ["NEW"]})))
        if isinstance(sub, dict) and t == "fixed":
            out.append((f"fixed size change at {path}", put(raw, path, {**sub, "size": sub["size"] + 1})))
        # a named type replaced by a named type of another kind with the same name: the type names "match"
        # but the types do not -- the rules give no result
        if isinstance(sub, dict) and t in ("enum", "fixed", "record") and "name" in sub:
            nm = sub["name"]
            others = {"enum": {"type": "enum", "name": nm, "symbols": ["K0", "K1"]},
                      "fixed": {"type": "fixed", "name": nm, "size": 1},
                      "record": {"type": "record", "name": nm, "fields": [{"name": "kq", "type": "int", "default": 0}]}}
            for k2, v2 in others.items():
                if k2 != t:
                    out.append((f"kind change {t}->{k2} keeping the name at {path}", put(raw, path, v2)))
        if isinstance(sub, list):
            out.append((f"reader not a union at {path}", put(raw, path, sub[0])))
            out.append((f"union reordered at {path}", put(raw, path, list(reversed(sub)))))
    out.append(("identity (separate object)", copy.deepcopy(raw)))
    return out


def same_unordered(a, b):
    """equality of resolved values; the statement does not fix the key order of records"""
    if isinstance(a, dict) and isinstance(b, dict):
        return set(a) == set(b) and all(same_unordered(a[k], b[k]) for k in a)
    if isinstance(a, list) and isinstance(b, list):
        return len(a) == len(b) and all(same_unordered(x, y) for x, y in zip(a, b))
    return gen.same(a, b)


def pool():
    out = [s for s in gen.curated_schemas() if not isinstance(s, str)]
    out += ["int", "long", "float", "string", "bytes"]
    out += list(gen.small_schemas(2, ["int", "string", "float", "bytes"]))
    # named types reached through references inside arrays / maps whose own schema text does not change
    out.append({"type": "record", "name": "ByRef", "fields": [
        {"name": "p", "type": {"type": "record", "name": "Point", "fields": [{"name": "x", "type": "int"}, {"name": "y", "type": "int"}]}},
        {"name": "ps", "type": {"type": "array", "items": "Point"}}, {"name": "pm", "type": {"type": "map", "values": "Point"}},
        {"name": "c", "type": {"type": "enum", "name": "Color", "symbols": ["RED", "BLUE"]}, "default": "RED"},
        {"name": "cs", "type": {"type": "array", "items": "Color"}}]})
    # a named type defined inline by the writer and referred to by name by the reader, and vice versa
    out.append({"type": "record", "name": "RefRec", "fields": [
        {"name": "e1", "type": {"type": "enum", "name": "Color", "symbols": ["R", "G"]}}, {"name": "e2", "type": "Color"}]})
    return out


def run_c08(tier, seed):
    res = Result("C08", tier, seed)
    rng = random.Random(seed)
    for raw in pool():
        try:
            pw, nsw = SS.parse_top(raw)
        except SS.Invalid:
            continue
        data = [d for d in gen.data_for(pw, nsw, rng) if A.CONFORMS(d, pw, nsw, {})]
        data = data[:6] if tier == "quick" else data[:20]
        # recursive / by-name types: values that actually go through the references
        if isinstance(raw, dict) and raw.get("name") == "Tree":
            data += [{"v": "r", "kids": [{"v": "a", "kids": []}, {"v": "b", "kids": [{"v": "c", "kids": []}]}]}]
        if isinstance(raw, dict) and raw.get("name") == "LinkedList":
            data += [{"value": 1, "next": {"value": 2, "next": {"value": 3, "next": None}}}]
        if isinstance(raw, dict) and raw.get("name") == "ByRef":
            data += [{"p": {"x": 1, "y": 2}, "ps": [{"x": 3, "y": 4}], "pm": {"k": {"x": 5, "y": 6}}, "cs": ["RED", "BLUE"]}]
        evo = steps(raw, rng)
        if raw == pool()[-1]:
            # swap definition and reference between the two fields
            evo.append(("reference first, definition second", {"type": "record", "name": "RefRec", "fields": [
                {"name": "e2", "type": {"type": "enum", "name": "Color", "symbols": ["R", "G"]}}, {"name": "e1", "type": "Color"}]}))
        if tier == "quick" and len(evo) > 30:
            evo = rng.sample(evo, 30)
        for desc, rraw in evo:
            try:
                pr, nsr = SS.parse_top(rraw)
            except SS.Invalid:
                continue
            for d in data:
                try:
                    enc = A.ENC(pw, nsw, d, {})
                except (OverflowError, ValueError):
                    continue
                try:
                    want, _ = RS.resolve_decode(pw, pr, nsw, nsr, enc, 0)
                    err = False
                except RS.ResolutionError:
                    want, err = None, True
                except (UnicodeDecodeError, Short, Bad):
                    continue
                case = {"writer": short(raw), "reader": short(rraw), "step": desc, "datum": short(d),
                        "_w": pw, "_r": pr, "_nsw": nsw, "_nsr": nsr, "_enc": enc}
                rp = (f"import io, fastavro\nws = {raw!r}\nrs = {rraw!r}\ndata = bytes.fromhex({enc.hex()!r})\n"
                      f"print(fastavro.schemaless_reader(io.BytesIO(data), ws, rs))\n")
                res.case("resolution", (short(raw, 800), desc, short(d, 400)), sample=case)
                try:
                    got = schemaless_reader(io.BytesIO(enc), raw, rraw)
                    raised = None
                except SchemaResolutionError as e:
                    got, raised = None, e
                except Exception as e:   # noqa
                    res.fail("resolution", f"unexpected {type(e).__name__}: {e} (oracle: {'error' if err else short(want)})", case, rp)
                    continue
                if err and raised is None:
                    res.fail("resolution_error", f"no schema-resolution error; got {short(got)}", case, rp)
                elif not err and raised is not None:
                    res.fail("resolution", f"SchemaResolutionError but the rules give {short(want)}", case, rp)
                elif not err and not same_unordered(got, want):
                    case["_got"] = got
                    res.fail("resolution", f"got {short(got)} but the rules give {short(want)}", case, rp)
    # named-type reporting together with a reader schema, the named type being inline on one side and
    # referred to by name on the other (C08 "inline or by reference", C09 "(name, value) pairs for named branches")
    foo = {"type": "record", "name": "Foo", "fields": [{"name": "x", "type": "int"}]}
    en = {"type": "enum", "name": "En", "symbols": ["A", "B"]}
    mixes = []
    for nm, d_in, d_val in ((foo, "Foo", {"x": 2}), (en, "En", "B")):
        inline_first = {"type": "record", "name": "R", "fields": [{"name": "a", "type": nm}, {"name": "u", "type": ["null", d_in]}]}
        union_first = {"type": "record", "name": "R", "fields": [{"name": "u", "type": ["null", nm]}, {"name": "a", "type": d_in}]}
        for wsch, rsch in ((inline_first, union_first), (union_first, inline_first), (inline_first, inline_first)):
            mixes.append((wsch, rsch, d_in, {"a": d_val, "u": d_val}, nm["type"]))
    for wsch, rsch, name, datum, kind in mixes:
        fo = io.BytesIO()
        from fastavro import schemaless_writer
        schemaless_writer(fo, wsch, datum)
        for ropt in ({"return_named_type": True}, {"return_record_name": True}):
            case = {"writer": short(wsch), "reader": short(rsch), "datum": short(datum), "reader_options": ropt}
            rp = (f"import io, fastavro\nws = {wsch!r}\nrs = {rsch!r}\nfo = io.BytesIO(); fastavro.schemaless_writer(fo, ws, {datum!r})\n"
                  f"print(fastavro.schemaless_reader(io.BytesIO(fo.getvalue()), ws, rs, **{ropt!r}))\n")
            res.case("named_reporting_with_reader_schema", (short(wsch, 600), short(rsch, 600), tuple(ropt)), sample=case)
            try:
                got = schemaless_reader(io.BytesIO(fo.getvalue()), wsch, rsch, **ropt)
            except Exception as e:   # noqa
                res.fail("named_reporting_with_reader_schema", f"unexpected {type(e).__name__}: {e}", case, rp)
                continue
            reported = "return_named_type" in ropt or kind == "record"
            if reported and got.get("u") != (name, datum["u"]):
                res.fail("named_reporting_with_reader_schema", f"u read as {short(got.get('u'))}, expected the pair ({name!r}, value)", case, rp)
    return res
