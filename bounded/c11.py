"""Bounded stand-ins for C11 (parse_schema), C12 (raw / parsed / piecewise forms),
C13 (canonical form) and C14 (fingerprints), against spec/schema.py."""
import copy
import re
import hashlib
import io
import json
import random

import fastavro
from fastavro import parse_schema, schemaless_writer, schemaless_reader, writer, reader, json_writer, json_reader
from fastavro.schema import to_parsing_canonical_form, fingerprint, FINGERPRINT_ALGORITHMS
from fastavro._schema_common import SchemaParseException, UnknownType
from fastavro.validation import validate
from fastavro.utils import generate_many

from spec import schema as SS
from spec import avro as A
from . import gen
from .harness import Result, short, guarded


def valid_pool(tier):
    out = [s for s in gen.curated_schemas()]
    out += list(gen.small_schemas(3, ["int", "string"]))
    out += [
        {"type": "record", "name": "Outer", "namespace": "a.b", "fields": [
            {"name": "i", "type": {"type": "record", "name": "Inner", "fields": [{"name": "e", "type": {"type": "enum", "name": "x.E", "symbols": ["A"]}}]}},
            {"name": "j", "type": "Inner"}, {"name": "k", "type": "a.b.Inner"}, {"name": "l", "type": "x.E"},
            {"name": "m", "type": {"type": "fixed", "name": "F", "namespace": "", "size": 3}}, {"name": "n", "type": "F"}]},
        # a type put into the null namespace (explicit "namespace": "") inside a namespaced record: its full name has no dot
        {"type": "record", "name": "Outer2", "namespace": "ns", "fields": [
            {"name": "f", "type": {"type": "record", "name": "Inner2", "namespace": "", "fields": [{"name": "x", "type": "int"}]}}]},
        {"type": "record", "name": "Outer3", "namespace": "ns", "fields": [
            {"name": "e", "type": {"type": "enum", "name": "E3", "namespace": "", "symbols": ["A", "B"]}},
            {"name": "m", "type": {"type": "map", "values": {"type": "fixed", "name": "F3", "namespace": "", "size": 2}}}]},
        {"type": "record", "name": "a.Dotted", "namespace": "ignored", "fields": [{"name": "self", "type": ["null", "a.Dotted"]}, {"name": "rel", "type": ["null", "Dotted"]}]},
        {"type": "record", "name": "WithAttrs", "doc": "d", "aliases": ["Old"], "custom": 1, "fields": [
            {"name": "f", "type": "int", "doc": "fd", "aliases": ["g"], "default": 3, "order": "descending", "x": [1]},
            {"name": "d", "type": {"type": "bytes", "logicalType": "decimal", "precision": 5, "scale": 2}},
            {"name": "fd", "type": {"type": "fixed", "name": "FD", "size": 4, "logicalType": "decimal", "precision": 9, "scale": 0}},
            # fixed decimals at exactly the largest precision their size holds (must be accepted)
            {"name": "fd1", "type": {"type": "fixed", "name": "FD1", "size": 1, "logicalType": "decimal", "precision": 2, "scale": 1}},
            {"name": "fd2", "type": {"type": "fixed", "name": "FD2", "size": 2, "logicalType": "decimal", "precision": 4, "scale": 0}},
            {"name": "fd8", "type": {"type": "fixed", "name": "FD8", "size": 8, "logicalType": "decimal", "precision": 18, "scale": 9}},
            {"name": "fd16", "type": {"type": "fixed", "name": "FD16", "size": 16, "logicalType": "decimal", "precision": 38, "scale": 0}},
            {"name": "arr", "type": {"type": "array", "items": "long"}, "default": [1, 2]},
            {"name": "u", "type": ["null", {"type": "array", "items": "int"}], "default": None},
            {"name": "u2", "type": [{"type": "map", "values": "int"}, "null"], "default": {"a": 1}},
            {"name": "en", "type": {"type": "enum", "name": "En", "symbols": ["A", "B"], "default": "A"}, "default": "B"}]},
    ]
    return out


def ill_formed(raw, rng):
    """(kind, schema) single ill-forming mutations of the listed kinds"""
    out = []
    paths = list(_paths(raw))
    for path, sub in paths:
        if isinstance(sub, dict) and sub.get("type") in ("record", "error", "enum", "fixed"):
            m = copy.deepcopy(sub); del m["name"]
            out.append(("noname", _put(raw, path, m)))
        if isinstance(sub, dict) and sub.get("type") == "enum":
            for bad in (["1A"], ["a-b"], ["A", "A"], [3], [""]):
                out.append(("enum", _put(raw, path, {**sub, "symbols": bad})))
            out.append(("enum", _put(raw, path, {**sub, "default": "NOPE"})))
        if isinstance(sub, dict) and sub.get("type") in ("record", "error"):
            out.append(("unknown", _put(raw, path, {**sub, "fields": sub["fields"] + [{"name": "zz_undefined", "type": "NoSuchType"}]})))
            # a simple name that exists only in the null namespace, referred to from inside a namespace
            out.append(("unknown", {"type": "record", "name": "ZRoot", "fields": [
                {"name": "zz_null_ns", "type": {"type": "enum", "name": "ZOnlyNull", "symbols": ["A"]}},
                {"name": "zz_inner", "type": {"type": "record", "name": "zns.ZInner", "fields": [{"name": "bad", "type": "ZOnlyNull"}]}},
                {"name": "zz_rest", "type": raw if not path else "int"}]}))
            out.append(("redefined", _put(raw, path, {**sub, "fields": sub["fields"] + [
                {"name": "zz_a", "type": {"type": "fixed", "name": "ZDup", "size": 1}}, {"name": "zz_b", "type": {"type": "fixed", "name": "ZDup", "size": 1}}]})))
            for i, f in enumerate(sub["fields"]):
                ft = f["type"]
                bads = _bad_defaults(ft)
                for bd in bads:
                    nf = dict(f); nf["default"] = bd
                    out.append(("default", _put(raw, path, {**sub, "fields": sub["fields"][:i] + [nf] + sub["fields"][i + 1:]})))
        if isinstance(sub, dict) and sub.get("logicalType") == "decimal":
            for k, v in (("precision", -1), ("precision", 0), ("precision", 2.5), ("scale", -1), ("scale", 1.5),
                         ("scale", sub.get("precision", 5) + 1), ("precision", 10 ** 6 if sub["type"] == "fixed" else None)):
                if v is None:
                    continue
                out.append(("decimal", _put(raw, path, {**sub, k: v})))
            if sub["type"] == "fixed":
                # the boundary: one digit more than the fixed size can hold, for several sizes
                for size in (1, 2, 3, 4, 8, 12, 16):
                    out.append(("decimal", _put(raw, path, {**sub, "size": size, "precision": max_precision(size) + 1, "scale": 0})))
    return out


def max_precision(size):
    """largest number of decimal digits d such that every d-digit number fits a signed integer of `size` bytes
    (exact integer arithmetic: 10**d - 1 <= 2**(8*size - 1) - 1)"""
    d = 0
    while 10 ** (d + 1) <= 2 ** (8 * size - 1):
        d += 1
    return d


def _bad_defaults(ft):
    t = ft if isinstance(ft, str) else (ft.get("type") if isinstance(ft, dict) else "union")
    table = {"int": ["x", 1.5, None, [1], True], "long": ["x", None, False], "string": [1, None, ["a"]], "boolean": [1, "true", None],
             "null": [0, "null"], "float": ["abc", None, [1.0], True], "double": ["abc", None, False], "bytes": [1, None, [1]],
             "array": [1, "x", {"a": 1}], "map": [1, "x", [1]], "record": [1, "x", [1]], "enum": [1, None], "fixed": [1, None]}
    if t == "union":
        names = [b if isinstance(b, str) else b.get("type") for b in ft]
        if all(n in ("null", "int", "long", "string", "array", "map") for n in names):
            cands = [1, "x", None, [1], {"a": 1}, 1.5, True]
            ok = {"null": lambda v: v is None, "int": lambda v: isinstance(v, int) and not isinstance(v, bool),
                  "long": lambda v: isinstance(v, int) and not isinstance(v, bool), "string": lambda v: isinstance(v, str),
                  "array": lambda v: isinstance(v, list), "map": lambda v: isinstance(v, dict)}
            return [v for v in cands if not any(ok[n](v) for n in names)]
        return []
    return table.get(t, [])


def _paths(s, path=()):
    yield path, s
    if isinstance(s, list):
        for i, b in enumerate(s):
            yield from _paths(b, path + (i,))
    elif isinstance(s, dict):
        t = s.get("type")
        if t == "array":
            yield from _paths(s["items"], path + ("items",))
        elif t == "map":
            yield from _paths(s["values"], path + ("values",))
        elif t in ("record", "error"):
            for i, f in enumerate(s.get("fields", [])):
                yield from _paths(f["type"], path + ("fields", i, "type"))


def _put(s, path, v):
    if not path:
        return v
    s = copy.deepcopy(s)
    cur = s
    for p in path[:-1]:
        cur = cur[p]
    cur[path[-1]] = v
    return s


def run_c11(tier, seed):
    res = Result("C11", tier, seed)
    rng = random.Random(seed)
    for raw in valid_pool(tier):
        try:
            p, ns = SS.parse_top(raw)
        except SS.Invalid:
            continue
        case = {"schema": short(raw)}
        rp = f"import fastavro\nprint(fastavro.parse_schema({raw!r}))\n"
        res.case("accepts_valid_names_per_spec", short(raw, 2000), sample=case)

        def body():
            fns = {}
            got = parse_schema(copy.deepcopy(raw), fns)
            if to_parsing_canonical_form(got) != SS.pcf(p):
                res.fail("accepts_valid_names_per_spec", f"names differ: {to_parsing_canonical_form(got)} vs {SS.pcf(p)}", case, rp)
            if set(fns) != set(ns):
                res.fail("accepts_valid_names_per_spec", f"name table {sorted(fns)} vs {sorted(ns)}", case, rp)
            for k in ns:
                if k in fns and fns[k].get("name") != k:
                    res.fail("accepts_valid_names_per_spec", f"definition of {k} carries name {fns[k].get('name')}", case, rp)
        guarded(res, "accepts_valid_names_per_spec", case, rp, body)
        muts = ill_formed(raw, rng)
        if tier == "quick" and len(muts) > 40:
            keep = [m for m in muts if m[0] == "decimal"]       # few and boundary-valued: never sampled away
            rest = [m for m in muts if m[0] != "decimal"]
            muts = keep + rng.sample(rest, min(len(rest), 40))
        for kind, bad in muts:
            try:
                SS.parse_top(bad)
                continue          # the oracle accepts it: not an ill-forming mutation here
            except SS.Invalid:
                pass
            except Exception:
                continue
            c2 = {"schema": short(bad), "kind": kind}
            res.case("rejects_ill_formed", (kind, short(bad, 2000)), sample=c2)
            try:
                parse_schema(copy.deepcopy(bad))
                res.fail("rejects_ill_formed", f"ill-formed schema ({kind}) accepted", c2, f"import fastavro\nprint(fastavro.parse_schema({bad!r}))\n")
            except (SchemaParseException, UnknownType):
                pass
            except Exception as e:   # noqa
                res.fail("rejects_ill_formed", f"ill-formed schema ({kind}) raised {type(e).__name__}, not a schema-parse / unknown-type error", c2,
                         f"import fastavro\nprint(fastavro.parse_schema({bad!r}))\n")
    return res


# ------------------------------------------------------------------------ C12
def piecewise(raw):
    """split off the named types of a record schema: parse each separately against a shared
    named-schema dict, refer to them by name in the outer schema"""
    if not (isinstance(raw, dict) and raw.get("type") == "record"):
        return None
    shared = {}
    outer = copy.deepcopy(raw)
    moved = 0
    ns = raw.get("namespace") or (raw["name"].rsplit(".", 1)[0] if "." in raw["name"] else "")
    for f in outer["fields"]:
        t = f["type"]
        if isinstance(t, dict) and t.get("type") in ("record", "enum", "fixed") and "namespace" not in t:
            piece = copy.deepcopy(t)
            _, full = SS.fullname(piece["name"], piece.get("namespace"), ns)
            if "." not in piece["name"] and ns:
                piece["namespace"] = ns
            try:
                parse_schema(piece, shared)
            except Exception:
                return None
            f["type"] = full
            moved += 1
    if not moved:
        return None
    return outer, shared


def piecewise_null_ns(raw):
    """split off only the null-namespace named types defined at the top level of a record"""
    if not (isinstance(raw, dict) and raw.get("type") == "record") or "." in raw["name"] or raw.get("namespace"):
        return None
    shared = {}
    outer = copy.deepcopy(raw)
    moved = 0
    for f in outer["fields"]:
        t = f["type"]
        if isinstance(t, dict) and t.get("type") in ("enum", "fixed") and "." not in t["name"] and not t.get("namespace"):
            try:
                parse_schema(copy.deepcopy(t), shared)
            except Exception:
                return None
            f["type"] = t["name"]
            moved += 1
    return (outer, shared) if moved else None


def run_c12(tier, seed):
    res = Result("C12", tier, seed)
    rng = random.Random(seed)
    for raw in valid_pool(tier):
        try:
            p, ns = SS.parse_top(raw)
        except SS.Invalid:
            continue
        case = {"schema": short(raw)}
        res.case("idempotent", short(raw, 2000), sample=case)
        try:
            once = parse_schema(copy.deepcopy(raw))
            twice = parse_schema(once)
            if json.dumps(_strip(twice), sort_keys=True, default=str) != json.dumps(_strip(once), sort_keys=True, default=str):
                res.fail("idempotent", "parse_schema(parsed) differs from parsed", case, "")
        except Exception as e:   # noqa
            res.fail("idempotent", f"unexpected {type(e).__name__}: {e}", case, "")
            continue
        data = [d for d in gen.data_for(p, ns, rng) if A.CONFORMS(d, p, ns, {})][:5]
        forms = {"raw": lambda: copy.deepcopy(raw), "parsed": lambda: parse_schema(copy.deepcopy(raw))}
        pw = piecewise(raw)
        if pw is not None:
            outer, shared = pw
            forms["piecewise"] = lambda: parse_schema(copy.deepcopy(outer), dict(shared))
        pw2 = piecewise_null_ns(raw)
        if pw2 is not None:
            outer2, shared2 = pw2
            forms["piecewise_null_namespace_piece"] = lambda: parse_schema(copy.deepcopy(outer2), dict(shared2))
        results = {}
        for fname, mk in forms.items():
            results[fname] = {}
            for opname, op in OPS.items():
                try:
                    results[fname][opname] = op(mk(), data)
                except OverflowError:
                    results[fname][opname] = "overflow"
                except Exception as e:   # noqa
                    results[fname][opname] = f"EXC {type(e).__name__}: {re.sub('0x[0-9a-f]+', '0x', str(e))[:80]}"
        for fname in forms:
            if fname == "raw":
                continue
            for opname in OPS:
                res.case("forms_equivalent", (short(raw, 1500), fname, opname))
                a, b = results["raw"][opname], results[fname][opname]
                if not gen.same(a, b):
                    res.fail("forms_equivalent", f"{opname}: {fname} form gives {short(b)} but the raw schema gives {short(a)}",
                             {"schema": short(raw), "form": fname, "operation": opname, "_a": a, "_b": b}, "")
    return res


def _strip(s):
    if isinstance(s, dict):
        return {k: _strip(v) for k, v in s.items() if k != "__named_schemas"}
    if isinstance(s, list):
        return [_strip(v) for v in s]
    return s


def _op_binary(s, data):
    out = []
    for d in data:
        fo = io.BytesIO()
        schemaless_writer(fo, s, d)
        out.append((fo.getvalue(), schemaless_reader(io.BytesIO(fo.getvalue()), s)))
    return out


def _op_container(s, data):
    fo = io.BytesIO()
    writer(fo, s, data, sync_marker=b"S" * 16)
    b = fo.getvalue()
    r = reader(io.BytesIO(b))       # the file must be readable on its own
    recs = list(r)
    return [recs, to_parsing_canonical_form(r.writer_schema)]


def _op_json(s, data):
    out = io.StringIO()
    json_writer(out, s, data)
    return [out.getvalue(), list(json_reader(io.StringIO(out.getvalue()), s))]


def _op_validate(s, data):
    return [validate(d, s, raise_errors=False) for d in data] + [validate(object(), s, raise_errors=False)]


def _op_canon(s, data):
    return to_parsing_canonical_form(s)


def _op_generate(s, data):
    random.seed(1234)
    return list(generate_many(s, 2))


OPS = {"binary": _op_binary, "container": _op_container, "json": _op_json, "validate": _op_validate,
       "canonical_form": _op_canon, "generate": _op_generate}


# ------------------------------------------------------------------------ C13
def cosmetic(raw, rng):
    """rewrites confined to doc / aliases / defaults / order / custom & logical attributes /
    attribute order / namespace+name vs dotted name"""
    out = []
    for path, sub in _paths(raw):
        if isinstance(sub, dict):
            out.append(("doc", _put(raw, path, {**sub, "doc": "some documentation"})))
            out.append(("custom attr", _put(raw, path, {**sub, "x-custom": {"a": [1, 2]}})))
            out.append(("attribute order", _put(raw, path, dict(reversed(list(sub.items()))))))
            if sub.get("type") in ("record", "error", "enum", "fixed"):
                out.append(("aliases", _put(raw, path, {**sub, "aliases": ["OtherName"]})))
                nm = sub["name"]
                if "." in nm and "namespace" not in sub:
                    nsp, short_nm = nm.rsplit(".", 1)
                    out.append(("namespace+name", _put(raw, path, {**sub, "name": short_nm, "namespace": nsp})))
            if sub.get("type") in ("record", "error"):
                fs = []
                for f in sub["fields"]:
                    nf = dict(f); nf["doc"] = "field doc"; nf["order"] = "ignore"; nf["aliases"] = ["al"]
                    fs.append(nf)
                out.append(("field attrs", _put(raw, path, {**sub, "fields": fs})))
                fs2 = []
                for f in sub["fields"]:
                    nf = {k: v for k, v in f.items() if k != "default"}
                    fs2.append(nf)
                out.append(("defaults removed", _put(raw, path, {**sub, "fields": fs2})))
            if sub.get("type") in ("int", "long", "bytes", "string") and "logicalType" not in sub:
                pass
        if isinstance(sub, str) and sub in ("int", "long"):
            lt = {"int": "date", "long": "timestamp-millis"}[sub]
            out.append(("logical attr", _put(raw, path, {"type": sub, "logicalType": lt})))
            out.append(("dict form of primitive", _put(raw, path, {"type": sub})))
    return out


def run_c13(tier, seed):
    res = Result("C13", tier, seed)
    rng = random.Random(seed)
    # Apache reference vectors shipped with the test suite
    try:
        import ast as _ast
        src = open("/repo/tests/test_schema.py").read()
    except Exception:
        src = ""
    # integers must come out in plain decimal whatever their size: fixed types of a million bytes and more
    big = [{"type": "fixed", "name": "Big", "size": 1000000},
           {"type": "record", "name": "HasBig", "fields": [{"name": "b", "type": {"type": "fixed", "name": "Big7", "size": 1234567}},
                                                            {"name": "u", "type": ["null", {"type": "fixed", "name": "Big8", "size": 10000000}]}]}]
    for raw in valid_pool(tier) + big:
        try:
            p, ns = SS.parse_top(raw)
        except SS.Invalid:
            continue
        want = SS.pcf(p)
        case = {"schema": short(raw)}
        # the specification functions used by the deductive contract (spec/canon.py) against this independent oracle
        try:
            import spec.canon as K
            if K.CANON_WF(p) and K.PCF(p) != want:
                res.fail("equals_spec_transformation", f"the two statements of the canonical form disagree: {K.PCF(p)} vs {want}", case, "")
        except Exception as e:   # noqa
            res.fail("equals_spec_transformation", f"spec.canon raised {type(e).__name__}: {e}", case, "")
        rp = f"from fastavro.schema import to_parsing_canonical_form\nprint(to_parsing_canonical_form({raw!r}))\n"
        res.case("equals_spec_transformation", short(raw, 2000), sample=case)
        try:
            got = to_parsing_canonical_form(copy.deepcopy(raw))
        except Exception as e:   # noqa
            res.fail("equals_spec_transformation", f"unexpected {type(e).__name__}: {e}", case, rp)
            continue
        if got != want:
            res.fail("equals_spec_transformation", f"{got} vs specification {want}", case, rp)
            continue
        # fixed point and valid schema with the same encoding
        res.case("fixed_point", short(raw, 2000))
        try:
            again = to_parsing_canonical_form(json.loads(got))
            if again != got:
                res.fail("fixed_point", f"canonical form of the canonical form is {again}", dict(case, _raw=raw, _a=got, _b=again),
                         f"import json\nfrom fastavro.schema import to_parsing_canonical_form as pcf\nc = pcf({raw!r})\nprint(c)\nprint(pcf(json.loads(c)))\n")
            data = [d for d in gen.data_for(p, ns, rng) if A.CONFORMS(d, p, ns, {})][:4]
            canon_schema = json.loads(got)
            for d in data:
                fo = io.BytesIO()
                try:
                    schemaless_writer(fo, raw, d)
                except OverflowError:
                    continue
                except ValueError as e:
                    if "no value and no default" in str(e):
                        continue       # KF13, reported under C01/C02/C10
                    raise
                b = fo.getvalue()
                fo2 = io.BytesIO()
                schemaless_writer(fo2, canon_schema, d)
                if fo2.getvalue() != b:
                    res.fail("same_encoding", f"bytes differ under the canonical schema for {short(d)}", case, rp)
        except Exception as e:   # noqa
            res.fail("fixed_point", f"unexpected {type(e).__name__}: {e}", case, rp)
        cos = cosmetic(raw, rng)
        if tier == "quick" and len(cos) > 25:
            cos = rng.sample(cos, 25)
        for kind, ed in cos:
            try:
                SS.parse_top(ed)
            except Exception:
                continue
            res.case("cosmetic_invariance", (kind, short(ed, 2000)))
            try:
                g2 = to_parsing_canonical_form(copy.deepcopy(ed))
            except Exception as e:   # noqa
                res.fail("cosmetic_invariance", f"{kind}: unexpected {type(e).__name__}: {e}", {"schema": short(ed), "edit": kind}, "")
                continue
            if g2 != want:
                res.fail("cosmetic_invariance", f"{kind}: {g2} vs {want}", {"schema": short(ed), "edit": kind},
                         f"from fastavro.schema import to_parsing_canonical_form\nprint(to_parsing_canonical_form({ed!r}))\n")
    return res


# ------------------------------------------------------------------------ C14
JAVA = {"SHA-256": "sha256", "MD5": "md5"}


def run_c14(tier, seed):
    res = Result("C14", tier, seed)
    rng = random.Random(seed)
    texts = ["", "a", '"int"', '{"type":"fixed","name":"a","size":1}', "é€\U0001d11e", "x" * 1000, "\x00", "\x7f\x80"]
    for raw in valid_pool(tier)[:40]:
        try:
            texts.append(SS.pcf_raw(raw))
        except Exception:
            pass
    texts += ["a" * 63 + "é", "é" * 64, "漢字" * 40, "x" * 64 + "\U0001d11e" * 3, ("ab€" * 50) + "z", "é" + "a" * 200]
    n = 300 if tier == "quick" else 5000
    for _ in range(n):
        texts.append("".join(chr(rng.choice([rng.randrange(32, 127), rng.randrange(0x80, 0x800), rng.randrange(0x800, 0xD800), rng.randrange(0x10000, 0x10FFFF)]))
                             for _ in range(rng.choice([rng.randrange(0, 40), rng.randrange(60, 140), rng.randrange(250, 270)]))))
    for t in texts:
        res.case("crc64_avro", t, nontrivial=len(t) > 0, sample={"text": short(t, 60)})
        got = fingerprint(t, "CRC-64-AVRO")
        want = SS.rabin_hex(t.encode("utf-8"))
        if got != want:
            res.fail("crc64_avro", f"{got} vs specification {want}", {"text": short(t, 200)},
                     f"from fastavro.schema import fingerprint\nprint(fingerprint({t!r}, 'CRC-64-AVRO'))\n")
    if fingerprint("", "CRC-64-AVRO") != (0xC15D213AA4D7A795).to_bytes(8, "little").hex():
        res.fail("crc64_avro", "empty text does not map to the seed", {"text": ""}, "")
    fixed_len = sorted(a for a in hashlib.algorithms_guaranteed if not a.startswith("shake"))
    for alg in fixed_len + list(JAVA):
        for t in texts[:60]:
            res.case("named_digest", (alg, t))
            try:
                got = fingerprint(t, alg)
            except Exception as e:   # noqa
                res.fail("named_digest", f"{alg}: {type(e).__name__}: {e}", {"alg": alg}, "")
                break
            want = hashlib.new(JAVA.get(alg, alg), t.encode("utf-8")).hexdigest()
            if got != want:
                res.fail("named_digest", f"{alg}: {got} vs {want}", {"alg": alg, "text": short(t, 100)}, "")
    for alg in ["nope", "", "crc-64-avro", "sha-256", "SHA256x", "md-5", None if False else "CRC64"]:
        res.case("unknown_algorithm", alg)
        try:
            fingerprint("x", alg)
            res.fail("unknown_algorithm", f"no ValueError for {alg!r}", {"alg": alg}, "")
        except ValueError:
            pass
        except Exception as e:   # noqa
            res.fail("unknown_algorithm", f"{alg!r}: {type(e).__name__} instead of ValueError", {"alg": alg}, "")
    return res
