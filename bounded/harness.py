"""Bounded stand-in harness: case bookkeeping, known-finding filter, result file.
Everything reported from here is labelled *bounded* and never counted as proved."""
import json
import os
import sys
import time
import traceback

VERIF = os.path.dirname(os.path.dirname(os.path.abspath(__file__)))


class Result:
    def __init__(self, prop, tier, seed):
        self.prop = prop
        self.tier = tier
        self.seed = seed
        self.evaluations = 0
        self.distinct = set()
        self.failures = []       # dicts: clause, what, case (repr), replay (python snippet)
        self.known = []
        self.samples = []
        self.clauses = {}        # clause -> count
        self.t0 = time.time()
        self.bounds = {}
        self.notes = []
        self.findings = load_findings(prop)

    def case(self, clause, key, nontrivial=True, sample=None):
        self.evaluations += 1
        self.clauses[clause] = self.clauses.get(clause, 0) + 1
        if nontrivial:
            self.distinct.add((clause, key))
        if sample is not None and len(self.samples) < 12 and self.clauses[clause] <= 2:
            self.samples.append({"clause": clause, "case": sample})

    def fail(self, clause, what, case, replay):
        """a concrete violation of `clause`; filtered through the known-findings list"""
        entry = {"clause": clause, "what": what, "case": case, "replay": replay}
        for f in self.findings:
            if f["clause"] == clause and f["match"](entry):
                self.known.append((f, _public(entry)))
                return
        self.failures.append(_public(entry))

    def to_json(self):
        return {
            "property": self.prop, "tier": self.tier, "seed": self.seed,
            "evaluations": self.evaluations, "distinct_nontrivial": len(self.distinct),
            "clauses": self.clauses, "bounds": self.bounds, "notes": self.notes,
            "failures": self.failures[:400], "n_failures": len(self.failures),
            "known": [{"id": f["id"], "what": f["what"], "example": e["case"]} for f, e in self.known[:50]],
            "known_ids": sorted({f["id"] for f, _ in self.known}),
            "samples": self.samples, "wall_s": round(time.time() - self.t0, 2),
        }


def _public(entry):
    """drop the raw objects (keys starting with '_') that known-finding predicates use"""
    e = dict(entry)
    if isinstance(e.get("case"), dict):
        e["case"] = {k: v for k, v in e["case"].items() if not k.startswith("_")}
    return e


def load_findings(prop):
    """known findings for the bounded checks: /verif/known_findings.py (committed, never
    written at run time): list of dicts(id, property, clause, what, match(entry)->bool)"""
    path = os.path.join(VERIF, "known_findings.py")
    if not os.path.exists(path):
        return []
    ns = {}
    exec(compile(open(path).read(), path, "exec"), ns)
    return [f for f in ns.get("BOUNDED", []) if f["property"] == prop and not f.get("fixed")]


def short(x, n=300):
    r = repr(x)
    return r if len(r) <= n else r[:n] + "..."


def guarded(res, clause, case_repr, replay, fn):
    """run fn(); an unexpected exception is a failure of the clause"""
    try:
        return fn()
    except Exception as e:   # noqa
        res.fail(clause, f"unexpected {type(e).__name__}: {e}", case_repr, replay)
        return _FAILED


_FAILED = object()
