"""Bounded stand-in harness: case bookkeeping, known-finding filter, result file.
Everything reported from here is labelled *bounded* and never counted as proved."""
import json
import os
import sys
import time
import traceback

VERIF = os.path.dirname(os.path.dirname(os.path.abspath(__file__)))


def _q(tier, quick, thorough):
    return quick if tier == "quick" else thorough


# The stated bounds of every bounded stand-in (what is enumerated / sampled in each tier); kept next to the
# harness so that every evidence file carries them.  "curated" = the 52 hand-written schemas of bounded/gen.py
# (every type, nesting, by-name references, recursive types, namespaces); "trees <= n" = every schema tree with at
# most n type nodes over the listed primitives; "boundary data" = gen.data_for: per type the boundary values
# (int/long extremes, +-0.0/inf/nan, empty/long/non-ASCII strings, empty and 1..3-element containers, every branch).
BOUNDS = {
    "C01": lambda t: {"schemas": f"curated + trees <= {_q(t, 3, 4)} over all primitives", "data": f"boundary data, <= {_q(t, 40, 'all')} per schema",
                      "checks": "round trip == NORM, exact consumption, back-to-back values"},
    "C02": lambda t: {"schemas": f"curated + trees <= {_q(t, 3, 4)}", "data": f"boundary data, <= {_q(t, 40, 'all')} per schema; wrong-length fixed"},
    "C03": lambda t: {"schemas": f"curated + trees <= {_q(t, 3, 4)}", "data": f"<= {_q(t, 24, 'all')} per schema", "encodings": "every block partition of arrays/maps up to 3 blocks, positive and negative counts",
                      "prefixes": "every proper prefix of every encoding", "indices": "every out-of-range union/enum index incl. negative"},
    "C04": lambda t: {"schemas": "curated + trees <= 2", "record sets": "[], 1, 7, 12 records", "codecs": _q(t, "null + one random of deflate/bzip2/xz", "null, deflate, bzip2, xz"),
                      "sync_interval": "1 byte .. larger than the file", "streams": "BytesIO, read-only sequential, write-only non-seekable"},
    "C05": lambda t: {"schemas": "curated + trees <= 2", "independent writer": "block partitions incl. empty blocks, metadata map in 1..3 chunks, codec key absent",
                      "fixtures": f"<= {_q(t, 12, 200)} files of /repo/tests/avro-files", "is_avro": "written files and a list of arbitrary byte strings (empty, short, near-magic)"},
    "C06": lambda t: {"files": "files of the C04 schema pool x 4 codecs (sync_interval 1 or 40) + one with values of 66000 / 70000 bytes", "cuts": _q(t, "every offset of files <= 700 bytes, 300 sampled + block boundaries otherwise", "every offset"),
                      "sync": f"every marker byte position {_q(t, '0, 7, 15', '0..15')} x single-bit flips"},
    "C07": lambda t: {"histories": f"{_q(t, 40, 600)} random histories of 3..13 operations over write / large write / failing write / flush / write_block / reopen for append; random codec, sync_interval in 1, 10, 50, 16000"},
    "C08": lambda t: {"writer schemas": "curated + trees <= 2 + by-reference pools", "reader schemas": f"single evolution steps at every position ({_q(t, '<= 30 sampled per schema', 'all')})",
                      "data": f"<= {_q(t, 6, 20)} values per writer schema"},
    "C09": lambda t: {"unions": "21 hand-written unions (incl. primitives spelled as objects) + by-name variants", "data": "branch data + cross-branch values, every (name, value) hint, every '-type' hint incl. wrong ones",
                      "options": "disable_tuple_notation x return_record_name / return_named_type and their overrides"},
    "C10": lambda t: {"schemas": f"curated + trees <= {_q(t, 2, 3)} + unions + nested-hint records", "data": f"conforming (<= {_q(t, 25, 'all')} per schema) + 16 single mutations of the first 6 + nested hints",
                      "modes": "raise_errors x strict x disable_tuple_notation; writer agreement; validation gate"},
    "C11": lambda t: {"valid schemas": "curated + trees <= 3 over int/string + namespace / attribute cases", "mutations": f"every listed ill-forming mutation at every position ({_q(t, '<= 40 sampled per schema', 'all')})"},
    "C12": lambda t: {"schemas": "as C11", "forms": "raw, parsed, piecewise-parsed against a shared name table", "operations": "binary, container, JSON, validate, canonical form, generate"},
    "C13": lambda t: {"schemas": "as C11 + Apache reference vectors of the test suite", "cosmetic edits": f"doc / aliases / defaults / order / custom and logical attributes / key order / name spelling ({_q(t, '<= 25 sampled', 'all')})"},
    "C14": lambda t: {"texts": f"canonical forms of 40 schemas + {_q(t, 300, 5000)} random texts incl. non-ASCII and > 64 bytes", "algorithms": "every name advertised + Java spellings + unknown names"},
    "C15": lambda t: {"schemas": f"curated + trees <= {_q(t, 2, 3)}", "data": f"boundary data <= {_q(t, 14, 'all')} per schema", "checks": "JSON text == spec JSON encoding, JSON round trip, agreement with binary, absent keys -> defaults"},
    "C16": lambda t: {"values": f"{_q(t, 300, 5000)} random + boundary dates / times / timestamps (aware with {_q(t, 'one random', 'every listed')} UTC offset, local), uuids",
                      "decimals": f"precisions {_q(t, '1, 2, 5, 9', '1..11')} x scales x bytes and fixed sizes, 29-45 digit values"},
    "C17": lambda t: {"histories": f"{_q(t, 150, 1500)} call histories over the public API with shared schema / name-table / option objects, compared with a fresh interpreter"},
    "C18": lambda t: {"threads": f"{_q(t, 30, 300)} rounds of 4 threads x 5 calls each on shared parsed schemas, switch interval 1e-6 s", "schedules": "pause-after-store for every store site the frame check flags (none on the unchanged tree)"},
    "C19": lambda t: {"graphs": f"the hand-written dependency graphs of bounded/c15.py:dags (shared types used from several places and depths, namespace-relative names, single file) + {_q(t, 12, 300)} random acyclic graphs of 2..7 types over two namespaces (references from fields, arrays, maps, unions; full and bare names) + every single missing file"},
    "C20": lambda t: {"schemas": "curated + trees <= 2 + logical types + non-record tops", "counts": _q(t, "n = 0, 1, 3 and generate_one, one random seed each", "n = 0, 1, 3, 2, 5, 1, 1, 1 and generate_one, one random seed each")},
}


class Result:
    def __init__(self, prop, tier, seed):
        self.prop = prop
        self.tier = tier
        self.seed = seed
        self.evaluations = 0
        self.distinct = set()
        self.failures = []       # dicts: clause, what, case (repr), replay (python snippet)
        self.known = []
        self.samples = []
        self.clauses = {}        # clause -> count
        self.t0 = time.time()
        self.bounds = BOUNDS.get(prop, lambda t: {})(tier)
        self.notes = []
        self.findings = load_findings(prop)

    def case(self, clause, key, nontrivial=True, sample=None):
        self.evaluations += 1
        self.clauses[clause] = self.clauses.get(clause, 0) + 1
        if nontrivial:
            self.distinct.add((clause, key))
        if sample is not None and len(self.samples) < 12 and self.clauses[clause] <= 2:
            self.samples.append({"clause": clause, "case": sample})

    def fail(self, clause, what, case, replay):
        """a concrete violation of `clause`; filtered through the known-findings list"""
        entry = {"clause": clause, "what": what, "case": case, "replay": replay}
        for f in self.findings:
            if f["clause"] == clause and f["match"](entry):
                self.known.append((f, _public(entry)))
                return
        self.failures.append(_public(entry))

    def to_json(self):
        return {
            "property": self.prop, "tier": self.tier, "seed": self.seed,
            "evaluations": self.evaluations, "distinct_nontrivial": len(self.distinct),
            "clauses": self.clauses, "bounds": self.bounds, "notes": self.notes,
            "failures": self.failures[:400], "n_failures": len(self.failures),
            "known": [{"id": f["id"], "what": f["what"], "example": e["case"]} for f, e in self.known[:50]],
            "known_ids": sorted({f["id"] for f, _ in self.known}),
            "samples": self.samples, "wall_s": round(time.time() - self.t0, 2),
        }


def _public(entry):
    """drop the raw objects (keys starting with '_') that known-finding predicates use"""
    e = dict(entry)
    if isinstance(e.get("case"), dict):
        e["case"] = {k: v for k, v in e["case"].items() if not k.startswith("_")}
    return e


def load_findings(prop):
    """known findings for the bounded checks: /verif/known_findings.py (committed, never
    written at run time): list of dicts(id, property, clause, what, match(entry)->bool)"""
    path = os.path.join(VERIF, "known_findings.py")
    if not os.path.exists(path):
        return []
    ns = {}
    exec(compile(open(path).read(), path, "exec"), ns)
    return [f for f in ns.get("BOUNDED", []) if f["property"] == prop and not f.get("fixed")]


def short(x, n=300):
    r = repr(x)
    return r if len(r) <= n else r[:n] + "..."


def guarded(res, clause, case_repr, replay, fn):
    """run fn(); an unexpected exception is a failure of the clause"""
    try:
        return fn()
    except Exception as e:   # noqa
        res.fail(clause, f"unexpected {type(e).__name__}: {e}", case_repr, replay)
        return _FAILED


_FAILED = object()
