"""Bounded stand-ins for C15 (JSON codec), C16 (logical types), C19 (load_schema) and
C20 (generate_*)."""
import copy
import datetime
import decimal
import io
import json
import math
import os
import random
import shutil
import tempfile
import uuid

import fastavro
from fastavro import json_writer, json_reader, schemaless_writer, schemaless_reader, writer, reader, parse_schema
from fastavro.schema import load_schema, load_schema_ordered, to_parsing_canonical_form
from fastavro._schema_common import UnknownType
from fastavro.validation import validate
from fastavro.utils import generate_one, generate_many

from spec import schema as SS
from spec import avro as A
from spec.norm import NORM
from spec.union import select, strip_hint, branch_name
from . import gen
from .harness import Result, short, guarded


# ------------------------------------------------------------------------ C15
def json_spec(s, ns, d, o, union_type=True):
    """the specification's JSON encoding of datum d (as a JSON-able Python object)"""
    t = A.TYPE(s)
    if t == "null":
        return None
    if t == "boolean":
        return bool(d)
    if t in ("int", "long"):
        return int(d)
    if t in ("float", "double"):
        return float(d)
    if t == "bytes":
        return bytes(d).decode("iso-8859-1")
    if t == "string":
        return d
    if isinstance(s, list):
        i = select(s, ns, d, o)
        v = strip_hint(d, o)
        b = s[i]
        if A.TYPE(b if not (isinstance(b, str) and b in ns) else "x") == "null" and b == "null":
            return None
        inner = json_spec(b, ns, v, o, union_type)
        if not union_type:
            return inner
        if isinstance(b, str) and b in ns:
            name = b
        else:
            name = branch_name(b)
        return {name: inner}
    if isinstance(s, str):
        return json_spec(ns[s], ns, d, o, union_type)
    if t == "fixed":
        return bytes(d).decode("iso-8859-1")
    if t == "enum":
        return d
    if t == "array":
        return [json_spec(s["items"], ns, x, o, union_type) for x in d]
    if t == "map":
        return {k: json_spec(s["values"], ns, v, o, union_type) for k, v in d.items()}
    if t in ("record", "error"):
        return {f["name"]: json_spec(f["type"], ns, A.FIELDVAL(f, d), o, union_type) for f in s["fields"]}
    raise ValueError(t)


def _plain(s, ns, d):
    """the datum with defaults filled in but numbers left as given"""
    t = A.TYPE(s)
    if isinstance(s, list):
        try:
            return _plain(s[select(s, ns, d, {})], ns, strip_hint(d, {}))
        except Exception:
            return d
    if isinstance(s, str) and s in ns:
        return _plain(ns[s], ns, d)
    if isinstance(s, dict):
        if t == "array":
            return [_plain(s["items"], ns, x) for x in d]
        if t == "map":
            return {k: _plain(s["values"], ns, v) for k, v in d.items()}
        if t in ("record", "error"):
            return {f["name"]: _plain(f["type"], ns, A.FIELDVAL(f, d)) for f in s["fields"]}
    if t == "bytes":
        return bytes(d)
    return d


def _json_safe(x):
    if isinstance(x, float):
        return not (math.isnan(x) or math.isinf(x))
    if isinstance(x, dict):
        return all(_json_safe(v) for v in x.values())
    if isinstance(x, (list, tuple)):
        return all(_json_safe(v) for v in x)
    return True


def _num_eq(a, b):
    """equality with numbers compared by value"""
    if isinstance(a, bool) or isinstance(b, bool):
        return a is b
    if isinstance(a, (int, float)) and isinstance(b, (int, float)):
        return a == b
    if isinstance(a, dict) and isinstance(b, dict):
        return set(a) == set(b) and all(_num_eq(a[k], b[k]) for k in a)
    if isinstance(a, (list, tuple)) and isinstance(b, (list, tuple)):
        return len(a) == len(b) and all(_num_eq(x, y) for x, y in zip(a, b))
    return a == b


def run_c15(tier, seed):
    res = Result("C15", tier, seed)
    rng = random.Random(seed)
    pool = list(gen.curated_schemas()) + list(gen.small_schemas(3 if tier != "quick" else 2, gen.PRIMS))
    pool.append({"type": "record", "name": "MK", "fields": [{"name": "k", "type": {"type": "map", "values": "int"}}, {"name": "v", "type": "int"}]})
    for raw in pool:
        try:
            p, ns = SS.parse_top(raw)
        except SS.Invalid:
            continue
        data = [d for d in gen.data_for(p, ns, rng) if A.CONFORMS(d, p, ns, {}) and _json_safe(d)]
        if isinstance(raw, dict) and raw.get("name") == "LinkedList":
            deep = None
            for i in range(4):
                deep = {"value": i, "next": deep}
                data.append(deep)
        data = [d for d in data if _encodable(p, ns, d)]
        # numbers under float/double restricted to values representable in the target width
        # (otherwise JSON and binary legitimately differ by the rounding of the binary form)
        data = [d for d in data if _num_eq(NORM(p, ns, d, {}), _plain(p, ns, d))]
        if tier == "quick" and len(data) > 14:
            data = data[:8] + rng.sample(data[8:], 6)
        for recs in ([[d] for d in data] + ([data[:3]] if len(data) > 1 else [])):
            case = {"schema": short(raw), "records": short(recs), "_p": p, "_ns": ns, "_recs": recs}
            rp = (f"import io, fastavro\ns = {raw!r}\nrecs = {recs!r}\nout = io.StringIO(); fastavro.json_writer(out, s, recs)\n"
                  f"print(out.getvalue()); print(list(fastavro.json_reader(io.StringIO(out.getvalue()), s)))\n")
            res.case("json_text_is_spec_encoding", (short(raw, 1200), short(recs, 800)), sample=case)
            out = io.StringIO()
            try:
                json_writer(out, raw, recs)
            except Exception as e:   # noqa
                res.fail("json_text_is_spec_encoding", f"json_writer raised {type(e).__name__}: {e}", case, rp)
                continue
            text = out.getvalue()
            lines = [l for l in text.split("\n") if l.strip()]
            try:
                docs = [json.loads(l) for l in lines]
            except Exception as e:   # noqa
                res.fail("json_text_is_spec_encoding", f"output is not one JSON document per line: {short(text)}", case, rp)
                continue
            want_docs = [json_spec(p, ns, d, {}) for d in recs]
            if len(docs) != len(recs) or not all(_num_eq(a, b) for a, b in zip(docs, want_docs)):
                res.fail("json_text_is_spec_encoding", f"wrote {short(docs)} but the specification's JSON encoding is {short(want_docs)}", case, rp)
                continue
            res.case("json_roundtrip", (short(raw, 1200), short(recs, 800)))
            try:
                back = list(json_reader(io.StringIO(text), raw))
            except Exception as e:   # noqa
                res.fail("json_roundtrip", f"json_reader raised {type(e).__name__}: {e}", case, rp)
                continue
            want = [NORM(p, ns, d, {}) for d in recs]
            if not _num_eq(back, want):
                res.fail("json_roundtrip", f"read back {short(back)} expected {short(want)}", case, rp)
                continue
            # agreement with the binary encoding of the same data
            fo = io.BytesIO()
            writer(fo, raw, recs)
            binv = list(reader(io.BytesIO(fo.getvalue())))
            if not _num_eq(back, binv):
                res.fail("json_equals_binary", f"JSON gives {short(back)}, binary gives {short(binv)}", case, rp)
        # absent keys take the schema defaults
        if isinstance(p, dict) and p.get("type") == "record" and any("default" in f for f in p["fields"]):
            base = gen.minimal_datum(p, ns, 0)
            if base is not gen._NONE and _json_safe(base):
                doc = json_spec(p, ns, base, {})
                for f in p["fields"]:
                    if "default" in f and _json_safe(f["default"]):
                        doc2 = {k: v for k, v in doc.items() if k != f["name"]}
                        res.case("absent_takes_default", (short(raw, 1200), f["name"]))
                        try:
                            for rep in range(2):     # twice: the default must survive a read
                                back = list(json_reader(io.StringIO(json.dumps(doc2) + "\n"), raw))
                                want = NORM(p, ns, {k: v for k, v in base.items() if k != f["name"]}, {})
                                if not _num_eq(back, [want]):
                                    res.fail("absent_takes_default", f"field {f['name']} omitted (read {rep + 1}): got {short(back)} expected {short([want])}",
                                             {"schema": short(raw), "field": f["name"], "_f": f}, "")
                                    break
                        except Exception as e:   # noqa
                            res.fail("absent_takes_default", f"{type(e).__name__}: {e}", {"schema": short(raw), "field": f["name"]}, "")
    return res


def _encodable(p, ns, d):
    try:
        A.ENC(p, ns, d, {})
        return True
    except (OverflowError, ValueError):
        return False


# ------------------------------------------------------------------------ C16
EPOCH = datetime.datetime(1970, 1, 1, tzinfo=datetime.timezone.utc)


def days(d):
    """days from 1970-01-01 by the proleptic Gregorian calendar (independent of toordinal)"""
    y, m, dd = d.year, d.month, d.day
    if m <= 2:
        y -= 1
        m += 12
    era = y // 400
    yoe = y - era * 400
    doy = (153 * (m - 3) + 2) // 5 + dd - 1
    doe = yoe * 365 + yoe // 4 - yoe // 100 + doy
    return era * 146097 + doe - 719468


def micros_utc(dt):
    off = dt.utcoffset() or datetime.timedelta(0)
    offus = (off.days * 86400 + off.seconds) * 10 ** 6 + off.microseconds
    return (days(dt.date()) * 86400 + dt.hour * 3600 + dt.minute * 60 + dt.second) * 10 ** 6 + dt.microsecond - offus


def twos(n, size):
    return (n % (1 << (8 * size))).to_bytes(size, "big")


def sch(base, lt, **kw):
    d = {"type": base, "logicalType": lt}
    d.update(kw)
    return d


def rt(schema, value):
    fo = io.BytesIO()
    schemaless_writer(fo, schema, value)
    b = fo.getvalue()
    return b, schemaless_reader(io.BytesIO(b), schema)


def run_c16(tier, seed):
    res = Result("C16", tier, seed)
    rng = random.Random(seed)
    from spec.core import long_bytes
    n = 300 if tier == "quick" else 5000
    # ---- dates
    dates = [datetime.date.min, datetime.date.max, datetime.date(1970, 1, 1), datetime.date(1969, 12, 31), datetime.date(2000, 2, 29),
             datetime.date(1900, 3, 1), datetime.date(1, 12, 31), datetime.date(9999, 1, 1)]
    dates += [datetime.date.fromordinal(rng.randrange(1, datetime.date.max.toordinal() + 1)) for _ in range(n)]
    for d in dates:
        res.case("date", d, sample={"date": str(d)})
        b, back = rt(sch("int", "date"), d)
        if b != long_bytes(days(d)) or back != d:
            res.fail("date", f"{d}: bytes {b.hex()} (spec {long_bytes(days(d)).hex()}), back {back}", {"date": str(d)}, "")
    # ---- time of day
    times = [datetime.time(0, 0, 0, 0), datetime.time(23, 59, 59, 999999), datetime.time(12, 0, 0, 1), datetime.time(0, 0, 0, 999),
             datetime.time(0, 0, 0, 1000), datetime.time(1, 2, 3, 4567)]
    times += [datetime.time(rng.randrange(24), rng.randrange(60), rng.randrange(60), rng.randrange(10 ** 6)) for _ in range(n)]
    for t in times:
        us = ((t.hour * 60 + t.minute) * 60 + t.second) * 10 ** 6 + t.microsecond
        for lt, base, unit in (("time-millis", "int", 1000), ("time-micros", "long", 1)):
            res.case(lt, t, sample={"time": str(t)})
            b, back = rt(sch(base, lt), t)
            tr = us // unit * unit
            want_back = datetime.time(tr // 3600000000, tr // 60000000 % 60, tr // 1000000 % 60, tr % 1000000)
            if b != long_bytes(us // unit) or back != want_back:
                res.fail(lt, f"{t}: bytes {b.hex()} (spec {long_bytes(us // unit).hex()}), back {back} expected {want_back}", {"time": str(t)}, "")
    # ---- timestamps (aware, any offset)
    tzs = [datetime.timezone.utc, datetime.timezone(datetime.timedelta(hours=5, minutes=30)), datetime.timezone(datetime.timedelta(hours=-11)),
           datetime.timezone(datetime.timedelta(hours=14)), datetime.timezone(datetime.timedelta(seconds=-1))]
    stamps = [datetime.datetime(1970, 1, 1, 0, 0, 0, 0), datetime.datetime(1969, 12, 31, 23, 59, 59, 999999), datetime.datetime(1, 1, 2, 0, 0, 0),
              datetime.datetime(9999, 12, 30, 23, 59, 59, 999999), datetime.datetime(2024, 2, 29, 12, 34, 56, 789012), datetime.datetime(1969, 12, 31, 23, 59, 59, 1)]
    stamps += [datetime.datetime.fromordinal(rng.randrange(2, datetime.date.max.toordinal() - 1)).replace(
        hour=rng.randrange(24), minute=rng.randrange(60), second=rng.randrange(60), microsecond=rng.randrange(10 ** 6)) for _ in range(n)]
    for naive in stamps:
        for tz in ([rng.choice(tzs)] if tier == "quick" else tzs):
            dt = naive.replace(tzinfo=tz)
            us = micros_utc(dt)
            for lt, unit in (("timestamp-millis", 1000), ("timestamp-micros", 1)):
                res.case(lt, (dt, lt), sample={"datetime": str(dt)})
                try:
                    b, back = rt(sch("long", lt), dt)
                except Exception as e:   # noqa
                    res.fail(lt, f"{dt}: {type(e).__name__}: {e}", {"datetime": str(dt)}, "")
                    continue
                want_back = EPOCH + datetime.timedelta(microseconds=us // unit * unit)
                if b != long_bytes(us // unit) or back != want_back or back.utcoffset() != datetime.timedelta(0):
                    res.fail(lt, f"{dt}: bytes {b.hex()} (spec {long_bytes(us // unit).hex()}), back {back} expected {want_back}", {"datetime": str(dt)}, "")
        usl = micros_utc(naive.replace(tzinfo=datetime.timezone.utc))
        for lt, unit in (("local-timestamp-millis", 1000), ("local-timestamp-micros", 1)):
            res.case(lt, (naive, lt))
            b, back = rt(sch("long", lt), naive)
            want_back = datetime.datetime(1970, 1, 1) + datetime.timedelta(microseconds=usl // unit * unit)
            if b != long_bytes(usl // unit) or back != want_back:
                res.fail(lt, f"{naive}: bytes {b.hex()} (spec {long_bytes(usl // unit).hex()}), back {back} expected {want_back}", {"datetime": str(naive)}, "")
    # ---- uuid
    for u in [uuid.UUID(int=0), uuid.UUID(int=2 ** 128 - 1)] + [uuid.UUID(int=rng.getrandbits(128)) for _ in range(50)]:
        res.case("uuid", u)
        b, back = rt(sch("string", "uuid"), u)
        s = str(u)
        if b != long_bytes(len(s)) + s.encode() or back != u:
            res.fail("uuid", f"{u}: bytes {b.hex()}, back {back}", {"uuid": s}, "")
    # ---- decimals
    def decimals(precision, scale):
        out = [decimal.Decimal(0), decimal.Decimal("-0")]
        top = 10 ** precision - 1
        for m in {0, 1, 9, 10, 99, 127, 128, 255, 256, 32767, 32768, top, top // 2, top + 1, 10 * top + 9}:
            for sign in (1, -1):
                for exp in range(-scale - 1, 3):
                    out.append(decimal.Decimal(sign * m).scaleb(exp))
        return out
    # beyond the default context precision (28 digits)
    for precision, scale, size in ((38, 4, None), (38, 4, 16), (30, 0, None), (45, 10, 20)):
        schema = sch("bytes", "decimal", precision=precision, scale=scale) if size is None else \
            {"type": "fixed", "name": f"DH{precision}_{scale}_{size}", "size": size, "logicalType": "decimal", "precision": precision, "scale": scale}
        for digits in (precision, precision - 1, 29, 28):
            for sign in ("", "-"):
                dg = tuple(((i * 7 + 3) % 10 or 1) for i in range(digits))
                d = decimal.Decimal((1 if sign else 0, dg, -scale))      # exact: no context rounding
                res.case("decimal", (precision, scale, size, str(d)))
                try:
                    b, back = rt(schema, d)
                except Exception as e:   # noqa
                    res.fail("decimal", f"{d} (p={precision}, s={scale}, size={size}) is representable but raised {type(e).__name__}: {e}",
                             {"decimal": str(d), "precision": precision, "scale": scale, "size": size}, "")
                    continue
                if back != d:
                    res.fail("decimal", f"{d} (p={precision}, s={scale}, size={size}) read back as {back}",
                             {"decimal": str(d), "precision": precision, "scale": scale, "size": size}, "")
    for precision in ([1, 2, 5, 9] if tier == "quick" else range(1, 12)):
        for scale in sorted({0, 1, precision // 2, precision}):
            if scale > precision:
                continue
            sizes = [None] + [sz for sz in (1, 2, 4, 8) if precision <= math.floor(math.log10(2) * (8 * sz - 1))]
            for size in sizes:
                schema = sch("bytes", "decimal", precision=precision, scale=scale) if size is None else \
                    {"type": "fixed", "name": f"D{precision}_{scale}_{size}", "size": size, "logicalType": "decimal", "precision": precision, "scale": scale}
                for d in decimals(precision, scale):
                    sign, digits, exp = d.as_tuple()
                    digits_n = len(digits) if any(digits) else 1
                    unscaled_exact = exp + scale >= 0
                    unscaled = int(d.scaleb(scale)) if unscaled_exact else None
                    fits = unscaled_exact and len(digits) <= precision
                    if fits and size is not None and not (-(1 << (8 * size - 1)) <= unscaled < (1 << (8 * size - 1))):
                        fits = False
                    res.case("decimal", (precision, scale, size, str(d)), sample={"decimal": str(d), "precision": precision, "scale": scale, "size": size})
                    case = {"decimal": str(d), "precision": precision, "scale": scale, "size": size}
                    rp = (f"import io, decimal, fastavro\ns = {schema!r}\nfo = io.BytesIO(); fastavro.schemaless_writer(fo, s, decimal.Decimal({str(d)!r}))\n"
                          f"print(fo.getvalue().hex(), fastavro.schemaless_reader(io.BytesIO(fo.getvalue()), s))\n")
                    try:
                        b, back = rt(schema, d)
                    except Exception as e:   # noqa
                        if fits:
                            res.fail("decimal", f"{d} (p={precision}, s={scale}, size={size}) is representable but writing raised {type(e).__name__}: {e}", case, rp)
                        continue
                    if not fits:
                        if back != d:
                            res.fail("decimal", f"{d} (p={precision}, s={scale}, size={size}) cannot be represented, yet it was stored (as {back}) instead of raising", case, rp)
                        continue
                    payload = b if size is not None else b[len(long_bytes(len(b) - 1)) if False else 1:] if len(b) < 65 else b
                    if size is not None:
                        if b != twos(unscaled, size):
                            res.fail("decimal", f"{d}: fixed bytes {b.hex()} expected {twos(unscaled, size).hex()}", case, rp)
                    else:
                        raw_bytes = _strip_len(b)
                        if int.from_bytes(raw_bytes, "big", signed=True) != unscaled or len(raw_bytes) < 1:
                            res.fail("decimal", f"{d}: bytes {raw_bytes.hex()} do not encode the unscaled value {unscaled}", case, rp)
                    if back != d:
                        res.fail("decimal", f"{d}: read back {back}", case, rp)
    return res


def _strip_len(b):
    from spec.decode import read_long
    n, pos = read_long(b, 0)
    return b[pos:pos + n]


# ------------------------------------------------------------------------ C19
def dags(rng, tier):
    """dependency graphs of named types: (types: name -> schema with by-name references, top name)"""
    out = []
    base = {
        "com.A": {"type": "record", "name": "com.A", "fields": [{"name": "b", "type": "com.B"}, {"name": "c", "type": {"type": "array", "items": "com.C"}},
                                                               {"name": "b2", "type": ["null", "com.B"]}]},
        "com.B": {"type": "record", "name": "B", "namespace": "com", "fields": [{"name": "c", "type": "C"}, {"name": "e", "type": "com.E"}]},
        "com.C": {"type": "record", "name": "com.C", "fields": [{"name": "f", "type": "com.F"}, {"name": "m", "type": {"type": "map", "values": "E"}}]},
        "com.E": {"type": "enum", "name": "com.E", "symbols": ["X", "Y"]},
        "com.F": {"type": "fixed", "name": "F", "namespace": "com", "size": 3},
    }
    out.append((base, "com.A"))
    out.append(({k: base[k] for k in ("com.C", "com.E", "com.F")}, "com.C"))
    out.append(({"P": {"type": "record", "name": "P", "fields": [{"name": "q", "type": "other.Q"}, {"name": "q2", "type": "other.Q"}, {"name": "o", "type": "other.R"}]},
                 "other.Q": {"type": "enum", "name": "other.Q", "symbols": ["A"]},
                 "other.R": {"type": "record", "name": "other.R", "fields": [{"name": "q", "type": {"type": "array", "items": "Q"}}, {"name": "s", "type": "S"}]},
                 "other.S": {"type": "fixed", "name": "other.S", "size": 1}}, "P"))
    out.append(({"One": {"type": "record", "name": "One", "fields": [{"name": "x", "type": "int"}]}}, "One"))
    out.append(({"T": {"type": "record", "name": "T", "fields": [{"name": "u", "type": ["null", "U", "V"]}, {"name": "v", "type": {"type": "map", "values": "V"}}]},
                 "U": {"type": "record", "name": "U", "fields": [{"name": "v", "type": "V"}]},
                 "V": {"type": "enum", "name": "V", "symbols": ["K", "L"]}}, "T"))
    for _ in range(12 if tier == "quick" else 300):
        out.append(random_dag(rng))
    return out


def random_dag(rng):
    """a random acyclic dependency graph of 2..7 named types over two namespaces: type i refers only to types
    j > i (so the graph is acyclic), from fields, arrays, maps and unions, by full name or -- inside the same
    namespace -- by bare name; leaves are enums / fixed / records without references; several types are used
    from more than one place and depth.  Every type is reachable from type 0 (the top)."""
    n = rng.randrange(2, 8)
    nss = [rng.choice(["g", "h.k"]) for _ in range(n)]
    names = [f"{nss[i]}.T{i}" for i in range(n)]
    types = {}
    for i in reversed(range(n)):
        later = list(range(i + 1, n))
        kind = "record" if later and (i == 0 or rng.random() < 0.75) else rng.choice(["enum", "fixed", "record"])
        if kind == "enum":
            types[names[i]] = {"type": "enum", "name": names[i], "symbols": ["S0", "S1"]}
            continue
        if kind == "fixed":
            types[names[i]] = {"type": "fixed", "name": f"T{i}", "namespace": nss[i], "size": rng.randrange(1, 4)}
            continue
        fields = [{"name": "p", "type": rng.choice(["int", "string"])}]
        # make sure i+1 is referenced by somebody at or before i (reachability), plus random further references
        targets = ([i + 1] if later else []) + [j for j in later if rng.random() < 0.4]
        for k, j in enumerate(targets):
            ref = names[j] if (nss[j] != nss[i] or rng.random() < 0.5) else f"T{j}"
            shape = rng.choice(["plain", "array", "map", "union"])
            ft = {"plain": ref, "array": {"type": "array", "items": ref}, "map": {"type": "map", "values": ref}, "union": ["null", ref]}[shape]
            fields.append({"name": f"f{k}", "type": ft})
        spell = rng.random() < 0.5
        types[names[i]] = ({"type": "record", "name": names[i], "fields": fields} if spell
                           else {"type": "record", "name": f"T{i}", "namespace": nss[i], "fields": fields})
    return types, names[0]


def inline(types, top):
    """the same types inlined at their first use (depth-first, in field order)"""
    done = set()

    def go(s, enclosing):
        if isinstance(s, list):
            return [go(b, enclosing) for b in s]
        if isinstance(s, str):
            if s in SS.PRIMITIVES:
                return s
            ref = s if ("." in s or not enclosing) else f"{enclosing}.{s}"
            if ref in types and ref not in done:
                return go(copy.deepcopy(types[ref]), enclosing)
            return ref if ref in types else s
        if isinstance(s, dict):
            t = s.get("type")
            out = dict(s)
            if t in ("record", "enum", "fixed"):
                nsp, full = SS.fullname(s["name"], s.get("namespace"), enclosing)
                done.add(full)
                if t == "record":
                    out["fields"] = [{**f, "type": go(f["type"], nsp)} for f in s["fields"]]
                return out
            if t == "array":
                out["items"] = go(s["items"], enclosing)
            elif t == "map":
                out["values"] = go(s["values"], enclosing)
            return out
        return s
    return go(copy.deepcopy(types[top]), "")


def order_deps_first(types, top):
    order = []

    def visit(name, enclosing):
        if name in order:
            return
        s = types[name]
        nsp, full = SS.fullname(s["name"], s.get("namespace"), "")

        def refs(x):
            if isinstance(x, list):
                for b in x:
                    yield from refs(b)
            elif isinstance(x, str):
                if x not in SS.PRIMITIVES:
                    r = x if "." in x or not nsp else f"{nsp}.{x}"
                    if r in types:
                        yield r
            elif isinstance(x, dict):
                if x.get("type") == "record":
                    for f in x["fields"]:
                        yield from refs(f["type"])
                elif x.get("type") == "array":
                    yield from refs(x["items"])
                elif x.get("type") == "map":
                    yield from refs(x["values"])
        for r in refs(s):
            if r != name:
                visit(r, nsp)
        order.append(name)
    visit(top, "")
    return order


def run_c19(tier, seed):
    res = Result("C19", tier, seed)
    rng = random.Random(seed)
    for types, top in dags(rng, tier):
        d = tempfile.mkdtemp(prefix="c19_")
        try:
            for name, s in types.items():
                json.dump(s, open(os.path.join(d, f"{name}.avsc"), "w"))
            want_raw = inline(types, top)
            p, ns = SS.parse_top(want_raw)
            want_pcf = SS.pcf(p)
            case = {"types": sorted(types), "top": top}
            res.case("equals_inlined", (top, tuple(sorted(types))), sample=case)

            def body():
                loaded = load_schema(os.path.join(d, f"{top}.avsc"))
                if to_parsing_canonical_form(loaded) != want_pcf:
                    res.fail("equals_inlined", f"canonical form {to_parsing_canonical_form(loaded)} vs inlined {want_pcf}", case, "")
                    return
                for dat in [x for x in gen.data_for(p, ns, rng) if A.CONFORMS(x, p, ns, {})][:6]:
                    fo = io.BytesIO()
                    schemaless_writer(fo, loaded, dat)
                    if fo.getvalue() != A.ENC(p, ns, dat, {}):
                        res.fail("equals_inlined", f"encoding of {short(dat)} differs from the inlined schema", case, "")
                order = [os.path.join(d, f"{n}.avsc") for n in order_deps_first(types, top)]
                lo = load_schema_ordered(order)
                if to_parsing_canonical_form(lo) != want_pcf:
                    res.fail("ordered_equals_inlined", f"load_schema_ordered: {to_parsing_canonical_form(lo)} vs {want_pcf}", case, "")
            guarded(res, "equals_inlined", case, "", body)
            # every single file missing (that is actually needed)
            needed = order_deps_first(types, top)
            for miss in needed:
                if miss == top:
                    continue
                d2 = tempfile.mkdtemp(prefix="c19m_")
                try:
                    for name, s in types.items():
                        if name != miss:
                            json.dump(s, open(os.path.join(d2, f"{name}.avsc"), "w"))
                    res.case("missing_file_named", (top, miss))
                    try:
                        load_schema(os.path.join(d2, f"{top}.avsc"))
                        res.fail("missing_file_named", f"no error although {miss}.avsc is missing", {"top": top, "missing": miss}, "")
                    except UnknownType as e:
                        if e.name != miss:
                            res.fail("missing_file_named", f"error names {e.name!r}, the missing type is {miss!r}", {"top": top, "missing": miss}, "")
                    except Exception as e:   # noqa
                        if miss not in str(e):
                            res.fail("missing_file_named", f"{type(e).__name__}: {e} does not name {miss}", {"top": top, "missing": miss}, "")
                finally:
                    shutil.rmtree(d2, ignore_errors=True)
        finally:
            shutil.rmtree(d, ignore_errors=True)
    return res


# ------------------------------------------------------------------------ C20
def logical_schemas():
    return [
        {"type": "record", "name": "L", "fields": [
            {"name": "d", "type": sch("int", "date")}, {"name": "tm", "type": sch("int", "time-millis")},
            {"name": "tu", "type": sch("long", "time-micros")}, {"name": "sm", "type": sch("long", "timestamp-millis")},
            {"name": "su", "type": sch("long", "timestamp-micros")}, {"name": "lm", "type": sch("long", "local-timestamp-millis")},
            {"name": "lu", "type": sch("long", "local-timestamp-micros")}, {"name": "u", "type": sch("string", "uuid")}]},
        # decimals: scale omitted, 0 and positive; bytes and fixed; alone, nested and by reference
        {"type": "bytes", "logicalType": "decimal", "precision": 6},
        {"type": "bytes", "logicalType": "decimal", "precision": 6, "scale": 0},
        {"type": "record", "name": "LD", "fields": [
            {"name": "a", "type": {"type": "bytes", "logicalType": "decimal", "precision": 10, "scale": 3}},
            {"name": "b", "type": {"type": "fixed", "name": "Dec4", "size": 4, "logicalType": "decimal", "precision": 9}},
            {"name": "c", "type": {"type": "fixed", "name": "Dec8", "size": 8, "logicalType": "decimal", "precision": 18, "scale": 0}},
            {"name": "d", "type": ["null", "Dec4"]}]},
    ]


def nonrecord_tops():
    key = {"type": "record", "name": "demo.Key", "fields": [{"name": "k", "type": "int"}]}
    suit = {"type": "enum", "name": "Suit", "symbols": ["H", "S"]}
    return [
        {"type": "array", "items": {"type": "record", "name": "Pair", "fields": [{"name": "a", "type": key}, {"name": "b", "type": "demo.Key"}]}},
        {"type": "map", "values": {"type": "record", "name": "Hand", "fields": [{"name": "s", "type": suit}, {"name": "t", "type": ["null", "Suit"]}]}},
        [{"type": "array", "items": {"type": "record", "name": "Node", "fields": [{"name": "v", "type": "int"}, {"name": "next", "type": ["null", "Node"]}]}}, "null"],
        ["null", {"type": "map", "values": {"type": "fixed", "name": "Fz2", "size": 2}}, {"type": "array", "items": "Fz2"}],
    ]


def run_c20(tier, seed):
    res = Result("C20", tier, seed)
    rng = random.Random(seed)
    pool = list(gen.curated_schemas()) + list(gen.small_schemas(2, gen.PRIMS)) + logical_schemas() + nonrecord_tops()
    for raw in pool:
        try:
            p, ns = SS.parse_top(raw)
        except SS.Invalid:
            continue
        if _requires_itself(p, ns):
            continue
        for n in ((0, 1, 3) if tier == "quick" else (0, 1, 3, 2, 5, 1, 1, 1)):
            random.seed(rng.randrange(10 ** 9))
            case = {"schema": short(raw), "n": n}
            res.case("count_and_conformance", (short(raw, 1200), n), sample=case)

            def body():
                vals = list(generate_many(copy.deepcopy(raw), n))
                if len(vals) != n:
                    res.fail("count_and_conformance", f"{len(vals)} values for n={n}", case, "")
                for v in vals + [generate_one(copy.deepcopy(raw))]:
                    if not validate(v, raw, raise_errors=False):
                        res.fail("count_and_conformance", f"generated value does not validate: {short(v)}", case, "")
                        continue
                    fo = io.BytesIO()
                    schemaless_writer(fo, raw, v)
                    schemaless_reader(io.BytesIO(fo.getvalue()), raw)
                    fo = io.BytesIO()
                    writer(fo, raw, [v])
                    list(reader(io.BytesIO(fo.getvalue())))
            guarded(res, "count_and_conformance", case, "", body)
    return res


def _requires_itself(p, ns, seen=(), depth=0):
    """a record that (without a union/array/map in between) contains itself has no finite value"""
    if depth > 12:
        return True
    if isinstance(p, str) and p in ns:
        if p in seen:
            return True
        return _requires_itself(ns[p], ns, seen + (p,), depth + 1)
    if isinstance(p, dict) and p.get("type") in ("record", "error"):
        nm = p["name"]
        return any(_requires_itself(f["type"], ns, seen + (nm,), depth + 1) for f in p["fields"])
    return False
