"""python -m bounded.run <Cxx> --tier quick|thorough --seed N --out file.json"""
import argparse
import importlib
import json
import sys

TABLE = {
    "C01": ("bounded.c01", "run_c01"), "C02": ("bounded.c01", "run_c02"), "C03": ("bounded.c01", "run_c03"),
    "C04": ("bounded.c04", "run_c04"), "C05": ("bounded.c04", "run_c05"), "C06": ("bounded.c04", "run_c06"), "C07": ("bounded.c04", "run_c07"),
    "C08": ("bounded.c08", "run_c08"),
    "C09": ("bounded.c09", "run_c09"), "C10": ("bounded.c09", "run_c10"),
    "C11": ("bounded.c11", "run_c11"), "C12": ("bounded.c11", "run_c12"), "C13": ("bounded.c11", "run_c13"), "C14": ("bounded.c11", "run_c14"),
    "C15": ("bounded.c15", "run_c15"), "C16": ("bounded.c15", "run_c16"), "C19": ("bounded.c15", "run_c19"), "C20": ("bounded.c15", "run_c20"),
    "C17": ("bounded.c17", "run_c17"), "C18": ("bounded.c17", "run_c18"),
}


def main():
    ap = argparse.ArgumentParser()
    ap.add_argument("prop")
    ap.add_argument("--tier", default="quick")
    ap.add_argument("--seed", type=int, default=0)
    ap.add_argument("--out", default=None)
    a = ap.parse_args()
    modname, fn = TABLE[a.prop]
    mod = importlib.import_module(modname)
    res = getattr(mod, fn)(a.tier, a.seed)
    js = res.to_json()
    if a.out:
        json.dump(js, open(a.out, "w"), indent=1, default=repr)
    print(json.dumps({k: js[k] for k in ("property", "evaluations", "distinct_nontrivial", "n_failures", "known_ids", "wall_s")}))
    for f in js["failures"][:8]:
        print("FAIL", f["clause"], f["what"][:200], f["case"])
    return 0


if __name__ == "__main__":
    sys.exit(main())
