"""Bounded stand-in for C01 / C02 / C03 (property-level, against the spec oracles)."""
import io
import random

import fastavro
from fastavro import schemaless_writer, schemaless_reader, parse_schema

from spec import schema as SS
from spec import avro as A
from spec.norm import NORM
from spec.union import select
from . import gen
from .harness import Result, short, guarded, _FAILED


def schemas(tier):
    out = list(gen.curated_schemas())
    n = 3 if tier == "quick" else 4
    out += list(gen.small_schemas(n, gen.LEAVES_SMALL if n > 3 else gen.PRIMS))
    return out


def prepared(raw):
    try:
        p, ns = SS.parse_top(raw)
    except SS.Invalid:
        return None
    return p, ns


REPLAY = """import io, fastavro
schema = {schema!r}
datum = {datum!r}
fo = io.BytesIO(); fastavro.schemaless_writer(fo, schema, datum)
print(fo.getvalue().hex()); fo.seek(0); print(fastavro.schemaless_reader(fo, schema))
"""


def run_c01(tier, seed):
    res = Result("C01", tier, seed)
    rng = random.Random(seed)
    opts = {}
    for raw in schemas(tier):
        pr = prepared(raw)
        if pr is None:
            continue
        p, ns = pr
        data = gen.data_for(p, ns, rng)
        if tier == "quick" and len(data) > 40:
            data = data[:25] + rng.sample(data[25:], 15)
        fa_parsed = parse_schema(raw)
        for form, sch in (("raw", raw), ("parsed", fa_parsed)):
            for d in data:
                if not A.CONFORMS(d, p, ns, opts):
                    continue
                case = {"schema": short(raw), "datum": short(d), "form": form}
                rp = REPLAY.format(schema=raw, datum=d)
                res.case("roundtrip", (short(raw, 2000), short(d, 2000), form), sample=case)

                def body():
                    try:
                        expect = NORM(p, ns, d, opts)
                    except OverflowError:
                        return
                    fo = io.BytesIO()
                    try:
                        schemaless_writer(fo, sch, d)
                    except OverflowError:
                        return      # number too large for the float width: excluded by the property
                    one = fo.getvalue()
                    schemaless_writer(fo, sch, d)
                    fo.write(b"\xa5")
                    fo.seek(0)
                    r1 = schemaless_reader(fo, sch)
                    pos1 = fo.tell()
                    r2 = schemaless_reader(fo, sch)
                    tail = fo.read()
                    if not gen.same(r1, expect):
                        res.fail("roundtrip", f"read back {short(r1)} expected {short(expect)}", case, rp)
                    elif pos1 != len(one) or not gen.same(r2, expect) or tail != b"\xa5":
                        res.fail("exact_consumption", f"pos {pos1} vs {len(one)}, tail {tail!r}", case, rp)
                guarded(res, "roundtrip", case, rp, body)
    return res


def run_c02(tier, seed):
    res = Result("C02", tier, seed)
    rng = random.Random(seed)
    opts = {}
    for raw in schemas(tier):
        pr = prepared(raw)
        if pr is None:
            continue
        p, ns = pr
        data = gen.data_for(p, ns, rng)
        if tier == "quick" and len(data) > 40:
            data = data[:25] + rng.sample(data[25:], 15)
        for d in data:
            if not A.CONFORMS(d, p, ns, opts):
                continue
            case = {"schema": short(raw), "datum": short(d)}
            rp = REPLAY.format(schema=raw, datum=d)
            res.case("bytes_equal_spec", (short(raw, 2000), short(d, 2000)), sample=case)

            def body():
                fo = io.BytesIO()
                try:
                    schemaless_writer(fo, raw, d)
                except OverflowError:
                    return
                got = fo.getvalue()
                want = A.ENC(p, ns, d, opts)
                if got != want:
                    res.fail("bytes_equal_spec", f"wrote {got.hex()} spec says {want.hex()}", case, rp)
                # the selected union branches are ones the datum conforms to: decode with the
                # independent spec decoder (VALUE of the writer's own layout)
            guarded(res, "bytes_equal_spec", case, rp, body)
        # fixed of the wrong length must raise and write nothing
        if isinstance(p, dict) and p.get("type") == "fixed":
            for bad in (b"", b"x" * (p["size"] + 1), b"y" * max(0, p["size"] - 1)):
                if len(bad) == p["size"]:
                    continue
                res.case("fixed_length", (short(raw), bad))
                fo = io.BytesIO()
                try:
                    schemaless_writer(fo, raw, bad)
                    res.fail("fixed_length", "no exception for fixed of wrong length", {"schema": short(raw), "datum": bad}, "")
                except (ValueError, TypeError):
                    if fo.getvalue():
                        res.fail("fixed_length", "bytes written before the error", {"schema": short(raw), "datum": bad}, "")
    return res


REPLAY3 = """import io, fastavro
schema = {schema!r}
data = bytes.fromhex({hexs!r})
fo = io.BytesIO(data); print(fastavro.schemaless_reader(fo, schema), fo.tell(), len(data))
"""


def run_c03(tier, seed):
    res = Result("C03", tier, seed)
    rng = random.Random(seed)
    for raw in schemas(tier):
        pr = prepared(raw)
        if pr is None:
            continue
        p, ns = pr
        data = [d for d in gen.data_for(p, ns, rng) if A.CONFORMS(d, p, ns, {})]
        if tier == "quick" and len(data) > 24:
            data = data[:12] + rng.sample(data[12:], 12)
        ws = gen.derivations_for(p, ns, data, rng)
        # skip path: the value sits in a writer-only field in front of a marker field
        wrapper_w = {"type": "record", "name": "zz.Wrap", "fields": [{"name": "skipme", "type": raw}, {"name": "mark", "type": "int"}]}
        wrapper_r = {"type": "record", "name": "zz.Wrap", "fields": [{"name": "mark", "type": "int"}]}
        try:
            SS.parse_top(wrapper_w)
            wrap_ok = True
        except SS.Invalid:
            wrap_ok = False
        for w in ws:
            if not A.WFW(p, ns, w):
                res.notes.append("generator produced an ill-formed derivation")
                continue
            enc = A.BYTES(p, ns, w)
            want = A.VALUE(p, ns, w)
            case = {"schema": short(raw), "w": short(w), "bytes": enc.hex()[:200]}
            rp = REPLAY3.format(schema=raw, hexs=(enc + b"\x7e").hex())
            res.case("decode_any_valid_encoding", (short(raw, 2000), enc), sample=case)

            def body():
                fo = io.BytesIO(enc + b"\x7e")
                got = schemaless_reader(fo, raw)
                if not gen.same(got, want):
                    res.fail("decode_any_valid_encoding", f"got {short(got)} want {short(want)}", case, rp)
                elif fo.tell() != len(enc):
                    res.fail("decode_any_valid_encoding", f"consumed {fo.tell()} of {len(enc)}", case, rp)
            guarded(res, "decode_any_valid_encoding", case, rp, body)
            if wrap_ok:
                res.case("skip_any_valid_encoding", (short(raw, 2000), enc))

                def body2():
                    fo = io.BytesIO(enc + b"\x54" + b"\x7e")     # mark = 42
                    got = schemaless_reader(fo, wrapper_w, wrapper_r)
                    if got != {"mark": 42} or fo.tell() != len(enc) + 1:
                        res.fail("skip_any_valid_encoding", f"after skipping: {short(got)} pos {fo.tell()} of {len(enc) + 1}", case, rp)
                guarded(res, "skip_any_valid_encoding", case, rp, body2)
            # every proper prefix raises
            cuts = range(len(enc)) if len(enc) <= 40 else sorted(set(list(range(12)) + rng.sample(range(len(enc)), 20)))
            for cut in cuts:
                res.case("proper_prefix_raises", (short(raw, 2000), enc, cut), nontrivial=cut > 0)
                fo = io.BytesIO(enc[:cut])
                try:
                    got = schemaless_reader(fo, raw)
                    res.fail("proper_prefix_raises", f"prefix of {cut}/{len(enc)} bytes decoded to {short(got)}",
                             {"schema": short(raw), "bytes": enc[:cut].hex()}, REPLAY3.format(schema=raw, hexs=enc[:cut].hex()))
                except Exception:
                    pass
        # out-of-range union / enum indices
        for kind, size in index_sites(p):
            for idx in (-1, -size, -size - 1, size, size + 5):
                enc = _long(idx)
                res.case("bad_index_raises", (short(raw, 2000), idx))
                fo = io.BytesIO(enc + b"\x02\x02\x61" * 3)
                try:
                    got = schemaless_reader(fo, raw)
                    res.fail("bad_index_raises", f"{kind} index {idx} (size {size}) decoded to {short(got)}",
                             {"schema": short(raw), "index": idx, "size": size, "kind": kind},
                             REPLAY3.format(schema=raw, hexs=(enc + b"\x02\x02\x61" * 3).hex()))
                except Exception:
                    pass
    return res


def index_sites(p):
    """top-level union / enum (index is the first thing on the wire)"""
    if isinstance(p, list):
        yield "union", len(p)
    elif isinstance(p, dict) and p.get("type") == "enum":
        yield "enum", len(p["symbols"])


def _long(n):
    from spec.core import long_bytes
    return long_bytes(n)
