"""Sidecar contract loader (DESIGN.md 3.1).

Contract files are ordinary Python modules under /verif/contracts; only their AST
is used by the verifier (clauses are translated by the same translator as the
code), and the modules stay importable so the clauses can also be executed.
"""
import ast
import os


# ---- the (run-time no-op) DSL used inside contract files -------------------
def target(module, qualname, behavior="default"):
    def deco(cls):
        cls.__pyvc_target__ = (module, qualname, behavior)
        return cls
    return deco


def external(name, behavior="default"):
    def deco(cls):
        cls.__pyvc_external__ = (name, behavior)
        return cls
    return deco


def lemma(name):
    def deco(cls):
        cls.__pyvc_lemma__ = name
        return cls
    return deco


def R(exc, when=None, ensures=None, must=True):
    return (exc, when, ensures, must)


def implies(a, b):
    return (not a) or b


def same(a, b):
    """(clause helper) the two expressions denote the very same value (term equality in the logic)"""
    return a is b or a == b


def table_key(fn):
    """(clause helper) the key under which a function drawn from a dispatch table is registered"""
    return getattr(fn, "__table_key__", None)


class RaiseClause:
    def __init__(self, exc, when, ensures, must):
        self.exc = exc
        self.when = when
        self.ensures = ensures
        self.must = must


class Contract:
    def __init__(self):
        self.kind = "target"       # target | external | lemma
        self.module = None
        self.qualname = None
        self.behavior = "default"
        self.name = None           # class name in the contracts file
        self.file = None
        self.specmod = None
        self.types = {}
        self.ghosts = {}
        self.requires = None
        self.ensures = None
        self.modifies = []
        self.raises = []
        self.loops = {}
        self.loop_ghosts = {}      # loop key -> {ghost name -> (init expr, step expr)}
        self.entry_asserts = []
        self.return_hints = []     # lemma instances assumed at return points (locals and `result` visible)
        self.yield_view = None     # generators yielding objects: lambda obj: tuple of its fields recorded in `yielded`
        self.lib_arith = False
        self.yield_hints = []
        self.opaque_here = []      # spec functions not to unfold in this contract's obligations
        self.unfold_here = []      # lazily unfolded spec functions (verifier.LAZY_SPECS) to unfold here
        self.loop_hints = {}       # loop key -> [lemma-instance lambdas] assumed at the head of the body
        self.exit_hints = {}       # loop key -> [lemma-instance lambdas] assumed after the loop
        self.call_hints = {}       # call key ("callee#k" or "callee") -> [lemma-instance lambdas] assumed before the call
        self.call_ghosts = {}
        self.call_behaviors = {}
        self.returns = "py"
        self.fuel = None
        self.trusted = False
        self.inline = False
        self.uses_locals = []
        self.params = None         # for externals / lemmas: explicit parameter list
        self.body = None           # lemma body (list of stmts) or None
        self.notes = ""
        self.lineno = 0
        self.timeout = None
        self.covers = True
        self.allocs = {}
        self.fresh_result = None
        self.decreases = None
        self.hints = []
        self.bv_locals = []
        self.case_split = {}       # obligation-name suffix -> (expression source, number of cases)

    @property
    def key(self):
        return (self.module, self.qualname, self.behavior)

    def __repr__(self):
        return f"<Contract {self.module}:{self.qualname}[{self.behavior}]>"


def _lam(node):
    if node is None or (isinstance(node, ast.Constant) and node.value is None):
        return None
    if isinstance(node, ast.Lambda):
        return node.body
    raise ValueError(f"clause must be a lambda (line {node.lineno})")


_ENV = {}


def _lit(node):
    if isinstance(node, ast.Name) and node.id in _ENV:
        return _ENV[node.id]
    return ast.literal_eval(node)


def _dict_of(node, valfn):
    out = {}
    if isinstance(node, ast.Call) and isinstance(node.func, ast.Name) and node.func.id == "dict":
        for kw in node.keywords:
            out[kw.arg] = valfn(kw.value)
        return out
    if isinstance(node, ast.Dict):
        for k, v in zip(node.keys, node.values):
            out[_lit(k)] = valfn(v)
        return out
    raise ValueError("dict expected")


def load_file(path, modname):
    src = open(path).read()
    tree = ast.parse(src)
    out = []
    _ENV.clear()
    for st in tree.body:
        if isinstance(st, ast.Assign) and len(st.targets) == 1 and isinstance(st.targets[0], ast.Name) \
                and isinstance(st.value, ast.Constant) and isinstance(st.value.value, str):
            _ENV[st.targets[0].id] = st.value.value
    for st in tree.body:
        if not isinstance(st, ast.ClassDef):
            continue
        c = None
        for d in st.decorator_list:
            if isinstance(d, ast.Call) and isinstance(d.func, ast.Name) and d.func.id in ("target", "external", "lemma"):
                c = Contract()
                c.kind = d.func.id
                args = [_lit(a) for a in d.args]
                kw = {k.arg: _lit(k.value) for k in d.keywords}
                if c.kind == "target":
                    c.module, c.qualname = args[0], args[1]
                    c.behavior = kw.get("behavior", args[2] if len(args) > 2 else "default")
                elif c.kind == "external":
                    c.module, c.qualname = "<external>", args[0]
                    c.behavior = kw.get("behavior", args[1] if len(args) > 1 else "default")
                else:
                    c.module, c.qualname = "<lemma>", args[0]
        if c is None:
            continue
        c.name = st.name
        c.file = path
        c.specmod = modname
        c.lineno = st.lineno
        for b in st.body:
            if isinstance(b, ast.Expr) and isinstance(b.value, ast.Constant):
                c.notes = str(b.value.value)
                continue
            if isinstance(b, ast.FunctionDef) and b.name == "body":
                c.body = b
                continue
            if not (isinstance(b, ast.Assign) and len(b.targets) == 1 and isinstance(b.targets[0], ast.Name)):
                continue
            nm, val = b.targets[0].id, b.value
            if nm == "types":
                c.types = _dict_of(val, _lit)
            elif nm == "ghosts":
                c.ghosts = _dict_of(val, _lit)
            elif nm == "decreases":
                c.decreases = _lam(val)
            elif nm == "hints":
                c.hints = [_lam(e) for e in val.elts]
            elif nm == "return_hints":
                c.return_hints = [_lam(e) for e in val.elts]
            elif nm == "entry_asserts":
                # ghost assertions at function entry: each is an obligation (proved from the precondition)
                # and then available on every path -- keeps later queries from re-deriving it
                c.entry_asserts = [_lam(e) for e in val.elts]
            elif nm == "requires":
                c.requires = _lam(val)
            elif nm == "ensures":
                c.ensures = _lam(val)
            elif nm == "modifies":
                c.modifies = _lit(val)
            elif nm == "returns":
                c.returns = _lit(val)
            elif nm == "fuel":
                c.fuel = _lit(val)
            elif nm == "timeout":
                c.timeout = _lit(val)
            elif nm == "trusted":
                c.trusted = _lit(val)
            elif nm == "inline":
                c.inline = _lit(val)
            elif nm == "covers":
                c.covers = _lit(val)
            elif nm == "params":
                c.params = _lit(val)
            elif nm == "case_split":
                c.case_split = _lit(val)
            elif nm == "bv_locals":
                c.bv_locals = _lit(val)
            elif nm == "yield_view":
                c.yield_view = _lam(val)
            elif nm == "uses_locals":
                c.uses_locals = _lit(val)
            elif nm == "yield_hints":
                c.yield_hints = [_lam(e) for e in val.elts]
            elif nm == "lib_arith":
                c.lib_arith = _lit(val)       # datetime / timedelta operands of + and - are expected in this function
            elif nm == "opaque_here":
                c.opaque_here = _lit(val)
            elif nm == "unfold_here":
                c.unfold_here = _lit(val)
            elif nm == "allocs":
                c.allocs = _dict_of(val, _lit)
            elif nm == "fresh_result":
                c.fresh_result = _lit(val)
            elif nm == "loops":
                c.loops = _dict_of(val, _lam)
            elif nm in ("loop_hints", "exit_hints", "call_hints"):
                # lemma instances assumed at the head of an arbitrary iteration (after the invariant) /
                # right after the loop; each lemma is proved separately in the same run
                setattr(c, nm, _dict_of(val, lambda v: [_lam(e) for e in v.elts]))
            elif nm == "loop_ghosts":
                def pair(v):
                    if not (isinstance(v, ast.Tuple) and len(v.elts) == 2):
                        raise ValueError("loop ghost must be (init, step)")
                    return (_lam(v.elts[0]), _lam(v.elts[1]))
                c.loop_ghosts = _dict_of(val, lambda v: _dict_of(v, pair))
            elif nm == "call_ghosts":
                c.call_ghosts = _dict_of(val, lambda v: _dict_of(v, _lam))
            elif nm == "call_behaviors":
                c.call_behaviors = _dict_of(val, _lit)
            elif nm == "raises":
                if not isinstance(val, ast.List):
                    raise ValueError("raises must be a list")
                for el in val.elts:
                    if isinstance(el, ast.Call) and isinstance(el.func, ast.Name) and el.func.id == "R":
                        exc = _lit(el.args[0])
                        kws = {k.arg: k.value for k in el.keywords}
                        pos = el.args[1:]
                        when = _lam(kws.get("when", pos[0] if len(pos) > 0 else None))
                        ens = _lam(kws.get("ensures", pos[1] if len(pos) > 1 else None))
                        must = _lit(kws["must"]) if "must" in kws else True
                        c.raises.append(RaiseClause(exc, when, ens, must))
                    else:
                        raise ValueError("raises entries must be R(...)")
        out.append(c)
    return out


class ContractSet:
    def __init__(self, root):
        self.root = root
        self.by_key = {}        # (module, qualname, behavior) -> Contract
        self.by_func = {}       # (module, qualname) -> [Contract]
        self.externals = {}     # (name, behavior) -> Contract
        self.lemmas = {}
        self.files = []

    def load_all(self, subdir="contracts"):
        d = os.path.join(self.root, subdir)
        for fn in sorted(os.listdir(d)):
            if fn.endswith(".py") and not fn.startswith("_"):
                self.load(os.path.join(d, fn), f"{subdir}.{fn[:-3]}")

    def load(self, path, modname):
        self.files.append(path)
        for c in load_file(path, modname):
            if c.kind == "target":
                if c.key in self.by_key:
                    raise ValueError(f"duplicate contract {c.key}")
                self.by_key[c.key] = c
                self.by_func.setdefault((c.module, c.qualname), []).append(c)
            elif c.kind == "external":
                self.externals[(c.qualname, c.behavior)] = c
            else:
                self.lemmas[c.qualname] = c

    def get(self, module, qualname, behavior="default"):
        c = self.by_key.get((module, qualname, behavior))
        if c is None and behavior != "default":
            c = self.by_key.get((module, qualname, "default"))
        return c

    def get_external(self, name, behavior="default"):
        c = self.externals.get((name, behavior))
        if c is None:
            c = self.externals.get((name, "default"))
        return c
