"""Counterexample handling: z3 model -> Python values -> replay on the real code."""
import z3

from . import sorts as S
from .sorts import Py


def term_to_py(m, t, depth=0):
    """evaluate z3 term t in model m to a Python value (best effort)"""
    v = m.eval(t, model_completion=True)
    return val_to_py(m, v, depth)


def seq_elems(v):
    if z3.is_app(v):
        k = v.decl().kind()
        if k == z3.Z3_OP_SEQ_EMPTY:
            return []
        if k == z3.Z3_OP_SEQ_UNIT:
            return [v.arg(0)]
        if k == z3.Z3_OP_SEQ_CONCAT:
            out = []
            for c in v.children():
                out += seq_elems(c)
            return out
    if z3.is_string_value(v):
        return None
    raise ValueError(f"not a concrete sequence: {v}")


def val_to_py(m, v, depth=0):
    if depth > 40:
        return None
    srt = v.sort()
    if srt == S.I:
        return v.as_long() if z3.is_int_value(v) else None
    if srt == S.B:
        return z3.is_true(v)
    if srt == S.Str:
        return v.as_string() if z3.is_string_value(v) else None
    if srt == S.SeqI:
        return bytes(max(0, min(255, e.as_long())) for e in seq_elems(v))
    if srt == S.SeqPy:
        return [val_to_py(m, e, depth + 1) for e in seq_elems(v)]
    if srt == Py:
        d = v.decl()
        nm = d.name()
        if nm == "none":
            return None
        if nm == "bool":
            return z3.is_true(v.arg(0))
        if nm == "int":
            return v.arg(0).as_long()
        if nm == "float":
            import struct
            b = v.arg(0).as_long() % (1 << 64)
            return struct.unpack("<d", b.to_bytes(8, "little"))[0]
        if nm == "str":
            return v.arg(0).as_string()
        if nm == "bytes":
            return val_to_py(m, v.arg(0), depth + 1)
        if nm == "list":
            return val_to_py(m, v.arg(0), depth + 1)
        if nm == "tuple":
            return tuple(val_to_py(m, v.arg(0), depth + 1))
        if nm == "set":
            return set(_hashable(x) for x in val_to_py(m, v.arg(0), depth + 1))
        if nm == "dict":
            ks = val_to_py(m, v.arg(0), depth + 1)
            vs = val_to_py(m, v.arg(1), depth + 1)
            out = {}
            for k, x in zip(ks, vs):
                out[_hashable(k)] = x
            return out
        if nm == "obj":
            return ("<obj>", v.arg(0).as_long(), v.arg(1).as_long())
    return None


def _hashable(x):
    if isinstance(x, list):
        return tuple(_hashable(y) for y in x)
    if isinstance(x, dict):
        return tuple(sorted((k, _hashable(v)) for k, v in x.items()))
    if isinstance(x, set):
        return frozenset(x)
    return x


def model_summary(m):
    """name -> python value for the user-level constants of the model (picklable)"""
    out = {}
    for d in m.decls():
        if d.arity() != 0:
            continue
        nm = d.name()
        try:
            out[nm] = val_to_py(m, m[d])
        except Exception as e:
            out[nm] = f"<unprintable: {e}>"
    return out
