"""pyvc symbolic executor: forward VC generation over the real source of /repo.

One path at a time; loops cut at invariants; calls cut at callee contracts;
exceptions are outcomes.  See DESIGN.md 2 and Appendix B.
"""
import ast
import itertools
import z3

from . import sorts as S
from .sorts import V, Ref, Const, Py, box, unbox
from .extract import Repo, FuncInfo
from . import specs as SP


class Unsupported(Exception):
    pass


class Raise:
    """exceptional outcome"""
    def __init__(self, exc, site="", payload=None, abstract=False):
        self.exc = exc
        self.site = site
        self.payload = payload
        # abstract: the outcome of a callee's `raises` clause -- the exception is SOME instance of `exc`,
        # possibly of a subclass, so a handler for a subclass may or may not catch it
        self.abstract = abstract

    def __repr__(self):
        return f"Raise<{self.exc}@{self.site}>"


NEXT, RET, RAISE, BRK, CONT = "next", "return", "raise", "break", "continue"

BUILTIN_EXC = {
    "BaseException": [], "Exception": ["BaseException"], "ArithmeticError": ["Exception"],
    "LookupError": ["Exception"], "KeyError": ["LookupError"], "IndexError": ["LookupError"],
    "ValueError": ["Exception"], "TypeError": ["Exception"], "AttributeError": ["Exception"],
    "EOFError": ["Exception"], "OSError": ["Exception"], "IOError": ["Exception"],
    "StopIteration": ["Exception"], "NotImplementedError": ["RuntimeError"],
    "RuntimeError": ["Exception"], "OverflowError": ["ArithmeticError"],
    "ZeroDivisionError": ["ArithmeticError"], "UnicodeError": ["ValueError"],
    "UnicodeDecodeError": ["UnicodeError"], "UnicodeEncodeError": ["UnicodeError"],
    "struct.error": ["Exception"], "StructError": ["Exception"], "AssertionError": ["Exception"],
    "json.decoder.JSONDecodeError": ["ValueError"], "ImportError": ["Exception"],
    "decimal.InvalidOperation": ["ArithmeticError"],
}
EXC_ALIAS = {"StructError": "struct.error", "IOError": "OSError", "error": "struct.error"}


class State:
    __slots__ = ("frames", "heap", "path", "kinds", "ctr", "old", "ghost_notes")

    def __init__(self):
        self.frames = [{}]
        self.heap = {}      # oid -> dict(field -> value)
        self.path = []
        self.kinds = {}
        self.ctr = itertools.count(1)
        self.old = None
        self.ghost_notes = []

    @property
    def vars(self):
        return self.frames[-1]

    def fork(self):
        s = State.__new__(State)
        s.frames = [dict(f) for f in self.frames]
        s.heap = {k: dict(v) for k, v in self.heap.items()}
        s.path = list(self.path)
        s.kinds = dict(self.kinds)
        s.ctr = self.ctr
        s.old = self.old
        s.ghost_notes = self.ghost_notes
        return s

    def assume(self, cond):
        if z3.is_true(cond):
            return
        self.path.append(cond)
        self._note_kinds(cond)

    def _note_kinds(self, cond):
        # remember recogniser facts for auto-narrowing
        if z3.is_app(cond):
            d = cond.decl()
            if d.kind() == z3.Z3_OP_DT_IS:
                nm = d.params()[0].name() if d.params() else None
                arg = cond.arg(0)
                if nm:
                    self.kinds[arg.get_id()] = nm
            elif d.kind() == z3.Z3_OP_AND:
                for c in cond.children():
                    self._note_kinds(c)
            elif d.kind() == z3.Z3_OP_OR and cond.num_args() == 1:
                self._note_kinds(cond.arg(0))
            elif d.kind() == z3.Z3_OP_EQ:
                a, b = cond.arg(0), cond.arg(1)
                for x, y in ((a, b), (b, a)):
                    if x.sort() == Py and z3.is_app(y) and y.decl().kind() == z3.Z3_OP_DT_CONSTRUCTOR:
                        self.kinds[x.get_id()] = y.decl().name()

    def lookup(self, name):
        for f in reversed(self.frames):
            if name in f:
                return f[name]
        return None

    def alloc(self, cls, fields):
        oid = next(self.ctr)
        self.heap[oid] = dict(fields)
        self.heap[oid]["__class__"] = cls
        return Ref(oid, cls)


class Obligation:
    def __init__(self, name, hyps, goal, kind, lineno=None, note="", fuel=None):
        self.name = name
        self.hyps = list(hyps)
        self.goal = goal
        self.kind = kind
        self.lineno = lineno
        self.note = note
        self.fuel = fuel
        self.verdict = None
        self.time = 0.0
        self.backend = None
        self.model = None
        self.witness_terms = {}

    def __repr__(self):
        return f"<Ob {self.name} {self.verdict}>"


def loops_in(fnode):
    """loops of a function body in source order (nested defs excluded)"""
    out = []

    def walk(stmts):
        for s in stmts:
            if isinstance(s, (ast.For, ast.While)):
                out.append(s)
                walk(s.body)
                walk(s.orelse)
            elif isinstance(s, ast.If):
                walk(s.body)
                walk(s.orelse)
            elif isinstance(s, ast.Try):
                walk(s.body)
                for h in s.handlers:
                    walk(h.body)
                walk(s.orelse)
                walk(s.finalbody)
            elif isinstance(s, ast.With):
                walk(s.body)
    walk(fnode.body)
    return out


def assigned_names(stmts):
    """names stored anywhere in a statement list (for loop havoc)"""
    out = set()
    for s in stmts:
        for n in ast.walk(s):
            if isinstance(n, ast.Name) and isinstance(n.ctx, (ast.Store, ast.Del)):
                out.add(n.id)
            elif isinstance(n, ast.Call) and isinstance(n.func, ast.Attribute) and n.func.attr in MUTATORS:
                root = n.func.value
                while isinstance(root, (ast.Subscript, ast.Attribute)):
                    root = root.value
                if isinstance(root, ast.Name):
                    out.add(root.id)
            elif isinstance(n, (ast.Subscript, ast.Attribute)) and isinstance(n.ctx, (ast.Store, ast.Del)):
                root = n.value
                while isinstance(root, (ast.Subscript, ast.Attribute)):
                    root = root.value
                if isinstance(root, ast.Name):
                    out.add(root.id)
    return out


MUTATORS = {"append", "pop", "update", "popitem", "insert", "extend", "add", "remove",
            "clear", "setdefault", "discard", "sort", "reverse"}


class Frame:
    """Per-function verification context handed to the evaluator."""
    def __init__(self, engine, finfo, contract):
        self.engine = engine
        self.finfo = finfo
        self.contract = contract
        self.obligations = []
        self.loop_index = {id(n): i for i, n in enumerate(loops_in(finfo.node))} if finfo else {}
        self.call_counter = itertools.count()
        self.site_counter = {}
        self.inline_depth = 0
        self.loop_prefix = ""
        self.yield_handler = None
        self.behavior = contract.behavior if contract else "default"

    def site(self, kind):
        n = self.site_counter.get(kind, 0)
        self.site_counter[kind] = n + 1
        return f"{kind}#{n}"


class Exec:
    """Evaluator / executor for one function under one contract."""

    def __init__(self, engine, frame, total=False, modname=None, specmod=None):
        self.eng = engine
        self.fr = frame
        self.total = total          # total mode: no exception edges, no forking (specs, clauses)
        self.modname = modname      # repo module whose globals are in scope (code)
        self.specmod = specmod      # python module name whose globals are in scope (specs/contracts)
        self.clause_module = None   # contract clauses: the target's module (its sentinel objects may be named)
        self.partial_touched = False

    # ------------------------------------------------------------------ utils
    def ob(self, st, name, goal, kind, lineno=None, note=""):
        o = Obligation(self.fr.finfo_key() + ":" + name if hasattr(self.fr, "finfo_key") else name,
                       st.path, goal, kind, lineno, note)
        self.fr.obligations.append(o)
        return o

    def feasible(self, st, cond):
        """quick check: can `cond` hold on this path?  unknown counts as feasible."""
        c = z3.simplify(cond)
        if z3.is_true(c):
            return True
        if z3.is_false(c):
            return False
        return self.eng.quick_sat(st.path + [c])

    def split(self, st, cond):
        """-> (state where cond holds or None, state where not cond holds or None)"""
        c = z3.simplify(cond)
        if z3.is_true(c):
            return st, None
        if z3.is_false(c):
            return None, st
        # assume the condition as written (the simplifier rewrites Nth into its internal
        # total/partial forms, which only adds noise for the solver)
        c = cond
        nc = z3.Not(cond)
        t_ok = self.eng.quick_sat(st.path + [c])
        f_ok = self.eng.quick_sat(st.path + [nc])
        st_t = st_f = None
        if t_ok and f_ok:
            st_t = st
            st_f = st.fork()
            st_t.assume(c)
            st_f.assume(nc)
        elif t_ok:
            st_t = st
            st_t.assume(c)
        elif f_ok:
            st_f = st
            st_f.assume(nc)
        return st_t, st_f

    def need(self, st, cond, exc, site=""):
        """definedness: yields (st_ok, None) and possibly (st_bad, Raise).  In total
        mode the condition is ignored (z3 functions are total)."""
        if self.total:
            c = z3.simplify(cond)
            if not z3.is_true(c):
                self.partial_touched = True
            yield st, None
            return
        ok, bad = self.split(st, cond)
        if bad is not None:
            yield bad, Raise(exc, site)
        if ok is not None:
            yield ok, None

    def narrow(self, st, v):
        if isinstance(v, V) and v.ty == "py":
            k = st.kinds.get(v.t.get_id())
            if k is None and z3.is_app(v.t) and v.t.decl().kind() == z3.Z3_OP_DT_CONSTRUCTOR:
                k = v.t.decl().name()
            if k:
                if k in S.NATIVE:
                    return unbox(v.t, k)
                return V(k, v.t)
        return v

    def as_int(self, v):
        if v.ty == "int":
            return v.t
        if v.ty == "bv64":
            return S.bv_to_int_term(v.t)
        if v.ty == "bool":
            return z3.If(v.t, z3.IntVal(1), z3.IntVal(0))
        if v.ty == "py":
            return Py.i(v.t)
        if self.total and isinstance(v, V):
            # dead branch of a total evaluation: unspecified integer
            self.partial_touched = True
            return Py.i(box(v))
        raise Unsupported(f"int expected, got {v.ty}")

    # ------------------------------------------------------------ expressions
    def expr(self, st, e):
        """generator of (state, value-or-Raise)"""
        m = getattr(self, "e_" + type(e).__name__, None)
        if m is None:
            raise Unsupported(f"expr:{type(e).__name__}")
        yield from m(st, e)

    def exprs(self, st, es):
        """evaluate a list of expressions left to right -> (st, [vals]) or (st, Raise)"""
        if not es:
            yield st, []
            return
        for st1, v in self.expr(st, es[0]):
            if isinstance(v, Raise):
                yield st1, v
                continue
            for st2, rest in self.exprs(st1, es[1:]):
                if isinstance(rest, Raise):
                    yield st2, rest
                else:
                    yield st2, [v] + rest

    def one(self, st, e):
        """total-mode single result"""
        res = list(self.expr(st, e))
        if len(res) != 1 or isinstance(res[0][1], Raise):
            raise Unsupported(f"total evaluation forked/raised: {ast.unparse(e)[:80]} -> {res}")
        return res[0][1]

    def e_Constant(self, st, e):
        v = e.value
        if v is Ellipsis:
            raise Unsupported("Ellipsis")
        yield st, S.lift(v)

    def e_Name(self, st, e):
        v = st.lookup(e.id)
        if v is not None:
            yield st, self.narrow(st, v)
            return
        v = self.eng.resolve_global(self, e.id)
        if v is None:
            raise Unsupported(f"name:{e.id}")
        yield st, v

    def e_JoinedStr(self, st, e):
        # f-string: concatenation of str parts; formatted values via `fmt`
        parts = []
        for p in e.values:
            if isinstance(p, ast.Constant):
                parts.append(("c", p.value))
            else:
                parts.append(("e", p))
        exprs = [p[1].value for p in parts if p[0] == "e"]
        for st1, vals in self.exprs(st, exprs):
            if isinstance(vals, Raise):
                yield st1, vals
                continue
            it = iter(vals)
            terms = []
            for kind, p in parts:
                if kind == "c":
                    terms.append(z3.StringVal(p))
                else:
                    v = next(it)
                    if p.format_spec is not None or p.conversion not in (-1, 115):
                        # a format specification ({x:g}, {x:>8}) or a !r / !a conversion: not str(x) -- the text is
                        # an unspecified function of the value and the specification
                        spec = ast.unparse(p.format_spec) if p.format_spec is not None else ""
                        bv = box(v) if isinstance(v, V) else None
                        if bv is None:
                            raise Unsupported("formatted value of a host object")
                        terms.append(self.eng.opaque_fn_str(f"format[{p.conversion}|{spec}]", bv))
                    else:
                        terms.append(self.eng.format_str(v))
            if not terms:
                yield st1, S.mk_str("")
            elif len(terms) == 1:
                yield st1, V("str", terms[0])
            else:
                yield st1, V("str", z3.Concat(*terms))

    def e_Tuple(self, st, e):
        for st1, vals in self.exprs(st, e.elts):
            if isinstance(vals, Raise):
                yield st1, vals
            else:
                yield st1, self.mk_seq("tuple", vals)

    def e_List(self, st, e):
        for st1, vals in self.exprs(st, e.elts):
            if isinstance(vals, Raise):
                yield st1, vals
            else:
                yield st1, self.mk_seq("list", vals)

    def e_Set(self, st, e):
        for st1, vals in self.exprs(st, e.elts):
            if isinstance(vals, Raise):
                yield st1, vals
            else:
                yield st1, self.mk_seq("set", vals)

    def mk_seq(self, tag, vals):
        for v in vals:
            if not isinstance(v, V):
                # tuples of host-level constants (isinstance class tuples)
                return Const("tuple", list(vals))
        return V(tag, S.seq_of([box(v) for v in vals], Py))

    def e_Dict(self, st, e):
        if any(k is None for k in e.keys):
            raise Unsupported("dict-unpack")
        for st1, vals in self.exprs(st, list(e.keys) + list(e.values)):
            if isinstance(vals, Raise):
                yield st1, vals
                continue
            n = len(e.keys)
            ks, vs = vals[:n], vals[n:]
            if any(not isinstance(x, V) for x in vs):
                yield st1, Const("dict", {self._const_key(k): v for k, v in zip(ks, vs)})
                continue
            d = Py.dict(z3.Empty(S.SeqPy), z3.Empty(S.SeqPy))
            # literal keys are assumed distinct only if syntactically distinct constants
            simple = all(isinstance(k, ast.Constant) for k in e.keys) and len({k.value for k in e.keys}) == n
            if simple:
                d = Py.dict(S.seq_of([box(k) for k in ks], Py), S.seq_of([box(v) for v in vs], Py))
            else:
                for k, v in zip(ks, vs):
                    d = S.dict_set(d, box(k), box(v))
            yield st1, V("dict", d)

    def _const_key(self, k):
        t = z3.simplify(k.t)
        if z3.is_string_value(t):
            return t.as_string()
        if z3.is_int_value(t):
            return t.as_long()
        raise Unsupported("non-constant key in host dict")

    def e_IfExp(self, st, e):
        for st1, c in self.expr(st, e.test):
            if isinstance(c, Raise):
                yield st1, c
                continue
            cond = S.truthy(c)
            cs = z3.simplify(cond)
            if z3.is_true(cs):
                yield from self.expr(st1, e.body)
                continue
            if z3.is_false(cs):
                yield from self.expr(st1, e.orelse)
                continue
            merged = self.try_merge(st1, cond, e.body, e.orelse)
            if merged is not None:
                yield st1, merged
                continue
            a, b = self.split(st1, cond)
            if a is not None:
                yield from self.expr(a, e.body)
            if b is not None:
                yield from self.expr(b, e.orelse)

    def try_merge(self, st, cond, ea, eb):
        """If both branches are total and effect-free, merge them with ite."""
        sub = Exec(self.eng, self.fr, total=True, modname=self.modname, specmod=self.specmod); sub.clause_module = self.clause_module
        try:
            va = sub.one(st, ea)
            vb = sub.one(st, eb)
        except Unsupported:
            if self.total:
                raise
            return None
        if sub.partial_touched and not self.total:
            return None
        if sub.partial_touched:
            self.partial_touched = True
        return self.ite(cond, va, vb)

    def ite(self, cond, va, vb):
        if not (isinstance(va, V) and isinstance(vb, V)):
            if va is vb:
                return va
            raise Unsupported("ite over host values")
        if va.ty == vb.ty and va.ty not in ("dict", "none", "obj"):
            return V(va.ty, z3.If(cond, va.t, vb.t))
        if "bv64" in (va.ty, vb.ty) and {va.ty, vb.ty} <= {"bv64", "int", "bool"}:
            return V("bv64", z3.If(cond, S.to_bv64(va), S.to_bv64(vb)))
        if va.ty == vb.ty == "dict":
            return V("dict", z3.If(cond, va.t, vb.t))
        return V("py", z3.If(cond, box(va), box(vb)))

    def e_BoolOp(self, st, e):
        yield from self._boolop(st, e.op, e.values)

    def _boolop(self, st, op, values):
        first, rest = values[0], values[1:]
        for st1, v in self.expr(st, first):
            if isinstance(v, Raise) or not rest:
                yield st1, v
                continue
            cond = S.truthy(v)
            cs = z3.simplify(cond)
            is_and = isinstance(op, ast.And)
            if (z3.is_true(cs) and is_and) or (z3.is_false(cs) and not is_and):
                yield from self._boolop(st1, op, rest)
                continue
            if (z3.is_false(cs) and is_and) or (z3.is_true(cs) and not is_and):
                yield st1, v
                continue
            # try to merge if the rest is total
            sub = Exec(self.eng, self.fr, total=True, modname=self.modname, specmod=self.specmod); sub.clause_module = self.clause_module
            merged = None
            try:
                rs = list(sub._boolop(st1, op, rest))
                if len(rs) == 1 and not isinstance(rs[0][1], Raise) and (self.total or not sub.partial_touched):
                    rv = rs[0][1]
                    if sub.partial_touched:
                        self.partial_touched = True
                    if v.ty == "bool" and rv.ty == "bool":
                        merged = V("bool", z3.And(v.t, rv.t) if is_and else z3.Or(v.t, rv.t))
                    else:
                        merged = self.ite(cond, rv, v) if is_and else self.ite(cond, v, rv)
            except Unsupported:
                if self.total:
                    raise
                merged = None
            if merged is not None:
                yield st1, merged
                continue
            a, b = self.split(st1, cond)
            if is_and:
                if a is not None:
                    yield from self._boolop(a, op, rest)
                if b is not None:
                    yield b, v
            else:
                if a is not None:
                    yield a, v
                if b is not None:
                    yield from self._boolop(b, op, rest)

    def e_UnaryOp(self, st, e):
        for st1, v in self.expr(st, e.operand):
            if isinstance(v, Raise):
                yield st1, v
                continue
            if isinstance(e.op, ast.Not):
                yield st1, V("bool", z3.Not(S.truthy(v)))
            elif isinstance(e.op, ast.USub):
                if v.ty == "float":
                    yield st1, V("float", self.eng.fop("neg", v.t))
                else:
                    yield st1, V("int", -self.as_int(v))
            elif isinstance(e.op, ast.Invert):
                yield st1, V("int", -self.as_int(v) - 1)
            elif isinstance(e.op, ast.UAdd):
                yield st1, v
            else:
                raise Unsupported("unaryop")

    def e_BinOp(self, st, e):
        for st1, vals in self.exprs(st, [e.left, e.right]):
            if isinstance(vals, Raise):
                yield st1, vals
                continue
            yield from self.binop(st1, e.op, vals[0], vals[1], e)

    def binop(self, st, op, a, b, node=None):
        from . import arith
        if self.total and isinstance(a, V) and isinstance(b, V):
            # in a total evaluation an ill-kinded operation can only sit in a dead branch:
            # it denotes an unspecified value (never constrains anything)
            try:
                res = list(arith.binop(self, st, op, a, b, node))
            except Unsupported:
                self.partial_touched = True
                res = [(st, V("py", self.eng.opaque_fn("junk_binop_" + type(op).__name__, box(a), box(b))))]
            yield from res
            return
        yield from arith.binop(self, st, op, a, b, node)

    def e_Compare(self, st, e):
        # chains: a < b <= c  ==  a < b and b <= c with b evaluated once
        operands = [e.left] + list(e.comparators)
        for st1, vals in self.exprs(st, operands):
            if isinstance(vals, Raise):
                yield st1, vals
                continue
            # all operands are evaluated eagerly; Python would short-circuit the
            # evaluation of later operands, which only matters when they can raise
            conds = []
            cur_states = [(st1, [])]
            for i, op in enumerate(e.ops):
                nxt = []
                for st2, cs in cur_states:
                    for st3, c in self.compare(st2, op, vals[i], vals[i + 1]):
                        if isinstance(c, Raise):
                            yield st3, c
                        else:
                            nxt.append((st3, cs + [c]))
                cur_states = nxt
            for st2, cs in cur_states:
                yield st2, V("bool", cs[0] if len(cs) == 1 else z3.And(*cs))

    def compare(self, st, op, a, b):
        from . import arith
        yield from arith.compare(self, st, op, a, b)

    def e_Attribute(self, st, e):
        # old.<path> in contract clauses
        if isinstance(e.value, ast.Name) and e.value.id == "old" and st.lookup("old") is None and st.old is not None:
            sub = st.old
            res = list(self.expr(sub, ast.Name(id=e.attr, ctx=ast.Load())))
            yield st, res[0][1]
            return
        if self._rooted_at_old(e) and st.old is not None and st.lookup("old") is None:
            inner = self._strip_old(e)
            res = list(self.expr(st.old, inner))
            if len(res) != 1:
                raise Unsupported("old-expression forked")
            yield st, res[0][1]
            return
        for st1, base in self.expr(st, e.value):
            if isinstance(base, Raise):
                yield st1, base
                continue
            yield from self.getattr(st1, base, e.attr, e)

    def _rooted_at_old(self, e):
        n = e
        while isinstance(n, (ast.Attribute, ast.Subscript)):
            n = n.value
        return isinstance(n, ast.Name) and n.id == "old"

    def _strip_old(self, e):
        # old.a.b[c] -> a.b[c]
        if isinstance(e, ast.Attribute):
            if isinstance(e.value, ast.Name) and e.value.id == "old":
                return ast.Name(id=e.attr, ctx=ast.Load())
            return ast.Attribute(value=self._strip_old(e.value), attr=e.attr, ctx=ast.Load())
        if isinstance(e, ast.Subscript):
            return ast.Subscript(value=self._strip_old(e.value), slice=e.slice, ctx=ast.Load())
        raise Unsupported("old-path")

    def getattr(self, st, base, attr, node=None):
        from . import models
        yield from models.getattr_(self, st, base, attr, node)

    def e_Subscript(self, st, e):
        if self._rooted_at_old(e) and st.old is not None and st.lookup("old") is None:
            inner = self._strip_old(e)
            res = list(self.expr(st.old, inner))
            if len(res) != 1:
                raise Unsupported("old-expression forked")
            yield st, res[0][1]
            return
        if isinstance(e.slice, ast.Slice):
            parts = [e.value] + [x if x is not None else ast.Constant(value=None) for x in (e.slice.lower, e.slice.upper, e.slice.step)]
            for st1, vals in self.exprs(st, parts):
                if isinstance(vals, Raise):
                    yield st1, vals
                    continue
                from . import models
                yield from models.slice_(self, st1, vals[0], vals[1], vals[2], vals[3])
            return
        # typing expressions (Dict[str, Any], List[Schema] ...) denote nothing at run time
        if isinstance(e.value, ast.Name) and st.lookup(e.value.id) is None:
            g = self.eng.resolve_global(self, e.value.id)
            if isinstance(g, Const) and g.kind == "typing":
                yield st, Const("typing", "subscripted")
                return
        for st1, vals in self.exprs(st, [e.value, e.slice]):
            if isinstance(vals, Raise):
                yield st1, vals
                continue
            from . import models
            yield from models.getitem(self, st1, vals[0], vals[1], e)

    def e_Call(self, st, e):
        from . import calls
        yield from calls.call(self, st, e)

    def e_Lambda(self, st, e):
        yield st, Const("lambda", (e, None))

    def e_ListComp(self, st, e):
        from . import comps
        yield from comps.comprehension(self, st, e, "list")

    def e_SetComp(self, st, e):
        from . import comps
        yield from comps.comprehension(self, st, e, "set")

    def e_DictComp(self, st, e):
        from . import comps
        yield from comps.comprehension(self, st, e, "dict")

    def e_GeneratorExp(self, st, e):
        yield st, Const("genexp", e)

    # ------------------------------------------------------------- statements
    def block(self, st, stmts):
        outs = [(st, (NEXT, None))]
        for s in stmts:
            new = []
            for st1, o in outs:
                if o[0] == NEXT:
                    new.extend(self.stmt(st1, s))
                else:
                    new.append((st1, o))
            outs = new
            if not outs:
                break
        return outs

    def stmt(self, st, s):
        m = getattr(self, "s_" + type(s).__name__, None)
        if m is None:
            raise Unsupported(f"stmt:{type(s).__name__}")
        return list(m(st, s))

    def s_Pass(self, st, s):
        yield st, (NEXT, None)

    def s_Expr(self, st, s):
        if isinstance(s.value, ast.Constant):   # docstring
            yield st, (NEXT, None)
            return
        if isinstance(s.value, ast.Yield):
            yield from self.do_yield(st, s.value)
            return
        for st1, v in self.expr(st, s.value):
            if isinstance(v, Raise):
                yield st1, (RAISE, v)
            else:
                yield st1, (NEXT, None)

    def do_yield(self, st, y):
        h = self.fr.yield_handler
        if h is None:
            raise Unsupported("yield outside inlined generator")
        if y.value is None:
            yield from h(st, S.none())
            return
        for st1, v in self.expr(st, y.value):
            if isinstance(v, Raise):
                yield st1, (RAISE, v)
            else:
                yield from h(st1, v)

    def s_Assign(self, st, s):
        if isinstance(s.value, ast.Yield):
            raise Unsupported("yield-expression value")
        for st1, v in self.expr(st, s.value):
            if isinstance(v, Raise):
                yield st1, (RAISE, v)
                continue
            states = [(st1, None)]
            for tg in s.targets:
                nxt = []
                for st2, r in states:
                    if r is not None:
                        nxt.append((st2, r))
                    else:
                        nxt.extend(self.store(st2, tg, v))
                states = nxt
            for st2, r in states:
                yield st2, ((RAISE, r) if r is not None else (NEXT, None))

    def s_AnnAssign(self, st, s):
        if s.value is None:
            yield st, (NEXT, None)
            return
        for st1, v in self.expr(st, s.value):
            if isinstance(v, Raise):
                yield st1, (RAISE, v)
                continue
            for st2, r in self.store(st1, s.target, v):
                yield st2, ((RAISE, r) if r is not None else (NEXT, None))

    def s_AugAssign(self, st, s):
        load = _as_load(s.target)
        for st1, vals in self.exprs(st, [load, s.value]):
            if isinstance(vals, Raise):
                yield st1, (RAISE, vals)
                continue
            for st2, r in self.binop(st1, s.op, vals[0], vals[1], s):
                if isinstance(r, Raise):
                    yield st2, (RAISE, r)
                    continue
                for st3, r2 in self.store(st2, s.target, r):
                    yield st3, ((RAISE, r2) if r2 is not None else (NEXT, None))

    def store(self, st, tg, v):
        """assign v to target; generator of (state, None | Raise)"""
        from . import models
        yield from models.store(self, st, tg, v)

    def s_Return(self, st, s):
        if s.value is None:
            yield st, (RET, S.none())
            return
        for st1, v in self.expr(st, s.value):
            if isinstance(v, Raise):
                yield st1, (RAISE, v)
            else:
                yield st1, (RET, v)

    def s_Raise(self, st, s):
        if s.exc is None:
            cur = st.lookup("__current_exception__")
            if cur is None:
                raise Unsupported("bare raise outside handler")
            yield st, (RAISE, cur.val)
            return
        exc = s.exc
        # `raise Cls(args)` / `raise Cls` / `raise name` (re-raise of a bound exception)
        if isinstance(exc, ast.Call):
            cls = self.eng.exc_name(self, st, exc.func)
            payload = None
            if cls in self.eng.exc_payload and exc.args:
                # evaluate the first argument only when the class carries data we track
                res = list(self.expr(st, exc.args[0]))
                if len(res) == 1 and not isinstance(res[0][1], Raise):
                    payload = res[0][1]
            # the *text* of messages is dropped (DESIGN 2.2): arguments are not evaluated
            yield st, (RAISE, Raise(cls, f"line{s.lineno}", payload))
            return
        if isinstance(exc, ast.Name):
            v = st.lookup(exc.id)
            if isinstance(v, Const) and v.kind == "exc":
                yield st, (RAISE, v.val)
                return
            cls = self.eng.exc_name(self, st, exc)
            yield st, (RAISE, Raise(cls, f"line{s.lineno}"))
            return
        raise Unsupported("raise-form")

    def s_Break(self, st, s):
        yield st, (BRK, None)

    def s_Continue(self, st, s):
        yield st, (CONT, None)

    def s_Global(self, st, s):
        raise Unsupported("global")

    def s_Nonlocal(self, st, s):
        raise Unsupported("nonlocal")

    def s_Import(self, st, s):
        for a in s.names:
            st.vars[(a.asname or a.name).split(".")[0]] = Const("extmodule", a.name)
        yield st, (NEXT, None)

    def s_Assert(self, st, s):
        for st1, v in self.expr(st, s.test):
            if isinstance(v, Raise):
                yield st1, (RAISE, v)
                continue
            ok, bad = self.split(st1, S.truthy(v))
            if bad is not None:
                yield bad, (RAISE, Raise("AssertionError", f"line{s.lineno}"))
            if ok is not None:
                yield ok, (NEXT, None)

    def s_Delete(self, st, s):
        from . import models
        states = [(st, None)]
        for tg in s.targets:
            nxt = []
            for st1, r in states:
                if r is not None:
                    nxt.append((st1, r))
                else:
                    nxt.extend(models.delete(self, st1, tg))
            states = nxt
        for st1, r in states:
            yield st1, ((RAISE, r) if r is not None else (NEXT, None))

    def s_FunctionDef(self, st, s):
        st.vars[s.name] = Const("closure", s)
        yield st, (NEXT, None)

    def s_If(self, st, s):
        for st1, c in self.expr(st, s.test):
            if isinstance(c, Raise):
                yield st1, (RAISE, c)
                continue
            a, b = self.split(st1, S.truthy(c))
            if a is not None:
                yield from self.block(a, s.body)
            if b is not None:
                yield from self.block(b, s.orelse)

    def s_Try(self, st, s):
        outs = self.block(st, s.body)
        res = []
        for st1, o in outs:
            if o[0] == RAISE:
                handled = False
                for h in s.handlers:
                    if o[1].abstract and not self.eng.handler_matches(self, st1, h, o[1]):
                        # a callee's may-raise clause names a class; the handler names a subclass of it: the
                        # exception may be caught here (fork, narrowed to the handler's class) or pass on
                        sub = self.eng.handler_may_match(self, st1, h, o[1])
                        if sub is not None:
                            st_c = st1.fork()
                            r_c = Raise(sub, o[1].site, o[1].payload, abstract=True)
                            st_c.frames[-1] = dict(st_c.frames[-1])
                            st_c.vars["__current_exception__"] = Const("exc", r_c)
                            if h.name:
                                st_c.vars[h.name] = Const("exc", r_c)
                            for st2, o2 in self.block(st_c, h.body):
                                st2.vars.pop("__current_exception__", None)
                                res.append((st2, o2))
                        continue
                    if self.eng.handler_matches(self, st1, h, o[1]):
                        handled = True
                        st1.frames[-1] = dict(st1.frames[-1])
                        st1.vars["__current_exception__"] = Const("exc", o[1])
                        if h.name:
                            st1.vars[h.name] = Const("exc", o[1])
                        for st2, o2 in self.block(st1, h.body):
                            st2.vars.pop("__current_exception__", None)
                            res.append((st2, o2))
                        break
                if not handled:
                    res.append((st1, o))
            elif o[0] == NEXT and s.orelse:
                res.extend(self.block(st1, s.orelse))
            else:
                res.append((st1, o))
        if s.finalbody:
            fin = []
            for st1, o in res:
                for st2, o2 in self.block(st1, s.finalbody):
                    fin.append((st2, o if o2[0] == NEXT else o2))
            res = fin
        yield from res

    def s_With(self, st, s):
        from . import models
        yield from models.with_(self, st, s)

    def s_While(self, st, s):
        from . import loops
        yield from loops.while_(self, st, s)

    def s_For(self, st, s):
        from . import loops
        yield from loops.for_(self, st, s)


def _as_load(tg):
    if isinstance(tg, ast.Name):
        return ast.Name(id=tg.id, ctx=ast.Load())
    if isinstance(tg, ast.Attribute):
        return ast.Attribute(value=tg.value, attr=tg.attr, ctx=ast.Load())
    if isinstance(tg, ast.Subscript):
        return ast.Subscript(value=tg.value, slice=tg.slice, ctx=ast.Load())
    raise Unsupported("augassign target")
