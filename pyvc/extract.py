"""Extractor: re-reads /repo's current working tree on every run.

Index of modules, functions (by qualified name), classes (methods and
class-level aliases such as `write_long = write_int`), module-level bindings and
imports.  Nothing is cached between runs; a per-function source hash is exposed
so evidence can say exactly which text was verified.
"""
import ast
import hashlib
import os

REPO = os.environ.get("PYVC_REPO", "/repo")


class FuncInfo:
    def __init__(self, module, qualname, node, cls=None):
        self.module = module          # e.g. "fastavro/io/binary_encoder.py"
        self.qualname = qualname      # e.g. "BinaryEncoder.write_int"
        self.node = node
        self.cls = cls                # enclosing class name or None

    @property
    def key(self):
        return (self.module, self.qualname)

    def source_hash(self):
        return hashlib.sha256(ast.dump(self.node, include_attributes=False).encode()).hexdigest()[:16]

    def is_generator(self):
        for n in ast.walk(self.node):
            if isinstance(n, (ast.Yield, ast.YieldFrom)):
                return True
        return False

    def __repr__(self):
        return f"<{self.module}:{self.qualname}>"


class ClassInfo:
    def __init__(self, module, name, node):
        self.module = module
        self.name = name
        self.node = node
        self.methods = {}   # name -> FuncInfo (aliases included)
        self.bases = [ast.unparse(b) for b in node.bases]
        self.attrs = {}     # class-level assigned names -> value AST


class ModuleInfo:
    def __init__(self, relpath, tree, source):
        self.relpath = relpath
        self.tree = tree
        self.source = source
        self.functions = {}   # qualname -> FuncInfo (top-level and methods and nested)
        self.classes = {}
        self.bindings = {}    # name -> list of top-level binding nodes in order
        self.table_stores = {}  # NAME -> list of (key_ast, value_ast) from module-level NAME[k] = v


class Repo:
    def __init__(self, root=None):
        self.root = root or REPO
        self.modules = {}

    def module(self, relpath):
        if relpath in self.modules:
            return self.modules[relpath]
        path = os.path.join(self.root, relpath)
        if not os.path.exists(path):
            return None
        src = open(path).read()
        tree = ast.parse(src)
        mi = ModuleInfo(relpath, tree, src)
        self._index(mi)
        self.modules[relpath] = mi
        return mi

    def exists(self, relpath):
        return os.path.exists(os.path.join(self.root, relpath))

    def _index(self, mi):
        def bind(name, node):
            mi.bindings.setdefault(name, []).append(node)

        def walk_top(stmts):
            for st in stmts:
                if isinstance(st, ast.FunctionDef):
                    self._index_func(mi, st, st.name, None)
                    bind(st.name, st)
                elif isinstance(st, ast.ClassDef):
                    ci = ClassInfo(mi.relpath, st.name, st)
                    mi.classes[st.name] = ci
                    bind(st.name, st)
                    for cst in st.body:
                        if isinstance(cst, ast.FunctionDef):
                            fi = self._index_func(mi, cst, f"{st.name}.{cst.name}", st.name)
                            ci.methods[cst.name] = fi
                        elif isinstance(cst, ast.Assign) and len(cst.targets) == 1 and isinstance(cst.targets[0], ast.Name):
                            tgt = cst.targets[0].id
                            if isinstance(cst.value, ast.Name) and cst.value.id in ci.methods:
                                ci.methods[tgt] = ci.methods[cst.value.id]   # alias
                            else:
                                ci.attrs[tgt] = cst.value
                elif isinstance(st, (ast.Import, ast.ImportFrom)):
                    for a in st.names:
                        bind((a.asname or a.name).split(".")[0], st)
                elif isinstance(st, ast.Assign):
                    for tg in st.targets:
                        for nm in _target_names(tg):
                            bind(nm, st)
                        if isinstance(tg, ast.Subscript) and isinstance(tg.value, ast.Name):
                            mi.table_stores.setdefault(tg.value.id, []).append((tg.slice, st.value))
                elif isinstance(st, ast.AnnAssign) and isinstance(st.target, ast.Name) and st.value is not None:
                    bind(st.target.id, st)
                elif isinstance(st, ast.Try):
                    self._index_try(mi, st, walk_top)
                elif isinstance(st, ast.If):
                    walk_top(st.body)
                    walk_top(st.orelse)
        walk_top(mi.tree.body)

    def _index_try(self, mi, st, walk_top):
        """`try: import X / except ImportError: ... / else: ...`: choose the arm that
        is taken in this sandbox.  For repo-internal modules: by file existence; for
        third-party modules: by the PYVC_HAVE_<mod> environment or default absent."""
        ok = True
        for s in st.body:
            if isinstance(s, ast.ImportFrom) and s.level >= 1 and s.module is None:
                for a in s.names:
                    base = os.path.dirname(mi.relpath)
                    if not (self.exists(os.path.join(base, a.name + ".py")) or self.exists(os.path.join(base, a.name, "__init__.py"))):
                        ok = False
            elif isinstance(s, (ast.Import, ast.ImportFrom)):
                modname = s.module if isinstance(s, ast.ImportFrom) else s.names[0].name
                if (modname or "").split(".")[0] in THIRD_PARTY_ABSENT:
                    ok = False
        if ok:
            walk_top(st.body)
            walk_top(st.orelse)
        else:
            for h in st.handlers:
                walk_top(h.body)

    def _index_func(self, mi, node, qualname, cls):
        fi = FuncInfo(mi.relpath, qualname, node, cls)
        mi.functions[qualname] = fi
        for sub in node.body:
            self._index_nested(mi, sub, qualname, cls)
        return fi

    def _index_nested(self, mi, node, outer, cls):
        if isinstance(node, ast.FunctionDef):
            q = f"{outer}.<locals>.{node.name}"
            # several nested defs of one name (if/else arms): keep all by ordinal
            k = q
            n = 1
            while k in mi.functions:
                n += 1
                k = f"{q}#{n}"
            mi.functions[k] = FuncInfo(mi.relpath, k, node, cls)
            return
        for child in ast.iter_child_nodes(node):
            if isinstance(child, (ast.stmt,)):
                self._index_nested(mi, child, outer, cls)

    def func(self, module, qualname):
        mi = self.module(module)
        if mi is None:
            return None
        return mi.functions.get(qualname)

    def all_py_files(self, sub="fastavro"):
        out = []
        for dp, dn, fn in os.walk(os.path.join(self.root, sub)):
            for f in sorted(fn):
                if f.endswith(".py"):
                    out.append(os.path.relpath(os.path.join(dp, f), self.root))
        return sorted(out)


# Third-party codec libraries that are not importable in this sandbox (checked
# by setup and recorded in evidence); their block functions are still verified.
THIRD_PARTY_ABSENT = {"cramjam", "snappy", "zstandard", "lz4"}


def _target_names(tg):
    if isinstance(tg, ast.Name):
        return [tg.id]
    if isinstance(tg, (ast.Tuple, ast.List)):
        out = []
        for e in tg.elts:
            out += _target_names(e)
        return out
    return []
