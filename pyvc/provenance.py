"""Frame obligations by provenance (DESIGN 2.5): decides, for every store in every
function of the pure-Python package, which object is written.

A store (`x[k] = v`, `x.a = v`, `del x[k]`, augmented forms, mutating method call,
`global` rebinding) is allowed when the written object is
  * allocated during the call (`fresh`),
  * the method's own instance (`self`; per-instance state, C18),
  * a parameter the function is declared to modify (contracts/_frames.py), or
  * a caller-supplied stream (I/O effect; methods write/read/seek/truncate/flush/close).
Anything else -- module-level objects, mutable default arguments, class attributes,
undeclared parameters, objects of unknown origin -- fails the obligation.

The analysis is intraprocedural and flow-insensitive: a variable assigned on several
paths gets the least favourable tag.  Not SMT; back end `provenance`.
"""
import ast
import os

MUTATORS = {"append", "pop", "update", "popitem", "insert", "extend", "add", "remove", "clear",
            "setdefault", "discard", "sort", "reverse", "appendleft", "popleft"}
STREAM_OPS = {"write", "read", "seek", "truncate", "flush", "close", "readline", "writelines"}
FRESH_CALLS = {"dict", "list", "set", "tuple", "bytes", "bytearray", "str", "int", "float", "bool", "frozenset",
               "sorted", "reversed", "enumerate", "zip", "range", "len", "isinstance", "getattr", "type", "repr",
               "BytesIO", "StringIO", "deepcopy", "object", "Context", "Decimal", "UUID", "compile", "namedtuple",
               "iter", "next", "max", "min", "sum", "abs", "any", "all", "ord", "chr", "pack", "unpack", "urandom",
               "open", "super", "print", "warn", "format", "hash", "id", "divmod", "round", "map", "filter"}
FRESH_METHODS = {"copy", "encode", "decode", "split", "rsplit", "join", "format", "hex", "to_bytes", "getvalue",
                 "read", "tell", "keys", "lower", "upper", "strip", "replace", "as_tuple", "hexdigest", "compress",
                 "decompress", "toordinal", "timetuple", "isoformat", "intersection", "union", "difference",
                 "startswith", "endswith", "index", "count", "bit_length", "fullmatch", "match", "scaleb",
                 "create_decimal", "total_seconds", "utcoffset", "dumps", "loads", "load", "seekable", "readable",
                 "flush", "write", "seek", "truncate", "close", "configure", "fromordinal", "fromisoformat"}
ALIAS_METHODS = {"get", "items", "values", "pop", "popitem", "setdefault", "__getitem__"}


class Site:
    def __init__(self, module, func, lineno, kind, target, tag, ok, why):
        self.module = module
        self.func = func
        self.lineno = lineno
        self.kind = kind
        self.target = target
        self.tag = tag
        self.ok = ok
        self.why = why

    @property
    def name(self):
        return f"{self.module}:{self.func}:frame.{self.kind}({self.target})"

    def to_json(self):
        return {"obligation": self.name, "line": self.lineno, "provenance": self.tag, "ok": self.ok, "why": self.why}


def worst(a, b):
    order = ["fresh", "immutable", "self", "stream"]
    if a == b:
        return a
    if a in order and b in order:
        return a if order.index(a) > order.index(b) else b
    if a in order:
        return b
    if b in order:
        return a
    parts = []
    for x in (a.split("|") + b.split("|")):
        if x not in parts and x not in order:
            parts.append(x)
    return "|".join(parts)


class ModuleFacts:
    def __init__(self, relpath, tree):
        self.relpath = relpath
        self.tree = tree
        self.mutable_globals = {}    # name -> description
        self.immutable_globals = set()
        self.functions = []          # (qualname, node, class or None)
        self.class_attrs = {}        # class -> {attr: desc}
        self.imported = set()
        self.self_attr_tags = {}     # class -> {attr: provenance of what is assigned to self.attr}
        self.bases = {}
        self._scan()

    def class_chain(self, cls):
        out, todo = [], [cls]
        while todo:
            c = todo.pop(0)
            if c in out:
                continue
            out.append(c)
            todo += self.bases.get(c, [])
        return out

    def _scan(self):
        for st in ast.walk(ast.Module(body=[s for s in self.tree.body], type_ignores=[])):
            pass
        def top(stmts):
            for st in stmts:
                if isinstance(st, (ast.Import, ast.ImportFrom)):
                    for a in st.names:
                        self.imported.add((a.asname or a.name).split(".")[0])
                elif isinstance(st, ast.FunctionDef):
                    self.functions.append((st.name, st, None))
                    self.immutable_globals.add(st.name)
                elif isinstance(st, ast.ClassDef):
                    self.immutable_globals.add(st.name)
                    self.bases[st.name] = [b.id for b in st.bases if isinstance(b, ast.Name)]
                    for c in st.body:
                        if isinstance(c, ast.FunctionDef):
                            self.functions.append((f"{st.name}.{c.name}", c, st.name))
                        elif isinstance(c, ast.Assign):
                            for tg in c.targets:
                                if isinstance(tg, ast.Name) and is_mutable_expr(c.value):
                                    self.class_attrs.setdefault(st.name, {})[tg.id] = ast.unparse(c.value)[:60]
                elif isinstance(st, (ast.Assign, ast.AnnAssign)):
                    value = st.value
                    targets = st.targets if isinstance(st, ast.Assign) else [st.target]
                    for tg in targets:
                        if isinstance(tg, ast.Name) and value is not None:
                            if is_mutable_expr(value):
                                self.mutable_globals[tg.id] = ast.unparse(value)[:60]
                            else:
                                self.immutable_globals.add(tg.id)
                elif isinstance(st, ast.Try):
                    top(st.body)
                    for h in st.handlers:
                        top(h.body)
                    top(st.orelse)
                elif isinstance(st, ast.If):
                    top(st.body)
                    top(st.orelse)
        top(self.tree.body)
        # nested functions
        for q, node, cls in list(self.functions):
            for sub in ast.walk(node):
                if isinstance(sub, ast.FunctionDef) and sub is not node:
                    self.functions.append((f"{q}.<locals>.{sub.name}", sub, cls))


def is_mutable_expr(e):
    if isinstance(e, (ast.Dict, ast.List, ast.Set, ast.ListComp, ast.DictComp, ast.SetComp)):
        return True
    if isinstance(e, ast.Call):
        f = e.func
        nm = f.id if isinstance(f, ast.Name) else (f.attr if isinstance(f, ast.Attribute) else "")
        if nm in ("dict", "list", "set", "Context", "bytearray", "defaultdict", "OrderedDict", "deque", "BytesIO", "StringIO"):
            return True
        return False
    if isinstance(e, ast.BinOp):
        return is_mutable_expr(e.left) or is_mutable_expr(e.right)
    return False


class FuncAnalysis:
    def __init__(self, mf, qualname, node, cls, allowed, global_mutables):
        self.mf = mf
        self.qualname = qualname
        self.node = node
        self.cls = cls
        self.allowed = set(allowed)
        self.global_mutables = global_mutables   # name -> "module.name"
        self.params = {}
        self.default_mutable = {}
        a = node.args
        allp = a.posonlyargs + a.args + a.kwonlyargs
        defaults = [None] * (len(a.posonlyargs + a.args) - len(a.defaults)) + list(a.defaults) + list(a.kw_defaults)
        for p, d in zip(allp, defaults):
            self.params[p.arg] = True
            if d is not None and is_mutable_expr(d):
                self.default_mutable[p.arg] = ast.unparse(d)
        if a.vararg:
            self.params[a.vararg.arg] = True
        if a.kwarg:
            self.params[a.kwarg.arg] = True
        self.locals = {}     # name -> tag
        self.declared_global = set()
        self._own_nodes = list(self._walk_own(node))
        for n in self._own_nodes:
            if isinstance(n, ast.Global):
                self.declared_global |= set(n.names)
        self._fixpoint()

    def _walk_own(self, node):
        """nodes of this function excluding nested function bodies"""
        stack = list(node.body)
        while stack:
            n = stack.pop()
            yield n
            for c in ast.iter_child_nodes(n):
                if isinstance(c, (ast.FunctionDef, ast.Lambda, ast.ClassDef)):
                    continue
                stack.append(c)

    def _fixpoint(self):
        for _ in range(6):
            changed = False
            for n in self._own_nodes:
                pairs = []
                if isinstance(n, ast.Assign):
                    for tg in n.targets:
                        pairs += self._bind(tg, n.value)
                elif isinstance(n, ast.AnnAssign) and n.value is not None:
                    pairs += self._bind(n.target, n.value)
                elif isinstance(n, ast.AugAssign) and isinstance(n.target, ast.Name):
                    pairs.append((n.target.id, "fresh"))
                elif isinstance(n, (ast.For, ast.comprehension)):
                    it = n.iter
                    tag = self.tag_iter_elem(it)
                    for nm in names_in(n.target):
                        pairs.append((nm, tag))
                elif isinstance(n, ast.With):
                    for item in n.items:
                        if item.optional_vars is not None:
                            for nm in names_in(item.optional_vars):
                                pairs.append((nm, self.tag(item.context_expr)))
                elif isinstance(n, ast.ExceptHandler) and n.name:
                    pairs.append((n.name, "fresh"))
                elif isinstance(n, ast.NamedExpr):
                    pairs.append((n.target.id, self.tag(n.value)))
                for nm, tg in pairs:
                    old = self.locals.get(nm)
                    new = tg if old is None else worst(old, tg)
                    if new != old:
                        self.locals[nm] = new
                        changed = True
            if not changed:
                break

    def _bind(self, tg, value):
        if isinstance(tg, ast.Name):
            return [(tg.id, self.tag(value))]
        if isinstance(tg, (ast.Tuple, ast.List)):
            if isinstance(value, (ast.Tuple, ast.List)) and len(value.elts) == len(tg.elts):
                out = []
                for t2, v2 in zip(tg.elts, value.elts):
                    out += self._bind(t2, v2)
                return out
            t = self.tag_iter_elem(value)
            return [(nm, t) for nm in names_in(tg)]
        return []

    def tag_iter_elem(self, it):
        """provenance of the elements produced by iterating `it`"""
        if isinstance(it, ast.Call):
            f = it.func
            nm = f.id if isinstance(f, ast.Name) else (f.attr if isinstance(f, ast.Attribute) else "")
            if nm in ("range",):
                return "immutable"
            if nm in ("enumerate", "zip", "sorted", "reversed", "list", "tuple") and it.args:
                return self.tag_iter_elem(it.args[0])
            if nm in ("items", "values", "keys") and isinstance(f, ast.Attribute):
                return self.tag(f.value)
        return self.tag(it)

    def tag(self, e):
        if e is None or isinstance(e, (ast.Constant, ast.JoinedStr, ast.Compare, ast.BoolOp, ast.UnaryOp)) and not isinstance(e, ast.BoolOp):
            return "immutable" if e is not None else "immutable"
        if isinstance(e, ast.BoolOp):
            t = None
            for v in e.values:
                tv = self.tag(v)
                t = tv if t is None else worst(t, tv)
            return t
        if isinstance(e, ast.IfExp):
            return worst(self.tag(e.body), self.tag(e.orelse))
        if isinstance(e, (ast.Dict, ast.List, ast.Set, ast.Tuple, ast.ListComp, ast.DictComp, ast.SetComp, ast.GeneratorExp, ast.Lambda)):
            return "fresh"
        if isinstance(e, ast.BinOp):
            return "fresh"
        if isinstance(e, ast.Name):
            nm = e.id
            if nm in self.declared_global:
                return f"global:{self.global_mutables.get(nm, self.mf.relpath + ':' + nm)}"
            if nm in self.params:
                if nm == "self" and self.cls:
                    return "self"
                if nm in self.default_mutable:
                    return f"default-arg:{self.qualname}.{nm}|param:{nm}"
                return f"param:{nm}"
            if nm in self.locals:
                return self.locals[nm]
            if nm in self.global_mutables:
                return f"global:{self.global_mutables[nm]}"
            if nm in self.mf.mutable_globals:
                return f"global:{self.mf.relpath}:{nm}"
            return "immutable"     # functions, classes, constants, builtins
        if isinstance(e, ast.Attribute):
            base = self.tag(e.value)
            if base == "self" and self.cls:
                for c in self.mf.class_chain(self.cls):
                    at = self.mf.self_attr_tags.get(c, {}).get(e.attr)
                    if at is not None:
                        bad = [p for p in at.split("|") if not (p in ("fresh", "immutable", "self") )]
                        if bad:
                            return f"self-alias:{c}.{e.attr}={'|'.join(bad)}"
                        return "self"
                for c in self.mf.class_chain(self.cls):
                    if e.attr in self.mf.class_attrs.get(c, {}):
                        return f"class-attr:{c}.{e.attr}"
            return base
        if isinstance(e, ast.Subscript):
            return self.tag(e.value)
        if isinstance(e, ast.Starred):
            return self.tag(e.value)
        if isinstance(e, ast.Call):
            f = e.func
            if isinstance(f, ast.Name):
                if f.id in FRESH_CALLS or f.id[:1].isupper():
                    return "fresh"
                r = RETURNS.get(f.id)
                if r is not None:
                    return self._returns(r, e)
                return f"result-of:{f.id}"
            if isinstance(f, ast.Attribute):
                if f.attr in ALIAS_METHODS:
                    return self.tag(f.value)
                if f.attr in FRESH_METHODS or f.attr[:1].isupper():
                    return "fresh"
                r = RETURNS.get(f.attr)
                if r is not None:
                    return self._returns(r, e)
                return f"result-of:.{f.attr}"
            return "unknown"
        if isinstance(e, (ast.Yield, ast.Await)):
            return "unknown"
        return "unknown"

    def _returns(self, r, call):
        if r == "fresh":
            return "fresh"
        if r.startswith("arg"):
            i = int(r[3:])
            if i < len(call.args):
                return self.tag(call.args[i])
            return "unknown"
        return r

    def _assigned_on_self(self, attr):
        return False

    # ------------------------------------------------------------------ stores
    def sites(self):
        out = []
        for n in self._own_nodes:
            if isinstance(n, (ast.Assign, ast.AugAssign, ast.AnnAssign, ast.Delete)):
                targets = (n.targets if isinstance(n, (ast.Assign, ast.Delete)) else [n.target])
                for tg in targets:
                    for t2 in flatten(tg):
                        if isinstance(t2, (ast.Subscript, ast.Attribute)):
                            kind = "del" if isinstance(n, ast.Delete) else "store"
                            out.append(self._site(n, kind, t2.value, ast.unparse(t2)))
                        elif isinstance(t2, ast.Name) and t2.id in self.declared_global:
                            out.append(Site(self.mf.relpath, self.qualname, n.lineno, "global-rebind", t2.id,
                                            f"global:{t2.id}", False, "rebinding a module-level name"))
            elif isinstance(n, ast.Call) and _callee_name(n) in CALLEE_MODIFIES:
                # handing an object to a callee's in/out parameter is a write to that object
                cname = _callee_name(n)
                params, modp = CALLEE_MODIFIES[cname]
                offset = 1 if (params and params[0] == "self") else 0
                for mp in modp:
                    arg = None
                    for kw in n.keywords:
                        if kw.arg == mp:
                            arg = kw.value
                    if arg is None and mp in params:
                        i = params.index(mp) - offset
                        if 0 <= i < len(n.args):
                            arg = n.args[i]
                    if arg is None or (isinstance(arg, ast.Constant) and arg.value is None):
                        continue
                    out.append(self._site(n, f"passes-to-inout.{cname}.{mp}", arg, ast.unparse(arg)))
            elif isinstance(n, ast.Call) and isinstance(n.func, ast.Attribute):
                if n.func.attr in MUTATORS:
                    out.append(self._site(n, "mutate." + n.func.attr, n.func.value, ast.unparse(n.func.value)))
                elif n.func.attr in STREAM_OPS:
                    out.append(self._site(n, "stream." + n.func.attr, n.func.value, ast.unparse(n.func.value), stream=True))
        return out

    def _site(self, n, kind, obj_expr, text, stream=False):
        tag = self.tag(obj_expr)
        ok, why = self.allowed_tag(tag, stream)
        return Site(self.mf.relpath, self.qualname, n.lineno, kind, text[:60], tag, ok, why)

    def allowed_tag(self, tag, stream=False):
        parts = tag.split("|")
        whys = []
        for p in parts:
            if p in ("fresh", "immutable"):
                continue
            if p == "self":
                continue
            if p.startswith("param:"):
                nm = p[6:]
                if nm in self.allowed or stream:
                    continue
                whys.append(f"writes through parameter `{nm}` which is not declared modifiable")
                continue
            if stream and (p.startswith("result-of") or p == "unknown"):
                whys.append(f"stream operation on an object of unknown origin ({p})")
                continue
            if p.startswith("default-arg:"):
                whys.append(f"writes a mutable default argument object ({p})")
                continue
            if p.startswith("global:"):
                whys.append(f"writes module-level state ({p})")
                continue
            if p.startswith("self-alias:"):
                key, _, src = p[len("self-alias:"):].partition("=")
                if key in SELF_ALIASES:
                    continue
                if stream and all(x.startswith("param:") for x in src.split("|")):
                    continue      # I/O on the stream the instance was constructed with
                whys.append(f"writes an object stored on the instance that aliases a constructor argument ({p})")
                continue
            if p.startswith("class-attr:"):
                whys.append(f"writes a class attribute shared by all instances ({p})")
                continue
            whys.append(f"cannot classify the written object ({p})")
        return (not whys), "; ".join(whys)


def _callee_name(call):
    f = call.func
    if isinstance(f, ast.Name):
        return f.id
    if isinstance(f, ast.Attribute):
        return f.attr
    return None


# simple function name -> (parameter list, in/out parameters), filled by analyse()
CALLEE_MODIFIES = {}


def flatten(tg):
    if isinstance(tg, (ast.Tuple, ast.List)):
        out = []
        for e in tg.elts:
            out += flatten(e)
        return out
    if isinstance(tg, ast.Starred):
        return flatten(tg.value)
    return [tg]


def names_in(tg):
    return [n.id for n in ast.walk(tg) if isinstance(n, ast.Name)]


# what repo functions return, for the tag of `x = f(...)`: "fresh" | "arg<i>" (may alias
# its i-th positional argument) -- read from contracts/_frames.py
RETURNS = {}
SELF_ALIASES = {}


def analyse(repo_root, frames_path, sub="fastavro", skip=("__main__.py",)):
    """-> (sites, inventory)"""
    ns = {}
    if os.path.exists(frames_path):
        exec(compile(open(frames_path).read(), frames_path, "exec"), ns)
    modifies = ns.get("MODIFIES", {})
    RETURNS.clear()
    RETURNS.update(ns.get("RETURNS", {}))
    SELF_ALIASES.clear()
    SELF_ALIASES.update(ns.get("SELF_ALIASES", {}))
    files = []
    for dp, dn, fn in os.walk(os.path.join(repo_root, sub)):
        for f in sorted(fn):
            if f.endswith(".py") and f not in skip:
                files.append(os.path.relpath(os.path.join(dp, f), repo_root))
    mods = {}
    for rel in sorted(files):
        mods[rel] = ModuleFacts(rel, ast.parse(open(os.path.join(repo_root, rel)).read()))
    # names imported from sibling modules that denote mutable module-level objects
    all_mutable = {}
    for rel, mf in mods.items():
        for nm in mf.mutable_globals:
            all_mutable.setdefault(nm, []).append(rel)
    CALLEE_MODIFIES.clear()
    for (rel, q), plist in modifies.items():
        mf = mods.get(rel)
        if mf is None:
            continue
        for q2, node, cls in mf.functions:
            if q2 == q:
                a = node.args
                CALLEE_MODIFIES[q.split(".")[-1]] = ([p.arg for p in a.posonlyargs + a.args + a.kwonlyargs], list(plist))
    sites = []
    nfuncs = 0
    # what is stored on instances: provenance of every `self.attr = expr` (iterated: an attribute
    # may be assigned from another attribute)
    for _round in range(3):
      for rel, mf in mods.items():
        gm = {nm: f"{all_mutable[nm][0]}:{nm}" for nm in mf.imported if nm in all_mutable}
        for q, node, cls in mf.functions:
            if cls is None:
                continue
            fa = FuncAnalysis(mf, q, node, cls, [], gm)
            for n in fa._own_nodes:
                if isinstance(n, ast.Assign):
                    for tg in n.targets:
                        if isinstance(tg, ast.Attribute) and isinstance(tg.value, ast.Name) and tg.value.id == "self":
                            t = fa.tag(n.value)
                            cur = mf.self_attr_tags.setdefault(cls, {}).get(tg.attr)
                            mf.self_attr_tags[cls][tg.attr] = t if cur is None else worst(cur, t)
    for rel, mf in mods.items():
        gm = {nm: f"{all_mutable[nm][0]}:{nm}" for nm in mf.imported if nm in all_mutable}
        for q, node, cls in mf.functions:
            nfuncs += 1
            allowed = modifies.get((rel, q), modifies.get((rel, q.split(".<locals>.")[0]), []))
            fa = FuncAnalysis(mf, q, node, cls, allowed, gm)
            sites += fa.sites()
    import hashlib
    h = hashlib.sha256()
    for rel in sorted(mods):
        h.update(rel.encode())
        h.update(ast.dump(mods[rel].tree, include_attributes=False).encode())
    inventory = {
        "source_hash": h.hexdigest()[:16],
        "mutable_globals": {rel: mf.mutable_globals for rel, mf in mods.items() if mf.mutable_globals},
        "mutable_defaults": {},
        "class_attrs": {rel: mf.class_attrs for rel, mf in mods.items() if mf.class_attrs},
        "functions": nfuncs,
    }
    for rel, mf in mods.items():
        for q, node, cls in mf.functions:
            a = node.args
            allp = a.posonlyargs + a.args + a.kwonlyargs
            defaults = [None] * (len(a.posonlyargs + a.args) - len(a.defaults)) + list(a.defaults) + list(a.kw_defaults)
            for p, d in zip(allp, defaults):
                if d is not None and is_mutable_expr(d):
                    inventory["mutable_defaults"].setdefault(rel, []).append(f"{q}({p.arg}={ast.unparse(d)})")
    return sites, inventory, modifies
