"""Call dispatch: builtins, data methods, model streams, externals, repo functions
(by contract or inlined), spec functions, constructors."""
import ast
import z3

from . import sorts as S
from .sorts import V, Ref, Const, Py, box, unbox
from . import arith, models


SP_IDENT = {"float_bits": ("float", "int"), "float_from_bits": ("int", "float")}


def _U(msg):
    from .engine import Unsupported
    return Unsupported(msg)


def _R(exc, site=""):
    from .engine import Raise
    return Raise(exc, site)


def _isR(x):
    from .engine import Raise
    return isinstance(x, Raise)


def call(ex, st, e):
    # forms that need the raw AST
    if isinstance(e.func, ast.Name) and e.func.id == "super" and not e.args:
        yield st, Const("super", None)
        return
    if any(isinstance(a, ast.Starred) for a in e.args) or any(k.arg is None for k in e.keywords):
        raise _U("star-args")
    for st1, f in ex.expr(st, e.func):
        if _isR(f):
            yield st1, f
            continue
        argnodes = list(e.args) + [k.value for k in e.keywords]
        for st2, vals in ex.exprs(st1, argnodes):
            if _isR(vals):
                yield st2, vals
                continue
            args = vals[:len(e.args)]
            kwargs = {k.arg: v for k, v in zip(e.keywords, vals[len(e.args):])}
            yield from dispatch(ex, st2, f, args, kwargs, e)


def dispatch(ex, st, f, args, kwargs, node):
    if ex.total and isinstance(f, Const) and f.kind in ("builtin", "type", "datamethod", "specident"):
        # ill-kinded operations inside total (spec / clause) evaluation sit in dead branches:
        # they denote an unspecified value
        try:
            res = list(_dispatch(ex, st, f, args, kwargs, node))
        except _UnsupportedType() as u:
            if all(isinstance(a, V) for a in args):
                ex.partial_touched = True
                nm = f.val if isinstance(f.val, str) else f.val[1]
                res = [(st, V("py", ex.eng.opaque_fn("junk_call_" + str(nm), *[box(a) for a in args])))]
            else:
                raise
        yield from res
        return
    yield from _dispatch(ex, st, f, args, kwargs, node)


def _UnsupportedType():
    from .engine import Unsupported
    return Unsupported


def _dispatch(ex, st, f, args, kwargs, node):
    if any(isinstance(a, Const) and a.kind == "libdt" for a in args):
        args = [ex.eng.lib_value(st, a) if isinstance(a, Const) and a.kind == "libdt" else a for a in args]
    eng = ex.eng
    if isinstance(f, Const) and f.kind == "typing" and str(f.val).endswith(".cast") and len(args) == 2:
        yield st, args[1]          # typing.cast(T, x) is x
        return
    if not isinstance(f, Const):
        if isinstance(f, V) and f.ty == "none":
            if ex.total:
                raise _U("calling None")
            yield st, _R("TypeError", "call-none")
            return
        raise _U(f"call of non-callable {f}")
    k = f.kind
    if k == "builtin":
        yield from builtin(ex, st, f.val, args, kwargs, node)
    elif k == "ext":
        from . import externals
        yield from externals.call(ex, st, f.val, args, kwargs, node)
    elif k == "spec":
        if kwargs:
            raise _U("spec kwargs")
        yield st, f.val.apply(args)
    elif k == "specident" and f.val == "dset":
        d = ex.narrow(st, args[0])
        dt = d.t if d.ty in ("dict", "py") else None
        if dt is None:
            raise _U("dset on non-dict")
        yield st, V("dict", S.dict_set(dt, box(args[1]), box(args[2])))
    elif k == "specident" and f.val == "bv_to_int":
        yield st, V("int", ex.as_int(ex.narrow(st, args[0]) if args[0].ty == "py" else args[0]))
    elif k == "specident" and f.val == "is_data":
        a = args[0]
        if isinstance(a, V) and a.ty in ("py", "obj"):
            yield st, V("bool", z3.Not(z3.And(Py.is_obj(box(a)), Py.cls(box(a)) == 7)))
        else:
            yield st, S.mk_bool(True)
    elif k == "specident" and f.val == "is_lib":
        a = args[0]
        nm = z3.simplify(args[1].t) if isinstance(args[1], V) and args[1].ty == "str" else None
        if nm is None or not z3.is_string_value(nm) or nm.as_string() not in models.CLSID:
            raise _U("is_lib needs a literal class name from the model's class table")
        if isinstance(a, V) and a.ty in ("py", "obj"):
            yield st, V("bool", z3.And(Py.is_obj(box(a)), Py.cls(box(a)) == models.CLSID[nm.as_string()]))
        else:
            yield st, S.mk_bool(False)
    elif k == "specident" and f.val == "set_add":
        a = ex.narrow(st, args[0])
        x = box(args[1])
        yield st, V("set", z3.If(z3.Contains(a.t, z3.Unit(x)), a.t, z3.Concat(a.t, z3.Unit(x))))
    elif k == "specident" and f.val == "seq_items":
        d = ex.narrow(st, args[0])
        if d.ty in ("list", "tuple"):
            yield st, V("list", d.t)
        else:
            yield st, V("list", py_items(box(d)))
    elif k == "specident":
        a = ex.narrow(st, args[0])
        src, dst = SP_IDENT[f.val]
        if a.ty == "py":
            a = S.unbox(a.t, src)
        yield st, V(dst, a.t)
    elif k == "lemma":
        yield from lemma_call(ex, st, f.val, args, kwargs, node)
    elif k == "pyfn":
        # helper usable only inside contract clauses
        yield from clause_helper(ex, st, f.val, args, kwargs, node)
    elif k == "func":
        yield from repo_call(ex, st, f.val, None, args, kwargs, node)
    elif k == "method":
        ref, fi = f.val
        yield from repo_call(ex, st, fi, ref, args, kwargs, node)
    elif k == "streammethod":
        ref, name = f.val
        from . import streams
        yield from streams.call(ex, st, ref, name, args, kwargs, node)
    elif k == "datamethod":
        from . import datamethods
        base, attr, recv = f.val
        yield from datamethods.call(ex, st, base, attr, recv, args, kwargs, node)
    elif k == "class":
        yield from construct(ex, st, f.val, args, kwargs, node)
    elif k in ("type", "exttype"):
        if f.val == "datetime.date" and len(args) == 3 and not kwargs and all(
                isinstance(a, V) and a.ty == "int" and z3.is_int_value(z3.simplify(a.t)) for a in args):
            # date(y, m, d) on literals (module constants such as DAYS_SHIFT): evaluated by the library itself
            import datetime as _dt
            try:
                d = _dt.date(*[z3.simplify(a.t).as_long() for a in args])
            except ValueError:
                yield st, _R("ValueError", "date()")
                return
            eng.assumptions_used.add("datetime.date(<literals>).toordinal() evaluated by CPython's datetime at verification time")
            yield st, Const("libdate", d)
        elif f.val == "datetime.datetime" and len(args) >= 3 and all(
                isinstance(a, V) and a.ty == "int" and z3.is_int_value(z3.simplify(a.t)) for a in args) and (
                not kwargs or (set(kwargs) == {"tzinfo"} and isinstance(kwargs["tzinfo"], Const) and kwargs["tzinfo"].val == "datetime.timezone.utc")):
            import datetime as _dt
            tz = _dt.timezone.utc if kwargs else None
            yield st, Const("libdt", _dt.datetime(*[z3.simplify(a.t).as_long() for a in args], tzinfo=tz))
        elif eng.contracts.get_external(f.val, ex.fr.behavior) is not None:
            from . import externals
            yield from externals.call(ex, st, f.val, args, kwargs, node)     # a library class with an assumed constructor contract
        else:
            yield from builtin(ex, st, f.val, args, kwargs, node)
    elif k == "closure":
        yield from inline_closure(ex, st, f.val, args, kwargs, node)
    elif k == "constdictmethod":
        base, attr = f.val
        if attr == "get":
            dflt = args[1] if len(args) > 1 else S.none()
            yield from models.const_dict_lookup(ex, st, base, args[0], default=dflt, raise_keyerror=False)
        else:
            raise _U(f"const dict method {attr}")
    elif k == "tablefn":
        mod, table, key = f.val
        tv = eng.resolve_in_module(mod, table)
        for kname, fv in tv.val.items():
            if not (isinstance(fv, Const) and fv.kind == "func"):
                continue
            a, st = ex.split(st, key.t == z3.StringVal(kname))
            if a is not None:
                yield from repo_call(ex, a, fv.val, None, args, kwargs, node)
            if st is None:
                return
        # no other entries (object invariant of the shape)
    elif k == "libdate.toordinal":
        yield st, S.mk_int(f.val.toordinal())
    elif k == "hexdigest":
        alg, data = f.val
        eng.used_externals.add("hashlib.new(...).hexdigest")
        yield st, eng.spec_apply("spec.core", "HASH_HEX", [alg, data])
    elif k == "supermethod":
        ref, fi = f.val
        yield from repo_call(ex, st, fi, ref, args, kwargs, node)
    else:
        raise _U(f"call of {f}")


def clause_helper(ex, st, name, args, kwargs, node):
    if name == "table_key":
        f = args[0]
        if isinstance(f, Const) and f.kind == "tablefn":
            yield st, f.val[2]
            return
        raise _U("table_key of a non-table function")
    if name == "same":
        a, b = args
        if isinstance(a, V) and isinstance(b, V):
            yield st, V("bool", box(a) == box(b))
            return
        raise _U("same() on non-values")
    if name == "implies":
        yield st, V("bool", z3.Implies(S.truthy(args[0]), S.truthy(args[1])))
        return
    raise _U(f"clause helper {name}")


# -------------------------------------------------------------------- builtins
def builtin(ex, st, name, args, kwargs, node):
    eng = ex.eng
    if kwargs and name not in ("dict",):
        # no modelled built-in looks at keyword arguments: ignoring one (sorted(key=...), int(x, base=...)) would be unsound
        raise _U(f"keyword arguments to the built-in {name}")
    a0 = ex.narrow(st, args[0]) if args and isinstance(args[0], V) else (args[0] if args else None)
    if name == "len":
        v = a0
        if isinstance(v, Const) and v.kind in ("tuple", "list", "dict", "set"):
            yield st, S.mk_int(len(v.val))
            return
        if v.ty in ("str", "bytes", "list", "tuple", "set"):
            _len_bound(ex, st, z3.Length(v.t))
            yield st, V("int", z3.Length(v.t))
        elif v.ty == "dict":
            _len_bound(ex, st, z3.Length(S.dkeys(v.t)))
            yield st, V("int", z3.Length(S.dkeys(v.t)))
        elif v.ty == "py":
            t = v.t
            ok = z3.Or(Py.is_str(t), Py.is_bytes(t), Py.is_list(t), Py.is_tuple(t), Py.is_dict(t), Py.is_set(t))
            for st1, r in ex.need(st, ok, "TypeError", "len"):
                if r is not None:
                    yield st1, r
                else:
                    _len_bound(ex, st1, pylen(t))
                    yield st1, V("int", pylen(t))
        else:
            if ex.total:
                ex.partial_touched = True
                yield st, V("int", Py.i(eng.opaque_fn("junk_len", box(v))))
                return
            yield st, _R("TypeError", "len")
        return
    if name == "isinstance":
        yield st, V("bool", models.isinstance_cond(ex, st, args[0], args[1]))
        return
    if name == "ord":
        v = a0
        if v.ty == "bytes":
            for st1, r in ex.need(st, z3.Length(v.t) == 1, "TypeError", "ord"):
                yield st1, (r if r is not None else V("int", v.t[z3.IntVal(0)]))
        elif v.ty == "str":
            for st1, r in ex.need(st, z3.Length(v.t) == 1, "TypeError", "ord"):
                yield st1, (r if r is not None else V("int", z3.StrToCode(v.t)))
        else:
            raise _U("ord")
        return
    if name == "chr":
        yield st, V("str", z3.StrFromCode(ex.as_int(a0)))
        return
    if name == "bool":
        yield st, V("bool", S.truthy(a0) if args else z3.BoolVal(False))
        return
    if name == "int":
        v = a0
        if v.ty in ("int", "bool"):
            yield st, V("int", ex.as_int(v))
        elif v.ty == "float":
            # truncation toward zero; OverflowError/ValueError for inf/nan
            for st1, r in ex.need(st, eng.fop_bool("isfinite", v.t), "OverflowError", "int(float)"):
                yield st1, (r if r is not None else V("int", eng.fop_int("trunc", v.t)))
        elif v.ty == "py":
            for st1, r in ex.need(st, z3.Or(Py.is_int(v.t), Py.is_bool(v.t)), "TypeError", "int()"):
                yield st1, (r if r is not None else V("int", z3.If(Py.is_int(v.t), Py.i(v.t), z3.If(Py.b(v.t), 1, 0))))
        else:
            raise _U(f"int({v.ty})")
        return
    if name == "float":
        v = a0
        if v.ty == "float":
            yield st, v
        elif v.ty in ("int", "bool"):
            yield st, V("float", eng.fop("of_int", ex.as_int(v)))
        elif v.ty == "py":
            # float(x): floats pass, ints convert, strings parse (NaN/Infinity defaults), else TypeError
            t = v.t
            ok = z3.Or(Py.is_float(t), Py.is_int(t), Py.is_bool(t), z3.And(Py.is_str(t), eng.fop_bool("str_parses", Py.s(t))))
            bad_str = z3.And(Py.is_str(t), z3.Not(eng.fop_bool("str_parses", Py.s(t))))
            for st1, r in ex.need(st, z3.Not(bad_str), "ValueError", "float(str)"):
                if r is not None:
                    yield st1, r
                    continue
                for st2, r2 in ex.need(st1, ok, "TypeError", "float()"):
                    if r2 is not None:
                        yield st2, r2
                        continue
                    bits = z3.If(Py.is_float(t), Py.fbits(t),
                           z3.If(Py.is_int(t), eng.fop("of_int", Py.i(t)),
                           z3.If(Py.is_bool(t), eng.fop("of_int", z3.If(Py.b(t), z3.IntVal(1), z3.IntVal(0))),
                                 eng.fop("of_str", Py.s(t)))))
                    yield st2, V("float", bits)
        elif v.ty == "str":
            for st1, r in ex.need(st, eng.fop_bool("str_parses", v.t), "ValueError", "float(str)"):
                yield st1, (r if r is not None else V("float", eng.fop("of_str", v.t)))
        else:
            if ex.total:
                raise _U(f"float({v.ty})")
            yield st, _R("TypeError", "float()")
        return
    if name == "str":
        if not args:
            yield st, S.mk_str("")
        else:
            yield st, V("str", eng.format_str(a0))
        return
    if name == "repr":
        yield st, V("str", eng.format_str(a0, "repr"))
        return
    if name == "bytes":
        v = a0
        if v is None:
            yield st, S.mk_bytes(b"")
        elif v.ty == "bytes":
            yield st, v
        elif v.ty == "list":
            # bytes([a, b, ...]) with ints 0..255
            elems = arith._concrete_elems(z3.simplify(v.t))
            if elems is None:
                raise _U("bytes(list) symbolic")
            ints = []
            conds = []
            for el in elems:
                nv = ex.narrow(st, V("py", el))
                ints.append(ex.as_int(nv))
                if nv.ty == "py":
                    conds.append(Py.is_int(el))
            rng = z3.And(*([z3.And(i >= 0, i <= 255) for i in ints] + conds)) if ints else z3.BoolVal(True)
            for st1, r in ex.need(st, rng, "ValueError", "bytes()"):
                yield st1, (r if r is not None else V("bytes", S.seq_of(ints, S.I)))
        elif v.ty == "py":
            for st1, r in ex.need(st, Py.is_bytes(v.t), "TypeError", "bytes()"):
                yield st1, (r if r is not None else V("bytes", Py.bs(v.t)))
        else:
            raise _U(f"bytes({v.ty})")
        return
    if name in ("list", "tuple"):
        if not args:
            yield st, V(name, z3.Empty(S.SeqPy))
            return
        v = a0
        if isinstance(v, Const) and v.kind == "genexp":
            from . import comps
            yield from comps.genexp_to(ex, st, v.val, name)
            return
        if v.ty in ("list", "tuple"):
            yield st, V(name, v.t)
            return
        if v.ty == "dict":
            yield st, V(name, S.dkeys(v.t))
            return
        if v.ty == "py":
            ok = z3.Or(Py.is_list(v.t), Py.is_tuple(v.t), Py.is_dict(v.t), Py.is_set(v.t))
            for st1, r in ex.need(st, ok, "TypeError", f"{name}()"):
                yield st1, (r if r is not None else V(name, py_items(v.t)))
            return
        raise _U(f"{name}({v.ty})")
    if name == "set":
        if not args:
            yield st, V("set", z3.Empty(S.SeqPy))
            return
        v = a0
        if isinstance(v, Const) and v.kind == "genexp":
            from . import comps
            yield from comps.genexp_to(ex, st, v.val, "set")
            return
        if v.ty == "set":
            yield st, v
            return
        if v.ty == "dict":
            # keys of a dict are distinct: the key sequence is a set
            yield st, V("set", S.dkeys(v.t))
            return
        if v.ty in ("list", "tuple"):
            yield st, eng.spec_apply("spec.core", "dedup", [V("list", v.t)], rtag="set")
            return
        if v.ty == "py":
            for st1, r in ex.need(st, z3.Or(Py.is_dict(v.t)), "TypeError", "set()"):
                yield st1, (r if r is not None else V("set", Py.keys(v.t)))
            return
        raise _U(f"set({v.ty})")
    if name == "dict":
        if not args and not kwargs:
            yield st, V("dict", Py.dict(z3.Empty(S.SeqPy), z3.Empty(S.SeqPy)))
            return
        raise _U("dict(...)")
    if name in ("all", "any"):
        v = a0
        if isinstance(v, Const) and v.kind == "genexp":
            from . import comps
            yield from comps.genexp_to(ex, st, v.val, name)
            return
        if v.ty in ("list", "tuple"):
            yield st, eng.spec_apply("spec.core", "all_truthy" if name == "all" else "any_truthy", [V("list", v.t)])
            return
        raise _U(f"{name}()")
    if name == "abs":
        x = ex.as_int(a0)
        yield st, V("int", z3.If(x >= 0, x, -x))
        return
    if name in ("min", "max") and len(args) == 2:
        x, y = ex.as_int(a0), ex.as_int(ex.narrow(st, args[1]))
        yield st, V("int", z3.If((x <= y) if name == "min" else (x >= y), x, y))
        return
    if name == "getattr":
        nm = z3.simplify(args[1].t)
        if not z3.is_string_value(nm):
            raise _U("getattr symbolic")
        res = list(ex.getattr(st, args[0], nm.as_string()))
        for st1, r in res:
            if _isR(r) and r.exc == "AttributeError" and len(args) > 2:
                yield st1, args[2]
            else:
                yield st1, r
        return
    if name == "type":
        yield st, Const("typeof", args[0])
        return
    if name == "next":
        raise _U("next()")
    if name == "object":
        yield st, eng.new_sentinel()
        return
    raise _U(f"builtin {name}")


def _len_bound(ex, st, ln):
    """CPython: the length of any container fits Py_ssize_t (assumed, listed in evidence)"""
    if not ex.total:
        ex.eng.assumptions_used.add("len(x) <= 2**63 - 1 for every container (Py_ssize_t)")
        st.assume(ln <= 2 ** 63 - 1)


def py_items(t):
    """item sequence of a dynamically typed iterable (list / tuple / dict keys / set)"""
    if z3.is_app(t):
        if t.decl().eq(Py.list) or t.decl().eq(Py.tuple) or t.decl().eq(Py.set):
            return t.arg(0)
    return S.PYITEMS(t)


def pylen(t):
    return S.PYLEN(t)


# ------------------------------------------------------------ repo functions
def bind_args(ex, st, fi_node, selfref, args, kwargs, modname):
    """-> dict param -> value (defaults evaluated in the callee's module scope)"""
    a = fi_node.args
    if a.vararg:
        raise _U("varargs callee")
    params = [p.arg for p in a.posonlyargs + a.args]
    if a.kwarg:
        # **kwargs swallows the keyword arguments that name no parameter; the parameter itself is
        # bound to an opaque host value (a body that reads it is outside the subset)
        known = set(params) | {p.arg for p in a.kwonlyargs}
        extra = {k: v for k, v in kwargs.items() if k not in known}
        kwargs = {k: v for k, v in kwargs.items() if k in known}
    bound = {}
    if a.kwarg:
        bound[a.kwarg.arg] = Const("kwargs", extra)
    pos = list(args)
    if selfref is not None:
        pos = [selfref] + pos
    if len(pos) > len(params):
        raise _U("too many positional args")
    for p, v in zip(params, pos):
        bound[p] = v
    for k, v in kwargs.items():
        if k in bound:
            raise _U("duplicate arg")
        bound[k] = v
    defaults = a.defaults
    dparams = params[len(params) - len(defaults):] if defaults else []
    sub = None
    for p, dnode in zip(dparams, defaults):
        if p not in bound:
            sub = sub or type(ex)(ex.eng, ex.fr, total=True, modname=modname)
            bound[p] = sub.one(_empty_state(st), dnode)
    for p, dnode in zip(a.kwonlyargs, a.kw_defaults):
        if p.arg not in bound:
            if dnode is None:
                raise _U(f"missing kwonly {p.arg}")
            sub = sub or type(ex)(ex.eng, ex.fr, total=True, modname=modname)
            bound[p.arg] = sub.one(_empty_state(st), dnode)
    for p in params:
        if p not in bound:
            raise _U(f"missing argument {p}")
    return bound


def _empty_state(st):
    s = st.fork()
    s.frames = [{}]
    return s


def repo_call(ex, st, fi, selfref, args, kwargs, node):
    eng = ex.eng
    if ex.fr.contract:
        cb = ex.fr.contract.call_behaviors
        # the full qualified name ("BinaryDecoder.read_int") wins over the short one, "Class.*" covers a class
        behavior = cb.get(fi.qualname) or (cb.get(fi.qualname.split(".")[0] + ".*") if "." in fi.qualname else None) \
            or cb.get(fi.qualname.split(".")[-1], ex.fr.behavior)
    else:
        behavior = "default"
    c = eng.contracts.get(fi.module, fi.qualname, behavior)
    bound = bind_args(ex, st, fi.node, selfref, args, kwargs, fi.module)
    if c is not None and not c.inline:
        from . import callcontract
        yield from callcontract.apply(ex, st, c, fi, bound, node)
        return
    yield from inline_call(ex, st, fi, bound, node)


def inline_call(ex, st, fi, bound, node):
    eng = ex.eng
    if fi.is_generator():
        raise _U(f"call of generator {fi.qualname} outside a for loop")
    if ex.fr.inline_depth >= 4:
        raise _U(f"inline depth at {fi.qualname}")
    if fi.key in getattr(ex.fr, "inline_stack", []):
        raise _U(f"recursive call without contract: {fi.qualname}")
    ex.fr.inline_stack = getattr(ex.fr, "inline_stack", []) + [fi.key]
    ex.fr.inline_depth += 1
    eng.note_inlined(ex.fr, fi)
    sub = type(ex)(eng, ex.fr, total=ex.total, modname=fi.module)
    saved_loop_prefix = ex.fr.loop_prefix
    ex.fr.loop_prefix = saved_loop_prefix + fi.qualname.split(".")[-1] + "."
    old_index = ex.fr.loop_index
    from .engine import loops_in
    ex.fr.loop_index = {id(n): i for i, n in enumerate(loops_in(fi.node))}
    ex.fr.func_stack = getattr(ex.fr, "func_stack", []) + [fi.node]
    try:
        st.frames.append(dict(bound))
        nframes = len(st.frames)
        outs = sub.block(st, fi.node.body)
        if sub.partial_touched:
            # an inlined callee evaluated in total mode met an operation that can fail: the caller's
            # merge of branches (try_merge) must not treat the expression as total
            ex.partial_touched = True
        res = []
        for st1, o in outs:
            assert len(st1.frames) == nframes, "frame stack corrupted"
            st1.frames.pop()
            if o[0] == "next":
                res.append((st1, S.none()))
            elif o[0] == "return":
                res.append((st1, o[1]))
            elif o[0] == "raise":
                res.append((st1, o[1]))
            else:
                raise _U("break/continue escaping function")
    finally:
        ex.fr.inline_depth -= 1
        ex.fr.inline_stack = ex.fr.inline_stack[:-1]
        ex.fr.loop_prefix = saved_loop_prefix
        ex.fr.loop_index = old_index
        ex.fr.func_stack = ex.fr.func_stack[:-1]
    yield from res


def inline_closure(ex, st, fnode, args, kwargs, node):
    """nested def called in the defining frame: inlined; free variables resolve through
    the frame stack (late binding, as in Python)."""
    bound = bind_args(ex, st, fnode, None, args, kwargs, ex.modname)
    if ex.fr.inline_depth >= 4:
        raise _U("inline depth (closure)")
    ex.fr.inline_depth += 1
    try:
        st.frames.append(dict(bound))
        nframes = len(st.frames)
        outs = ex.block(st, fnode.body)
        res = []
        for st1, o in outs:
            assert len(st1.frames) == nframes
            st1.frames.pop()
            if o[0] == "next":
                res.append((st1, S.none()))
            elif o[0] in ("return", "raise"):
                res.append((st1, o[1]))
            else:
                raise _U("break/continue escaping closure")
    finally:
        ex.fr.inline_depth -= 1
    yield from res


def construct(ex, st, ci, args, kwargs, node):
    eng = ex.eng
    name = ci.name if hasattr(ci, "name") else ci
    if name in ("BytesIO", "StringIO"):
        from . import streams
        yield from streams.new_memory_stream(ex, st, name, args)
        return
    init = eng.find_method(name, "__init__")
    ref = st.alloc(name, {})
    if init is None:
        yield st, ref
        return
    for st1, r in repo_call(ex, st, init, ref, args, kwargs, node):
        if _isR(r):
            yield st1, r
        else:
            yield st1, ref


def lemma_call(ex, st, c, args, kwargs, node):
    """application of a lemma: in total mode (clauses, hints) the instantiated statement
    `requires ==> ensures`; in ghost code (lemma bodies) a call by contract with a
    termination (decreases) obligation."""
    from . import callcontract
    params = c.params or list(c.types.keys())
    fv = {}
    for p, a in zip(params, args):
        fv[p] = callcontract._coerce(a, c.types.get(p, "py")) if isinstance(a, V) else a
    for k2, v in kwargs.items():
        fv[k2] = v
    ex.eng.used_lemmas.add(c.qualname)
    pre = callcontract.clause(ex, st, c, c.requires, fv) if c.requires is not None else z3.BoolVal(True)
    post = callcontract.clause(ex, st, c, c.ensures, fv) if c.ensures is not None else z3.BoolVal(True)
    if ex.total:
        yield st, V("bool", z3.Implies(pre, post))
        return
    ex.eng.obligation(ex, st, f"lemma.{c.qualname}.pre", pre, "call-pre", node)
    cur = ex.fr.contract
    if cur is not None and cur.kind == "lemma" and cur.qualname == c.qualname:
        if c.decreases is None:
            raise _U(f"recursive lemma {c.qualname} without decreases")
        m_new = callcontract.clause_term(ex, st, c, c.decreases, fv)
        m_old = ex.fr.entry_measure
        ex.eng.obligation(ex, st, f"lemma.{c.qualname}.decreases", z3.And(m_new >= 0, m_new < m_old), "decreases", node)
    st.assume(post)
    yield st, S.none()
