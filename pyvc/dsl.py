"""The (z3-free) decorators and helpers used by spec and contract files.  Importable
under any Python (the bounded harness runs the executable specs under /venv's
interpreter, which has no z3)."""


def spec(fn):
    """Decorator: marks an executable spec function (no run-time effect)."""
    fn.__pyvc_spec__ = True
    return fn


def opaque(fn):
    """Decorator: spec function that is never unfolded (its meaning is given by an
    @external contract, by axioms or by lemmas)."""
    fn.__pyvc_opaque__ = True
    fn.__pyvc_spec__ = True
    return fn


def axiom(trigger):
    """Decorator: a boolean function whose universally quantified truth is ASSUMED
    (listed in evidence, cross-checked by `vcheck axioms`).  It is instantiated at
    every ground application of the spec function named `trigger` (same parameters)."""
    def deco(fn):
        fn.__pyvc_axiom__ = trigger
        return fn
    return deco


def lemma_fn(trigger):
    """Like @axiom, but PROVED: a lemma contract with the same name must be discharged
    in the same run (checked by the driver)."""
    def deco(fn):
        fn.__pyvc_axiom__ = trigger
        fn.__pyvc_lemma__ = True
        return fn
    return deco


IDENTITY_FNS = {"float_bits": ("float", "int"), "float_from_bits": ("int", "float"),
                "dset": None, "seq_items": None, "bv_to_int": None, "is_data": None, "set_add": None, "is_lib": None}


def dset(d, k, v):
    """functional dict update with Python's insertion-order semantics (spec helper)"""
    out = dict(d)
    out[k] = v
    return out


def seq_items(d):
    """the items of a list/tuple datum as a list (spec helper)"""
    return list(d)


def is_data(x):
    """x is a data value, not one of the library's module-level sentinel objects (`X = object()`)"""
    return type(x) is not object


def is_lib(x, name):
    """x is an instance of exactly the library class `name` ("datetime.time", "datetime.date", ...; a literal)"""
    import importlib
    mod, cls = name.rsplit(".", 1)
    return type(x) is getattr(importlib.import_module(mod), cls)


def set_add(s, x):
    """the set s with x added (spec helper)"""
    return set(s) | {x}
