"""Specification functions: executable Python (the oracle) that is *also* translated.

A spec function is a pure, total Python function with type annotations drawn from
int/bool/str/bytes/list/tuple/dict/object ("py").  It enters a VC as an
uninterpreted z3 function; its defining equation is instantiated on demand at
the ground applications that occur in the VC (bounded by `fuel`).
"""
import ast
import importlib
import inspect
import os
import sys
import z3

from . import sorts as S

_ANN = {"int": "int", "bool": "bool", "str": "str", "bytes": "bytes", "list": "list",
        "tuple": "tuple", "dict": "dict", "object": "py", "float": "float", "set": "set", "bv64": "bv64"}


from .dsl import spec, opaque, axiom, lemma_fn, IDENTITY_FNS, dset, seq_items  # noqa: F401


class SpecFn:
    def __init__(self, module, name, node, pyfn):
        self.module = module
        self.name = name
        self.node = node
        self.pyfn = pyfn
        self.params = [a.arg for a in node.args.args]
        self.ptags = [_ANN.get(_annname(a.annotation), "py") for a in node.args.args]
        self.rtag = _ANN.get(_annname(node.returns), "py")
        dom = [_sort(t) for t in self.ptags]
        self.decl = z3.Function(f"{module.split('.')[-1]}.{name}", *dom, _sort(self.rtag))
        self.opaque = bool(getattr(pyfn, "__pyvc_opaque__", False))
        self.axiom_trigger = getattr(pyfn, "__pyvc_axiom__", None)
        self.is_lemma = bool(getattr(pyfn, "__pyvc_lemma__", False))

    def apply(self, args):
        """args: list of V -> V"""
        ts = []
        for a, tag in zip(args, self.ptags):
            t = coerce(a, tag)
            if tag in ("int", "bool"):
                t = S.simp(t)     # canonical index arguments (i + 1 - 1 -> i)
            ts.append(t)
        return S.V(self.rtag, self.decl(*ts))


def coerce(v, tag):
    """V -> z3 term of the sort for tag."""
    if tag in S.BOXED_TAGS:
        if isinstance(v, S.V):
            return S.box(v)
        raise TypeError(f"cannot pass {v!r} to spec function")
    if v.ty == tag:
        return v.t
    if tag == "bv64":
        return S.to_bv64(v)
    if v.ty == "bv64" and tag == "int":
        return S.bv_to_int_term(v.t)
    if v.ty == "py":
        return S.unbox(v.t, tag).t
    if v.ty == "bool" and tag == "int":
        return z3.If(v.t, z3.IntVal(1), z3.IntVal(0))
    # kind mismatch (only reachable in dead branches of total evaluation): the accessor
    # applied to a value of another kind is an unspecified value of the right sort
    con, acc, _ = S.NATIVE[tag]
    return acc(S.box(v))


def _annname(a):
    if a is None:
        return "object"
    if isinstance(a, ast.Name):
        return a.id
    if isinstance(a, ast.Constant) and isinstance(a.value, str):
        return a.value
    return "object"


def _sort(tag):
    if tag in S.BOXED_TAGS:
        return S.Py
    if tag == "bv64":
        return S.BV64
    return S.NATIVE[tag][2]


class SpecRegistry:
    def __init__(self):
        self.by_decl = {}     # decl name -> SpecFn
        self.modules = {}     # python module name -> {fn name -> SpecFn}
        self.consts = {}      # module name -> {NAME -> python value}
        self.axioms = {}      # trigger decl name -> [SpecFn]
        self.idents = {}      # module name -> set of identity-function names

    def load_module(self, modname):
        if modname in self.modules:
            return self.modules[modname]
        pymod = importlib.import_module(modname)
        src = inspect.getsource(pymod)
        tree = ast.parse(src)
        fns = {}
        self.modules[modname] = fns
        consts = {}
        self.consts[modname] = consts
        for st in tree.body:
            if isinstance(st, ast.FunctionDef):
                pyfn = getattr(pymod, st.name)
                if st.name in IDENTITY_FNS:
                    self.idents.setdefault(modname, set()).add(st.name)
                elif getattr(pyfn, "__pyvc_axiom__", None):
                    sf = SpecFn(modname, st.name, st, pyfn)
                    sf.pending_trigger = sf.axiom_trigger
                    fns[st.name] = sf
                elif getattr(pyfn, "__pyvc_spec__", False):
                    sf = SpecFn(modname, st.name, st, pyfn)
                    fns[st.name] = sf
                    self.by_decl[sf.decl.name()] = sf
            elif isinstance(st, ast.Assign) and len(st.targets) == 1 and isinstance(st.targets[0], ast.Name):
                nm = st.targets[0].id
                if hasattr(pymod, nm):
                    val = getattr(pymod, nm)
                    if isinstance(val, (int, str, bytes, bool, tuple, list, frozenset, set, dict)) or val is None:
                        consts[nm] = val
        # imports of other spec modules inside a spec module
        self._imports = getattr(self, "_imports", {})
        imp = {}
        for st in tree.body:
            if isinstance(st, ast.ImportFrom) and st.module and st.level == 0:
                for a in st.names:
                    imp[a.asname or a.name] = (st.module, a.name)
            elif isinstance(st, ast.Import):
                for a in st.names:
                    imp[a.asname or a.name] = (a.name, None)
        self._imports[modname] = imp
        # bind axioms to their trigger declarations
        for sf in fns.values():
            trig = getattr(sf, "pending_trigger", None)
            if trig:
                r = self.lookup(modname, trig)
                if r is None or r[0] != "fn":
                    raise ValueError(f"axiom {sf.name}: unknown trigger {trig}")
                self.axioms.setdefault(r[1].decl.name(), []).append(sf)
        return fns

    def lookup(self, modname, name):
        """resolve a name used inside spec module `modname`"""
        fns = self.load_module(modname)
        if name in fns:
            return ("fn", fns[name])
        if name in self.consts[modname]:
            return ("const", self.consts[modname][name])
        if name in self.idents.get(modname, ()):
            return ("ident", name)
        imp = self._imports[modname].get(name)
        if imp:
            m, n = imp
            if n is None:
                return ("module", m)
            if n in IDENTITY_FNS and m in ("pyvc.specs", "pyvc.dsl"):
                return ("ident", n)
            if m.startswith("spec") or m.startswith("contracts"):
                return self.lookup(m, n)
        return None

    def apps_in(self, terms, seen_ids):
        """collect applications of registered spec functions inside z3 terms"""
        out = []
        stack = list(terms)
        while stack:
            t = stack.pop()
            tid = t.get_id()
            if tid in seen_ids:
                continue
            seen_ids.add(tid)
            if z3.is_app(t):
                d = t.decl()
                if d.kind() == z3.Z3_OP_UNINTERPRETED and t.num_args() > 0:
                    sf = self.by_decl.get(d.name())
                    if sf is not None:
                        out.append((sf, t))
                stack.extend(t.children())
            elif z3.is_quantifier(t):
                stack.append(t.body())
        return out
