"""Methods of str / bytes / list / dict / set / int values (assumed semantics,
cross-checked against CPython)."""
import ast
import z3

from . import sorts as S
from .sorts import V, Ref, Const, Py, box, unbox
from . import arith, models


def _U(msg):
    from .engine import Unsupported
    return Unsupported(msg)


def _R(exc, site=""):
    from .engine import Raise
    return Raise(exc, site)


def _isR(x):
    from .engine import Raise
    return isinstance(x, Raise)


def _writeback(ex, st, recv, newv):
    if recv is None:
        raise _U("mutating method on a temporary")
    res = list(ex.store(st, recv, newv))
    if len(res) != 1 or res[0][1] is not None:
        raise _U("mutator write-back forked")
    return res[0][0]


def call(ex, st, base, attr, recv, args, kwargs, node):
    eng = ex.eng
    if kwargs and attr not in ("decode", "to_bytes", "replace", "encode"):
        # only these methods' models look at their keyword arguments
        raise _U(f"keyword arguments to the method {attr}")
    base = ex.narrow(st, base)
    ty = base.ty
    if ty in ("py", "obj") and attr == "toordinal" and not args:
        # datetime.date / datetime.datetime: proleptic Gregorian ordinal (observer spec function, library range)
        t = base.t if ty == "py" else box(base)
        isdate = z3.And(Py.is_obj(t), z3.Or(Py.cls(t) == models.CLSID["datetime.date"], Py.cls(t) == models.CLSID["datetime.datetime"]))
        for st1, r in ex.need(st, isdate, "AttributeError", ".toordinal"):
            if r is not None:
                yield st1, r
                continue
            v = eng.spec_apply("spec.core", "date_ordinal", [V("py", t)])
            st1.assume(z3.And(v.t >= 1, v.t <= 3652059))
            eng.assumptions_used.add("datetime.date objects: 1 <= toordinal() <= 3652059 (0001-01-01 .. 9999-12-31, library invariant)")
            yield st1, v
        return
    if ty in ("py", "obj") and attr == "replace" and not args and set(kwargs) == {"tzinfo"} and isinstance(kwargs["tzinfo"], Const) \
            and kwargs["tzinfo"].val == "datetime.timezone.utc":
        # datetime.replace(tzinfo=timezone.utc): assumed contract of the library
        from . import externals
        t = base.t if ty == "py" else box(base)
        yield from externals.call(ex, st, "datetime.replace_tzinfo_utc", [V("py", t)], {}, node)
        return
    if ty in ("py", "obj") and attr == "as_tuple" and not args:
        # decimal.Decimal.as_tuple() -> (sign, digits, exponent) through the observer spec functions
        t = base.t if ty == "py" else box(base)
        isdec = z3.And(Py.is_obj(t), Py.cls(t) == models.CLSID["decimal.Decimal"])
        for st1, r in ex.need(st, isdec, "AttributeError", ".as_tuple"):
            if r is not None:
                yield st1, r
                continue
            x = V("py", t)
            sg = eng.spec_apply("spec.core", "dec_sign", [x])
            ds = eng.spec_apply("spec.core", "dec_digits", [x])
            xp = eng.spec_apply("spec.core", "dec_exp", [x])
            st1.assume(z3.Or(sg.t == 0, sg.t == 1))
            st1.assume(S.truthy(eng.spec_apply("spec.core", "DIGITS_OK", [ds, V("int", z3.Length(ds.t))])))
            eng.assumptions_used.add("decimal.Decimal.as_tuple(): sign is 0 or 1 and digits is a tuple of ints 0..9 (library invariant)")
            yield st1, V("tuple", z3.Concat(z3.Unit(box(sg)), z3.Unit(box(ds)), z3.Unit(box(xp))))
        return
    if ty == "py":
        # methods that tell us the kind the code expects
        if attr in ("get", "items", "keys", "values", "pop", "update", "setdefault", "copy", "popitem"):
            for st1, r in ex.need(st, Py.is_dict(base.t), "AttributeError", f".{attr}"):
                if r is not None:
                    yield st1, r
                else:
                    yield from call(ex, st1, V("dict", base.t), attr, recv, args, kwargs, node)
            return
        if attr in ("encode", "split", "rsplit", "join", "startswith", "endswith", "format", "lower", "upper", "strip"):
            for st1, r in ex.need(st, Py.is_str(base.t), "AttributeError", f".{attr}"):
                if r is not None:
                    yield st1, r
                else:
                    yield from call(ex, st1, V("str", Py.s(base.t)), attr, recv, args, kwargs, node)
            return
        if attr in ("decode", "hex"):
            for st1, r in ex.need(st, Py.is_bytes(base.t), "AttributeError", f".{attr}"):
                if r is not None:
                    yield st1, r
                else:
                    yield from call(ex, st1, V("bytes", Py.bs(base.t)), attr, recv, args, kwargs, node)
            return
        if attr in ("append", "extend", "index", "insert"):
            for st1, r in ex.need(st, Py.is_list(base.t), "AttributeError", f".{attr}"):
                if r is not None:
                    yield st1, r
                else:
                    yield from call(ex, st1, V("list", Py.items(base.t)), attr, recv, args, kwargs, node)
            return
        raise _U(f"method .{attr} on dynamically typed value")
    # ------------------------------------------------------------------ dict
    if ty == "dict":
        d = base.t
        if attr == "get":
            k = box(args[0])
            dflt = args[1] if len(args) > 1 else S.none()
            if not isinstance(dflt, V):
                # host-level default (e.g. a Ref): fork
                a, b = ex.split(st, S.dict_has(d, k))
                if a is not None:
                    yield a, ex.narrow(a, V("py", S.dict_get(d, k)))
                if b is not None:
                    yield b, dflt
                return
            yield st, ex.narrow(st, V("py", z3.If(S.dict_has(d, k), S.dict_get(d, k), box(dflt))))
            return
        if attr == "keys":
            if ex.total and getattr(ex, "modname", None) is not None:
                # module-level constant expression (e.g. `A | MAPPING.keys() | {X}`): a key view
                yield st, Const("keysview", base)
                return
            yield st, V("list", S.dkeys(d))
            return
        if attr == "values":
            yield st, V("list", S.dvals(d))
            return
        if attr == "items":
            yield st, Const("dictitems", base)
            return
        if attr == "copy":
            yield st, base
            return
        raise _U(f"dict.{attr}")
    # ------------------------------------------------------------------ list
    if ty == "list":
        if attr == "append":
            a = args[0]
            if not isinstance(a, V):
                raise _U("appending a host-level value")
            nv = V("list", z3.Concat(base.t, z3.Unit(box(a))))
            st1 = _writeback(ex, st, recv, nv)
            yield st1, S.none()
            return
        if attr == "extend":
            o = ex.narrow(st, args[0])
            if o.ty not in ("list", "tuple"):
                if o.ty == "py":
                    o = V("list", eng.opaque_seq(o.t))
                else:
                    raise _U("extend arg")
            nv = V("list", z3.Concat(base.t, o.t))
            st1 = _writeback(ex, st, recv, nv)
            yield st1, S.none()
            return
        if attr == "index":
            x = box(args[0])
            idx = z3.IndexOf(base.t, z3.Unit(x), z3.IntVal(0))
            for st1, r in ex.need(st, z3.Contains(base.t, z3.Unit(x)), "ValueError", "list.index"):
                yield st1, (r if r is not None else V("int", idx))
            return
        if attr == "pop":
            n = z3.Length(base.t)
            if args:
                i = ex.as_int(ex.narrow(st, args[0]))
            else:
                i = z3.IntVal(-1)
            for st1, r in ex.need(st, z3.And(-n <= i, i < n), "IndexError", "list.pop"):
                if r is not None:
                    yield st1, r
                    continue
                j = S.simp(models.norm_index(i, n))
                item = ex.narrow(st1, V("py", base.t[j]))
                nv = V("list", z3.Concat(z3.Extract(base.t, z3.IntVal(0), j), z3.Extract(base.t, j + 1, n - j - 1)))
                st2 = _writeback(ex, st1, recv, nv)
                yield st2, item
            return
        raise _U(f"list.{attr}")
    # ------------------------------------------------------------------- str
    if ty == "str":
        s = base.t
        if attr == "encode":
            if args or kwargs:
                raise _U("encode args")
            # UTF-8: strings are sequences of Unicode scalar values (no lone surrogates:
            # DESIGN 2.6), for which encode() succeeds
            lit = z3.simplify(base.t)
            if z3.is_string_value(lit) and all(ord(ch) < 128 for ch in lit.as_string()) and "\\u{" not in lit.as_string():
                # a literal ASCII string (module constants such as MAGIC = b"Obj" + chr(1).encode()): its bytes
                yield st, S.mk_bytes(lit.as_string().encode("ascii"))
                return
            yield st, eng.spec_apply("spec.core", "utf8", [base])
            return
        if attr in ("split", "rsplit"):
            sep = ex.narrow(st, args[0])
            mx = ex.as_int(args[1]) if len(args) > 1 else z3.IntVal(-1)
            fn = "str_split" if attr == "split" else "str_rsplit"
            yield st, eng.spec_apply("spec.core", fn, [base, sep, V("int", mx)])
            return
        if attr == "join":
            a = args[0]
            if isinstance(a, Const) and a.kind == "genexp":
                from . import comps
                yield from comps.genexp_to(ex, st, a.val, "join", sep=base)
                return
            a = ex.narrow(st, a)
            if a.ty in ("list", "tuple", "set"):
                yield st, eng.spec_apply("spec.core", "str_join", [base, V("list", a.t)])
                return
            raise _U("join arg")
        if attr == "startswith":
            yield st, V("bool", z3.PrefixOf(ex.narrow(st, args[0]).t, s))
            return
        if attr == "endswith":
            yield st, V("bool", z3.SuffixOf(ex.narrow(st, args[0]).t, s))
            return
        raise _U(f"str.{attr}")
    # ----------------------------------------------------------------- bytes
    if ty == "bytes":
        if attr == "decode":
            errors = kwargs.get("errors")
            strict = True
            if errors is not None:
                et = z3.simplify(errors.t) if isinstance(errors, V) and errors.ty == "str" else None
                strict = et is not None and z3.is_string_value(et) and et.as_string() == "strict"
                if not strict:
                    # errors=<symbolic>: valid UTF-8 decodes the same under every handler
                    pass
            if args:
                raise _U("decode codec arg")
            valid = eng.spec_apply("spec.core", "utf8_valid", [base])
            if strict or errors is None:
                for st1, r in ex.need(st, valid.t, "UnicodeDecodeError", "decode"):
                    yield st1, (r if r is not None else eng.spec_apply("spec.core", "utf8_decode", [base]))
            else:
                et = errors.t if isinstance(errors, V) and errors.ty == "str" else None
                if et is None:
                    raise _U("decode errors type")
                a, b = ex.split(st, valid.t)
                if a is not None:
                    yield a, eng.spec_apply("spec.core", "utf8_decode", [base])
                if b is not None:
                    c, d = ex.split(b, et == z3.StringVal("strict"))
                    if c is not None:
                        yield c, _R("UnicodeDecodeError", "decode")
                    if d is not None:
                        yield d, V("str", eng.opaque_fn_str("decode_lenient", box(base), et))
            return
        if attr == "hex":
            yield st, eng.spec_apply("spec.core", "hex_of", [base])
            return
        if attr == "startswith":
            o = ex.narrow(st, args[0])
            if o.ty != "bytes":
                raise _U("bytes.startswith arg")
            yield st, V("bool", z3.PrefixOf(o.t, base.t))
            return
        raise _U(f"bytes.{attr}")
    # ------------------------------------------------------------------- int
    if ty in ("int", "bool", "bv64"):
        x = ex.as_int(base)
        if attr == "bit_length":
            yield st, eng.spec_apply("spec.core", "bit_length", [V("int", x)])
            return
        if attr == "to_bytes":
            length = args[0] if args else kwargs.get("length")
            order = args[1] if len(args) > 1 else kwargs.get("byteorder")
            signed = kwargs.get("signed", S.mk_bool(False))
            ot = z3.simplify(order.t)
            if not z3.is_string_value(ot):
                raise _U("to_bytes byteorder symbolic")
            sg = z3.simplify(signed.t)
            if not (z3.is_true(sg) or z3.is_false(sg)):
                raise _U("to_bytes signed symbolic")
            n = ex.as_int(ex.narrow(st, length))
            big = ot.as_string() == "big"
            nc = arith.is_conc(n)
            if nc is not None and nc >= 0:
                p = z3.IntVal(2 ** (8 * nc - 1) if z3.is_true(sg) and nc > 0 else (2 ** (8 * nc) if not z3.is_true(sg) else 1))
                if z3.is_true(sg):
                    ok = z3.And(-p <= x, x < p) if nc > 0 else z3.Or(x == 0, x == -1)    # CPython: (-1).to_bytes(0, signed=True) == b""
                    fn = "int_to_bytes_signed_big" if big else "int_to_bytes_signed_little"
                else:
                    ok = z3.And(x >= 0, x < p)
                    fn = "int_to_bytes_big" if big else "int_to_bytes_little"
                for st1, r in ex.need(st, ok, "OverflowError", "to_bytes"):
                    yield st1, (r if r is not None else eng.spec_apply("spec.core", fn, [V("int", x), V("int", n)]))
                return
            if z3.is_true(sg):
                p = eng.spec_apply("spec.core", "pow2", [V("int", 8 * n - 1)]).t
                ok = z3.And(n >= 0, z3.Or(z3.And(n == 0, z3.Or(x == 0, x == -1)), z3.And(n > 0, -p <= x, x < p)))
                fn = "int_to_bytes_signed_big" if big else "int_to_bytes_signed_little"
            else:
                p = eng.spec_apply("spec.core", "pow2", [V("int", 8 * n)]).t
                ok = z3.And(n >= 0, x >= 0, x < p)
                fn = "int_to_bytes_big" if big else "int_to_bytes_little"
            for st1, r in ex.need(st, ok, "OverflowError", "to_bytes"):
                yield st1, (r if r is not None else eng.spec_apply("spec.core", fn, [V("int", x), V("int", n)]))
            return
        raise _U(f"int.{attr}")
    # ------------------------------------------------------------------- set
    if ty == "set":
        if attr == "intersection":
            o = ex.narrow(st, args[0])
            yield st, eng.spec_apply("spec.core", "set_inter", [base, V("set", o.t)])
            return
        if attr == "add":
            a = args[0]
            x = box(a)
            nv = V("set", z3.If(z3.Contains(base.t, z3.Unit(x)), base.t, z3.Concat(base.t, z3.Unit(x))))
            st1 = _writeback(ex, st, recv, nv)
            yield st1, S.none()
            return
        raise _U(f"set.{attr}")
    raise _U(f"method .{attr} on {ty}")
