"""Comprehensions and generator expressions consumed by all/any/set/list/tuple/join:
translated as loops over an accumulator `_acc` (unrolled when the length is
concrete, otherwise cut at the invariant `loops["comp<k>"]` of the contract)."""
import ast
import z3

from . import sorts as S
from .sorts import V, Ref, Const, Py, box
from . import arith, loops
from .engine import NEXT, RET, RAISE, BRK, CONT


def _U(msg):
    from .engine import Unsupported
    return Unsupported(msg)


def _isR(x):
    from .engine import Raise
    return isinstance(x, Raise)


def comp_key(ex, node):
    root = ex.fr.comp_root if getattr(ex.fr, "comp_root", None) is not None else (ex.fr.finfo.node if ex.fr.finfo else None)
    if root is None:
        return None
    comps = [n for n in ast.walk(root) if isinstance(n, (ast.ListComp, ast.SetComp, ast.DictComp, ast.GeneratorExp))]
    comps.sort(key=lambda n: (n.lineno, n.col_offset))
    for i, n in enumerate(comps):
        if n is node:
            return f"{ex.fr.loop_prefix}comp{i}"
    return None


def comprehension(ex, st, node, kind):
    yield from run(ex, st, node, kind)


def genexp_to(ex, st, node, kind, sep=None):
    yield from run(ex, st, node, kind, sep)


def empty_acc(kind):
    if kind in ("list", "tuple", "set"):
        return V("list" if kind == "tuple" else kind, z3.Empty(S.SeqPy))
    if kind == "dict":
        return V("dict", Py.dict(z3.Empty(S.SeqPy), z3.Empty(S.SeqPy)))
    if kind == "all":
        return S.mk_bool(True)
    if kind == "any":
        return S.mk_bool(False)
    if kind == "join":
        return V("list", z3.Empty(S.SeqPy))
    raise _U(f"comprehension kind {kind}")


def step(ex, st, kind, acc, vals):
    """fold one element into the accumulator -> (acc', stop: z3 Bool)"""
    if kind in ("list", "tuple", "join"):
        return V("list", z3.Concat(acc.t, z3.Unit(box(vals[0])))), z3.BoolVal(False)
    if kind == "set":
        x = box(vals[0])
        return V("set", z3.If(z3.Contains(acc.t, z3.Unit(x)), acc.t, z3.Concat(acc.t, z3.Unit(x)))), z3.BoolVal(False)
    if kind == "dict":
        return V("dict", S.dict_set(acc.t, box(vals[0]), box(vals[1]))), z3.BoolVal(False)
    if kind == "all":
        t = S.truthy(vals[0])
        return V("bool", t), z3.Not(t)
    if kind == "any":
        t = S.truthy(vals[0])
        return V("bool", t), t
    raise _U(kind)


def finish(ex, st, kind, acc, sep):
    if kind == "tuple":
        return V("tuple", acc.t)
    if kind == "join":
        return ex.eng.spec_apply("spec.core", "str_join", [sep, acc])
    return acc


def run(ex, st, node, kind, sep=None):
    if len(node.generators) != 1:
        raise _U("nested comprehension generators")
    gen = node.generators[0]
    if gen.is_async:
        raise _U("async comprehension")
    elts = [node.key, node.value] if isinstance(node, ast.DictComp) else [node.elt]
    key = comp_key(ex, node)
    for st1, itv in loops.eval_iter(ex, st, gen.iter):
        if _isR(itv):
            yield st1, itv
            continue
        ikind, payload = loops.iter_sequence(ex, st1, itv)
        if ikind == "pyiter":
            t = payload
            ok = z3.Or(Py.is_list(t), Py.is_tuple(t), Py.is_dict(t), Py.is_set(t), Py.is_bytes(t))
            for st2, r in ex.need(st1, ok, "TypeError", "iter"):
                if r is not None:
                    yield st2, r
                    continue
                from .calls import py_items
                seq = py_items(t)
                yield from core(ex, st2, node, kind, sep, gen, elts, key, "seq", seq)
            continue
        if ikind == "hostseq":
            yield from core_host(ex, st1, node, kind, sep, gen, elts, payload)
            continue
        yield from core(ex, st1, node, kind, sep, gen, elts, key, ikind, payload)


def eval_element(ex, st, gen, elts, el):
    """bind target, evaluate filters and element expressions.
    yields (st, None) when filtered out, (st, [vals]) or (st, Raise)"""
    st.frames.append({})
    def pop(s):
        s.frames.pop()
        return s
    for st1, r in ex.store(st, gen.target, el):
        if r is not None:
            yield pop(st1), r
            continue
        states = [(st1, True)]
        for cond in gen.ifs:
            nxt = []
            for st2, alive in states:
                if not alive:
                    nxt.append((st2, False))
                    continue
                for st3, c in ex.expr(st2, cond):
                    if _isR(c):
                        yield pop(st3), c
                        continue
                    a, b = ex.split(st3, S.truthy(c))
                    if a is not None:
                        nxt.append((a, True))
                    if b is not None:
                        nxt.append((b, False))
            states = nxt
        for st2, alive in states:
            if not alive:
                yield pop(st2), None
                continue
            for st3, vals in ex.exprs(st2, elts):
                yield pop(st3), vals


def core_host(ex, st, node, kind, sep, gen, elts, items):
    states = [(st, empty_acc(kind))]
    done = []
    for it in items:
        nxt = []
        for st1, acc in states:
            for st2, vals in eval_element(ex, st1, gen, elts, it):
                if _isR(vals):
                    done.append((st2, vals))
                elif vals is None:
                    nxt.append((st2, acc))
                else:
                    acc2, stop = step(ex, st2, kind, acc, vals)
                    a, b = ex.split(st2, stop)
                    if a is not None:
                        done.append((a, finish(ex, a, kind, acc2, sep)))
                    if b is not None:
                        nxt.append((b, acc2))
        states = nxt
    for st1, acc in states:
        done.append((st1, finish(ex, st1, kind, acc, sep)))
    yield from done


def core(ex, st, node, kind, sep, gen, elts, key, ikind, payload):
    eng = ex.eng
    n = S.simp(loops.length(ex, st, ikind, payload))
    conc = arith.is_conc(n)
    c = ex.fr.contract
    inv = c.loops.get(key) if (c is not None and key is not None) else None
    if inv is None:
        if conc is not None and conc <= 64:
            items = [loops.element(ex, st, ikind, payload, z3.IntVal(k)) for k in range(conc)]
            items = [V(x.ty, S.simp(x.t)) if isinstance(x, V) else x for x in items]
            yield from core_host(ex, st, node, kind, sep, gen, elts, items)
            return
        raise _U(f"comprehension {key} at line {node.lineno} has no invariant")
    seqv = loops.seq_ghost(ex, st, ikind, payload)
    acc0 = empty_acc(kind)
    g0 = loops.eval_inv(ex, st, inv, {"_i": S.mk_int(0), "_seq": seqv, "_acc": acc0, "_n": V("int", n)})
    eng.obligation(ex, st, f"{key}.init", g0, "loop-init", node)
    body_st = st.fork()
    loops.havoc_for_loop(ex, body_st, [], (), heap=loops.may_modify_heap(ex, elts + list(gen.ifs)))
    exit_st = body_st.fork()
    i = S.fresh("_i", "int")
    acc = S.fresh("_acc", acc0.ty)
    kc = S.kind_constraint(acc)
    if kc is not None:
        body_st.assume(kc)
    body_st.assume(z3.And(i.t >= 0, i.t < n))
    body_st.assume(loops.eval_inv(ex, body_st, inv, {"_i": i, "_seq": seqv, "_acc": acc, "_n": V("int", n)}))
    results = []
    el = loops.element(ex, body_st, ikind, payload, i.t)
    for st1, vals in eval_element(ex, body_st, gen, elts, el):
        if _isR(vals):
            results.append((st1, vals))
            continue
        if vals is None:
            acc2, stop = acc, z3.BoolVal(False)
        else:
            acc2, stop = step(ex, st1, kind, acc, vals)
        a, b = ex.split(st1, stop)
        if a is not None:
            results.append((a, finish(ex, a, kind, acc2, sep)))
        if b is not None:
            # lemma instances for the step (contract: loop_hints[key]); `_acc` is the accumulator before the
            # step, `_new` the element (`_newkey` / `_newval` for dict comprehensions), `_acc2` the accumulator after
            hx = {"_i": i, "_seq": seqv, "_acc": acc, "_acc2": acc2, "_n": V("int", n)}
            if vals is not None:
                hx["_new"] = vals[0]
                if len(vals) > 1:
                    hx["_newkey"], hx["_newval"] = vals[0], vals[1]
            for h in loops._hints(ex, "loop_hints", key):
                b.assume(loops.eval_inv(ex, b, h, hx))
            g = loops.eval_inv(ex, b, inv, {"_i": V("int", i.t + 1), "_seq": seqv, "_acc": acc2, "_n": V("int", n)})
            eng.obligation(ex, b, f"{key}.preserve", g, "loop-preserve", node)
    accN = S.fresh("_acc", acc0.ty)
    kc = S.kind_constraint(accN)
    if kc is not None:
        exit_st.assume(kc)
    exit_st.assume(loops.eval_inv(ex, exit_st, inv, {"_i": V("int", n), "_seq": seqv, "_acc": accN, "_n": V("int", n)}))
    for h in loops._hints(ex, "exit_hints", key):
        exit_st.assume(loops.eval_inv(ex, exit_st, h, {"_i": V("int", n), "_seq": seqv, "_acc": accN, "_n": V("int", n)}))
    if eng.quick_sat(exit_st.path):
        results.append((exit_st, finish(ex, exit_st, kind, accN, sep)))
    yield from results
