"""Arithmetic, bit operations and comparisons (DESIGN.md 2.4).

Integers are mathematical integers (exact for Python's int).  Bit operations are
translated only through the identities listed below; anything else is
`unsupported`, never silently approximated.  Every identity is cross-checked
against CPython by `vcheck axioms`.
"""
import ast
import z3

from . import sorts as S
from .sorts import V, Ref, Const, Py, box


def _unsupported(msg):
    from .engine import Unsupported
    return Unsupported(msg)


def _raise(exc, site=""):
    from .engine import Raise
    return Raise(exc, site)


def is_conc(t):
    t = z3.simplify(t)
    return t.as_long() if z3.is_int_value(t) else None


def floordiv(x, y):
    c = is_conc(y)
    if c is not None and c > 0:
        return x / y
    q = x / y
    r = x % y
    return z3.If(y > 0, q, z3.If(r == 0, q, q - 1))


def pymod(x, y):
    c = is_conc(y)
    if c is not None and c > 0:
        return x % y
    r = x % y
    return z3.If(y > 0, r, z3.If(r == 0, r, r + y))


def mask_and(x, c):
    """x & c for a concrete integer c, via div/mod identities (two's complement,
    infinite sign extension)."""
    if c == 0:
        return z3.IntVal(0)
    if c == -1:
        return x
    if c < 0:
        # x & c == x - (x & ~c)   with ~c >= 0
        return x - mask_and(x, ~c)
    # decompose c into runs of ones
    terms = []
    j = 0
    while c >> j:
        if (c >> j) & 1:
            m = 0
            while (c >> (j + m)) & 1:
                m += 1
            # run of m ones starting at bit j
            if j == 0:
                terms.append(x % (1 << m))
            else:
                terms.append(((x / (1 << j)) % (1 << m)) * (1 << j))
            j += m
        else:
            j += 1
    out = terms[0]
    for t in terms[1:]:
        out = out + t
    return out


def binop(ex, st, op, a, b, node=None):
    eng = ex.eng
    a = ex.narrow(st, a)
    b = ex.narrow(st, b)
    if isinstance(op, ast.BitOr) and (_setlike(a) and _setlike(b)) and not (isinstance(a, V) and isinstance(b, V) and a.ty == b.ty == "set" and False):
        # union of sets / key views: kept symbolic (membership = disjunction over the parts)
        parts = (a.val if isinstance(a, Const) and a.kind == "setunion" else [a]) + \
                (b.val if isinstance(b, Const) and b.kind == "setunion" else [b])
        yield st, Const("setunion", parts)
        return
    if isinstance(a, Const) and a.kind == "libdt":
        a = eng.lib_value(st, a)
    if isinstance(b, Const) and b.kind == "libdt":
        b = eng.lib_value(st, b)
    if not (isinstance(a, V) and isinstance(b, V)):
        raise _unsupported(f"binop on host values {a} {b}")
    ta, tb = a.ty, b.ty
    if (isinstance(op, (ast.Add, ast.Sub)) and ta in ("py", "obj") and tb in ("py", "obj")
            and getattr(getattr(ex.fr, "contract", None), "lib_arith", False)):
        # datetime - datetime, datetime +/- timedelta (contracts that declare lib_arith): assumed contracts of the library
        from . import externals
        ba, bb = V("py", box(a)), V("py", box(b))
        both = z3.And(Py.is_obj(ba.t), Py.is_obj(bb.t))
        s_obj, s_other = ex.split(st, both)
        if s_obj is not None:
            yield from externals.call(ex, s_obj, "datetime.__sub__" if isinstance(op, ast.Sub) else "datetime.__add__", [ba, bb], {}, node)
        if s_other is None:
            return
        st = s_other
    num = ("int", "bool")
    # ---- 64-bit vectors (contracts that declare bv64 locals / specs typed bv64)
    if "bv64" in (ta, tb) and {ta, tb} <= {"bv64", "int", "bool", "py"}:
        x, y = S.to_bv64(a), S.to_bv64(b)
        if isinstance(op, ast.BitXor):
            yield st, V("bv64", x ^ y)
            return
        if isinstance(op, ast.BitAnd):
            yield st, V("bv64", x & y)
            return
        if isinstance(op, ast.BitOr):
            yield st, V("bv64", x | y)
            return
        if isinstance(op, ast.RShift):
            k = is_conc(ex.as_int(b)) if tb != "bv64" else None
            if k is None or ta != "bv64":
                raise _unsupported("bv64 shift by a non-constant")
            yield st, V("bv64", z3.LShR(x, k) if k < 64 else z3.BitVecVal(0, 64))
            return
        # arithmetic: back in the integers
        ia = V("int", ex.as_int(a))
        ib = V("int", ex.as_int(b))
        yield from binop(ex, st, op, ia, ib, node)
        return
    # ---- sequence concatenation / repetition
    if isinstance(op, ast.Add) and ta == tb and ta in ("str", "bytes", "list", "tuple"):
        yield st, V(ta, z3.Concat(a.t, b.t))
        return
    if isinstance(op, ast.Mult) and ta in ("tuple", "list", "bytes", "str") and tb in num:
        n = is_conc(ex.as_int(b))
        if n is None:
            rep = eng.spec_apply("spec.core", "repeat_" + ta, [a, V("int", ex.as_int(b))])
            yield st, rep
            return
        if n <= 0:
            yield st, V(ta, z3.Empty(a.t.sort()))
        else:
            yield st, V(ta, a.t if n == 1 else z3.Concat(*([a.t] * n)))
        return
    if isinstance(op, ast.Add) and ((ta in ("str", "bytes", "list", "tuple") and tb == "py")
                                    or (tb in ("str", "bytes", "list", "tuple") and ta == "py")):
        kind = ta if tb == "py" else tb
        dyn = b if tb == "py" else a
        for st1, r in ex.need(st, S.RECOG[kind](dyn.t), "TypeError", "concat"):
            if r is not None:
                yield st1, r
                continue
            dv = S.unbox(dyn.t, kind)
            yield st1, V(kind, z3.Concat(a.t, dv.t) if tb == "py" else z3.Concat(dv.t, b.t))
        return
    if isinstance(op, ast.Mod) and ta == "str":
        raise _unsupported("%-formatting")
    # ---- set algebra (Seq-backed sets) : only what the code uses
    if ta == "set" and tb == "set":
        if isinstance(op, ast.Sub):
            yield st, eng.spec_apply("spec.core", "set_diff", [a, b])
            return
        if isinstance(op, ast.BitOr):
            yield st, eng.spec_apply("spec.core", "set_union", [a, b])
            return
        raise _unsupported("set op")
    # ---- floats
    if ta == "float" or tb == "float":
        name = {ast.Add: "add", ast.Sub: "sub", ast.Mult: "mul", ast.Div: "div"}.get(type(op))
        if name is None:
            raise _unsupported("float op")
        fa = a.t if ta == "float" else eng.fop("of_int", ex.as_int(a))
        fb = b.t if tb == "float" else eng.fop("of_int", ex.as_int(b))
        yield st, V("float", eng.fop(name, fa, fb))
        return
    if ta == "py" or tb == "py":
        # dynamically typed numeric op: require ints
        conds = []
        if ta == "py":
            conds.append(Py.is_int(a.t))
        if tb == "py":
            conds.append(Py.is_int(b.t))
        for st1, r in ex.need(st, z3.And(*conds), "TypeError", "binop"):
            if r is not None:
                yield st1, r
                continue
            a1 = V("int", Py.i(a.t)) if ta == "py" else a
            b1 = V("int", Py.i(b.t)) if tb == "py" else b
            yield from binop(ex, st1, op, a1, b1, node)
        return
    if ta not in num or tb not in num:
        if ex.total:
            raise _unsupported(f"binop {type(op).__name__} on {ta},{tb}")
        yield st, _raise("TypeError", "binop")
        return
    x, y = ex.as_int(a), ex.as_int(b)
    if isinstance(op, ast.Add):
        yield st, V("int", x + y)
    elif isinstance(op, ast.Sub):
        yield st, V("int", x - y)
    elif isinstance(op, ast.Mult):
        yield st, V("int", x * y)
    elif isinstance(op, ast.FloorDiv):
        for st1, r in ex.need(st, y != 0, "ZeroDivisionError", "floordiv"):
            yield st1, (r if r is not None else V("int", floordiv(x, y)))
    elif isinstance(op, ast.Mod):
        for st1, r in ex.need(st, y != 0, "ZeroDivisionError", "mod"):
            yield st1, (r if r is not None else V("int", pymod(x, y)))
    elif isinstance(op, ast.Div):
        for st1, r in ex.need(st, y != 0, "ZeroDivisionError", "truediv"):
            yield st1, (r if r is not None else V("float", eng.fop("idiv", x, y)))
    elif isinstance(op, ast.Pow):
        bx = is_conc(x)
        ey = is_conc(y)
        if bx is not None and ey is not None and ey >= 0:
            yield st, V("int", z3.IntVal(bx ** ey))
        elif bx == 2:
            for st1, r in ex.need(st, y >= 0, "ValueError", "pow"):   # 2**-1 is a float
                yield st1, (r if r is not None else eng.spec_apply("spec.core", "pow2", [V("int", y)]))
        elif bx == 10:
            for st1, r in ex.need(st, y >= 0, "ValueError", "pow"):
                yield st1, (r if r is not None else eng.spec_apply("spec.core", "pow10", [V("int", y)]))
        elif ey is not None and 0 <= ey <= 4:
            out = z3.IntVal(1)
            for _ in range(ey):
                out = out * x
            yield st, V("int", out)
        else:
            raise _unsupported("pow")
    elif isinstance(op, ast.LShift):
        k = is_conc(y)
        if k is not None:
            if k < 0:
                yield st, _raise("ValueError", "lshift")
            else:
                yield st, V("int", x * (1 << k))
        else:
            for st1, r in ex.need(st, y >= 0, "ValueError", "lshift"):
                if r is not None:
                    yield st1, r
                else:
                    p = eng.spec_apply("spec.core", "pow2", [V("int", y)])
                    yield st1, V("int", x * p.t)
    elif isinstance(op, ast.RShift):
        k = is_conc(y)
        if k is not None:
            if k < 0:
                yield st, _raise("ValueError", "rshift")
            else:
                yield st, V("int", x / (1 << k))
        else:
            for st1, r in ex.need(st, y >= 0, "ValueError", "rshift"):
                if r is not None:
                    yield st1, r
                else:
                    p = eng.spec_apply("spec.core", "pow2", [V("int", y)])
                    yield st1, V("int", x / p.t)
    elif isinstance(op, ast.BitAnd):
        cy = is_conc(y)
        cx = is_conc(x)
        if cx is not None and cy is not None:
            yield st, V("int", z3.IntVal(cx & cy))
        elif cy is not None:
            yield st, V("int", mask_and(x, cy))
        elif cx is not None:
            yield st, V("int", mask_and(y, cx))
        else:
            r = eng.bitfn("band", x, y)
            # x & y with y in {0,-1}
            st.assume(z3.Implies(y == 0, r == 0))
            st.assume(z3.Implies(y == -1, r == x))
            st.assume(z3.Implies(x == 0, r == 0))
            st.assume(z3.Implies(x == -1, r == y))
            yield st, V("int", r)
    elif isinstance(op, ast.BitOr):
        cy = is_conc(y)
        cx = is_conc(x)
        if cx is not None and cy is not None:
            yield st, V("int", z3.IntVal(cx | cy))
        elif cy is not None:
            # a | c == a + c - (a & c)
            yield st, V("int", x + cy - mask_and(x, cy))
        elif cx is not None:
            yield st, V("int", y + cx - mask_and(y, cx))
        else:
            r = eng.bitfn("bor", x, y)
            st.assume(z3.Implies(y == 0, r == x))
            st.assume(z3.Implies(x == 0, r == y))
            # disjoint-bits form: 0 <= x < 2^s and y == d * 2^s, d >= 0  ==>  x | y == x + y
            sh = _shift_of(y)
            if sh is not None:
                d, p = sh
                st.assume(z3.Implies(z3.And(x >= 0, x < p, d >= 0, p >= 1), r == x + y))
            sh = _shift_of(x)
            if sh is not None:
                d, p = sh
                st.assume(z3.Implies(z3.And(y >= 0, y < p, d >= 0, p >= 1), r == x + y))
            yield st, V("int", r)
    elif isinstance(op, ast.BitXor):
        cy = is_conc(y)
        cx = is_conc(x)
        if cx is not None and cy is not None:
            yield st, V("int", z3.IntVal(cx ^ cy))
            return
        r = eng.bitfn("bxor", x, y)
        st.assume(z3.Implies(y == 0, r == x))
        st.assume(z3.Implies(y == -1, r == -x - 1))
        st.assume(z3.Implies(x == 0, r == y))
        st.assume(z3.Implies(x == -1, r == -y - 1))
        yield st, V("int", r)
    else:
        raise _unsupported(f"binop:{type(op).__name__}")


def _setlike(x):
    if isinstance(x, Const):
        return x.kind in ("setunion", "keysview", "specset")
    return isinstance(x, V) and x.ty == "set"


def _shift_of(t):
    """t syntactically of the form d * P with P = 2^k (constant) or pow2(s): -> (d, P)"""
    if z3.is_app(t) and t.decl().kind() == z3.Z3_OP_MUL and t.num_args() == 2:
        a, b = t.arg(0), t.arg(1)
        for d, p in ((a, b), (b, a)):
            if z3.is_app(p) and p.decl().kind() == z3.Z3_OP_UNINTERPRETED and p.decl().name().endswith(".pow2"):
                return d, p
            c = is_conc(p)
            if c is not None and c > 0 and (c & (c - 1)) == 0:
                return d, p
    return None


def pyeq(ex, st, a, b):
    """Python == as a z3 Bool (DESIGN 2.6: structural equality; cross-type numeric
    equality only between int and bool)."""
    eng = ex.eng
    if isinstance(a, (Ref, Const)) or isinstance(b, (Ref, Const)):
        tt = _type_test(ex, st, a, b)
        if tt is not None:
            return tt
        if isinstance(a, Ref) and isinstance(b, Ref):
            return z3.BoolVal(a.oid == b.oid)
        if isinstance(a, Const) and isinstance(b, Const):
            return z3.BoolVal(a.kind == b.kind and a.val == b.val)
        return z3.BoolVal(False)
    a = ex.narrow(st, a)
    b = ex.narrow(st, b)
    ta, tb = a.ty, b.ty
    scalars = ("int", "bool", "str", "bytes", "none", "float")
    if "bv64" in (ta, tb) and {ta, tb} <= {"bv64", "int", "bool"}:
        return S.to_bv64(a) == S.to_bv64(b)
    if ta in ("int", "bool") and tb in ("int", "bool"):
        return ex.as_int(a) == ex.as_int(b)
    if ta == tb and ta in ("str", "bytes"):
        return a.t == b.t
    if ta == tb == "none":
        return z3.BoolVal(True)
    if ta == tb == "float":
        if ex.total:
            return a.t == b.t      # specifications compare floats by bit pattern (NaN == NaN)
        return eng.fop_bool("feq", a.t, b.t)
    if ta in scalars and tb in scalars:
        if "float" in (ta, tb) and ({ta, tb} & {"int", "bool"}):
            raise _unsupported("float/int equality")
        return z3.BoolVal(False)
    # containers / dynamically typed: structural equality is sufficient for ==;
    # necessary when one side is a str/bytes/none (which only equal their own kind)
    pa, pb = box(a), box(b)
    if ta in ("str", "bytes", "none") or tb in ("str", "bytes", "none"):
        return pa == pb
    if ta in ("int", "bool") or tb in ("int", "bool"):
        # py vs int: equal iff the py is an int/bool with the same value
        o, n = (b, a) if ta in ("int", "bool") else (a, b)
        if o.ty == "py":
            nv = ex.as_int(n)
            return z3.Or(z3.And(Py.is_int(o.t), Py.i(o.t) == nv),
                         z3.And(Py.is_bool(o.t), z3.If(Py.b(o.t), 1, 0) == nv))
        return z3.BoolVal(False)
    if ta in ("list", "tuple", "set", "dict") and tb in ("list", "tuple", "set", "dict") and ta != tb:
        return z3.BoolVal(False)
    if ex.total:
        # in specifications and contract clauses == is structural equality of values
        # (insertion-ordered dicts, floats by bit pattern): stronger than Python's ==
        return pa == pb
    r = eng.pyeq_fn(pa, pb)
    st.assume(z3.Implies(pa == pb, r))
    st.assume(z3.Implies(z3.And(r, z3.Or(Py.is_str(pa), Py.is_none(pa), Py.is_bytes(pa))), pa == pb))
    st.assume(z3.Implies(z3.And(r, z3.Or(Py.is_str(pb), Py.is_none(pb), Py.is_bytes(pb))), pa == pb))
    if ta in ("list", "tuple") and ta == tb:
        # sequences of equal kind: == implies equal length
        st.assume(z3.Implies(r, z3.Length(a.t) == z3.Length(b.t)))
    return r


def contains(ex, st, item, cont):
    """`item in cont` -> generator (st, Bool term | Raise)"""
    eng = ex.eng
    cont = ex.narrow(st, cont)
    if isinstance(cont, Const) and cont.kind == "setunion":
        terms = []
        states = [st]
        cur = st
        for part in cont.val:
            res = list(contains(ex, cur, item, part))
            if len(res) != 1 or not z3.is_bool(res[0][1]) if not isinstance(res[0][1], bool) else False:
                raise _unsupported("membership in a union forked")
            cur = res[0][0]
            terms.append(res[0][1])
        yield cur, z3.Or(*terms)
        return
    if isinstance(cont, Const) and cont.kind == "specset":
        item = ex.narrow(st, item)
        if item.ty == "str":
            yield st, eng.spec_apply("spec.core", cont.val, [item]).t
        elif item.ty == "py":
            yield st, z3.And(Py.is_str(item.t), eng.spec_apply("spec.core", cont.val, [V("str", Py.s(item.t))]).t)
        else:
            yield st, z3.BoolVal(False)
        return
    if isinstance(cont, Const) and cont.kind == "keysview":
        yield from contains(ex, st, item, cont.val)
        return
    if isinstance(cont, Const):
        if cont.kind in ("set", "tuple", "list", "dictconst"):
            vals = cont.val.keys() if isinstance(cont.val, dict) else cont.val
            ors = []
            for c in vals:
                cv = c if isinstance(c, (V, Ref, Const)) else S.lift(c)
                ors.append(pyeq(ex, st, item, cv))
            yield st, (z3.Or(*ors) if ors else z3.BoolVal(False))
            return
        if cont.kind == "dict":
            ors = [pyeq(ex, st, item, S.lift(k)) for k in cont.val.keys()]
            yield st, (z3.Or(*ors) if ors else z3.BoolVal(False))
            return
        raise _unsupported(f"in on {cont}")
    item = ex.narrow(st, item)
    if cont.ty == "str":
        if item.ty == "str":
            yield st, z3.Contains(cont.t, item.t)
        elif item.ty == "py":
            for st1, r in ex.need(st, Py.is_str(item.t), "TypeError", "in-str"):
                yield st1, (r if r is not None else z3.Contains(cont.t, Py.s(item.t)))
        else:
            yield st, _raise("TypeError", "in-str")
        return
    if cont.ty in ("list", "tuple", "set"):
        ct = z3.simplify(cont.t)
        elems = _concrete_elems(ct)
        if elems is not None:
            ors = [pyeq(ex, st, item, ex.narrow(st, V("py", e))) for e in elems]
            yield st, (z3.Or(*ors) if ors else z3.BoolVal(False))
        else:
            yield st, z3.Contains(cont.t, z3.Unit(box(item)))
        return
    if cont.ty == "dict":
        yield st, S.dict_has(cont.t, box(item))
        return
    if cont.ty == "bytes":
        if item.ty in ("int", "bool"):
            yield st, z3.Contains(cont.t, z3.Unit(ex.as_int(item)))
        else:
            raise _unsupported("bytes in bytes")
        return
    if cont.ty == "py":
        # the code only applies `in` to dict / list / str / tuple values
        t = cont.t
        bi = box(item)
        isstr_item = Py.is_str(bi)
        ok = z3.Or(Py.is_dict(t), Py.is_list(t), Py.is_tuple(t), Py.is_set(t),
                   z3.And(Py.is_str(t), isstr_item))
        for st1, r in ex.need(st, ok, "TypeError", "in"):
            if r is not None:
                yield st1, r
                continue
            res = z3.If(Py.is_dict(t), z3.Contains(Py.keys(t), z3.Unit(bi)),
                  z3.If(Py.is_list(t), z3.Contains(Py.items(t), z3.Unit(bi)),
                  z3.If(Py.is_tuple(t), z3.Contains(Py.titems(t), z3.Unit(bi)),
                  z3.If(Py.is_set(t), z3.Contains(Py.elems(t), z3.Unit(bi)),
                        z3.Contains(Py.s(t), Py.s(bi))))))
            yield st1, res
        return
    if cont.ty == "none":
        yield st, _raise("TypeError", "in-none")
        return
    raise _unsupported(f"in on {cont.ty}")


def _concrete_elems(seq):
    """elements of a syntactically explicit sequence term (concat of units), or None"""
    if z3.is_app(seq):
        k = seq.decl().kind()
        if k == z3.Z3_OP_SEQ_EMPTY:
            return []
        if k == z3.Z3_OP_SEQ_UNIT:
            return [seq.arg(0)]
        if k == z3.Z3_OP_SEQ_CONCAT:
            out = []
            for c in seq.children():
                sub = _concrete_elems(c)
                if sub is None:
                    return None
                out += sub
            return out
    return None


def compare(ex, st, op, a, b):
    """generator of (st, Bool term | Raise)"""
    eng = ex.eng
    if isinstance(op, (ast.Eq, ast.NotEq)):
        r = pyeq(ex, st, a, b)
        yield st, (r if isinstance(op, ast.Eq) else z3.Not(r))
        return
    if isinstance(op, (ast.Is, ast.IsNot)):
        r = is_(ex, st, a, b)
        yield st, (r if isinstance(op, ast.Is) else z3.Not(r))
        return
    if isinstance(op, (ast.In, ast.NotIn)):
        for st1, r in contains(ex, st, a, b):
            from .engine import Raise
            if isinstance(r, Raise):
                yield st1, r
            else:
                yield st1, (r if isinstance(op, ast.In) else z3.Not(r))
        return
    a = ex.narrow(st, a)
    b = ex.narrow(st, b)
    if not (isinstance(a, V) and isinstance(b, V)):
        raise _unsupported("ordering on host values")
    num = ("int", "bool")

    def rel(x, y):
        if isinstance(op, ast.Lt):
            return x < y
        if isinstance(op, ast.LtE):
            return x <= y
        if isinstance(op, ast.Gt):
            return x > y
        return x >= y
    if a.ty in num and b.ty in num:
        yield st, rel(ex.as_int(a), ex.as_int(b))
        return
    if a.ty == "float" or b.ty == "float":
        raise _unsupported("float ordering")
    if a.ty == "py" or b.ty == "py":
        conds = []
        for x in (a, b):
            if x.ty == "py":
                # ints and bools order as integers; a float operand is outside the subset (not a TypeError)
                if not ex.total:
                    fl, _ = ex.split(st.fork(), Py.is_float(x.t))
                    if fl is not None:
                        raise _unsupported("float ordering")
                conds.append(z3.Or(Py.is_int(x.t), Py.is_bool(x.t)))
            elif x.ty not in num:
                raise _unsupported("ordering")

        def ival(x):
            if x.ty == "py":
                return z3.If(Py.is_int(x.t), Py.i(x.t), z3.If(Py.b(x.t), z3.IntVal(1), z3.IntVal(0)))
            return ex.as_int(x)
        for st1, r in ex.need(st, z3.And(*conds), "TypeError", "order"):
            if r is not None:
                yield st1, r
            else:
                yield st1, rel(ival(a), ival(b))
        return
    if ex.total:
        raise _unsupported(f"ordering on {a.ty},{b.ty}")
    yield st, _raise("TypeError", "order")


def _type_test(ex, st, a, b):
    """type(x) is T / type(x) == T for a built-in type T: the EXACT kind of x (bool is not int here); None when the
    operands are not of that form"""
    for x, y in ((a, b), (b, a)):
        if isinstance(x, Const) and x.kind == "typeof":
            if not (isinstance(y, Const) and y.kind in ("type", "exttype", "typeof", "class")):
                return None
            if y.kind != "type" or not isinstance(x.val, V):
                raise _unsupported("type(x) compared with something that is not a built-in type")
            v = ex.narrow(st, x.val)
            name = y.val
            if name not in ("int", "bool", "str", "bytes", "float", "list", "tuple", "dict", "set"):
                raise _unsupported(f"type(x) compared with {name}")
            if v.ty != "py":
                return z3.BoolVal(v.ty == name)
            return S.RECOG[name](v.t) if name != "int" else Py.is_int(v.t)
    return None


def is_(ex, st, a, b):
    tt = _type_test(ex, st, a, b)
    if tt is not None:
        return tt
    if isinstance(a, Ref) and isinstance(b, Ref):
        return z3.BoolVal(a.oid == b.oid)
    if isinstance(a, Const) and isinstance(b, Const):
        return z3.BoolVal(a.kind == b.kind and a.val is b.val)
    if isinstance(a, (Ref, Const)) or isinstance(b, (Ref, Const)):
        other = b if isinstance(a, (Ref, Const)) else a
        if isinstance(other, V):
            return z3.BoolVal(False)
    a = ex.narrow(st, a)
    b = ex.narrow(st, b)
    # identity is modelled only against singletons: None, True, False, sentinels
    for x, y in ((a, b), (b, a)):
        if x.ty == "none":
            if y.ty == "none":
                return z3.BoolVal(True)
            if y.ty == "py":
                return Py.is_none(y.t)
            return z3.BoolVal(False)
        if x.ty == "obj" and ex.eng.is_sentinel(x.t):
            if y.ty in ("py", "obj"):
                return y.t == x.t
            return z3.BoolVal(False)
        if x.ty == "bool" and z3.is_bool(x.t) and (z3.is_true(x.t) or z3.is_false(x.t)):
            if y.ty == "bool":
                return y.t == x.t
            if y.ty == "py":
                return z3.And(Py.is_bool(y.t), Py.b(y.t) == x.t)
            return z3.BoolVal(False)
    raise _unsupported("`is` between non-singletons")
