"""Modular call rule: a caller is checked against the callee's contract, not its body."""
import ast
import z3

from . import sorts as S
from .sorts import V, Ref, Const, Py, box


def _U(msg):
    from .engine import Unsupported
    return Unsupported(msg)


def _R(exc, site="", payload=None):
    from .engine import Raise
    return Raise(exc, site, payload)


def clause(ex, st, contract, node, frame_vars, old=None):
    """evaluate a contract clause (AST expr) to a z3 Bool in total mode.
    frame_vars: names visible to the clause (params, ghosts, result)."""
    from .engine import Exec
    sub = Exec(ex.eng, ex.fr, total=True, modname=None, specmod=contract.specmod)
    sub.clause_module = contract.module     # sentinels of the target's module may be named in clauses
    saved_old = st.old
    st.frames.append(frame_vars)
    if old is not None:
        st.old = old
    try:
        v = sub.one(st, node)
    finally:
        st.frames.pop()
        st.old = saved_old
    return S.truthy(v)


def clause_value(ex, st, contract, lam, args):
    """apply a one-argument contract lambda (AST) to a value: the value of its body"""
    from .engine import Exec
    sub = Exec(ex.eng, ex.fr, total=True, modname=None, specmod=contract.specmod)
    sub.clause_module = contract.module
    st.frames.append({"y": args[0]})      # the lambda's parameter is named y by convention
    try:
        v = sub.one(st, lam)
    finally:
        st.frames.pop()
    return v


def clause_term(ex, st, contract, node, frame_vars):
    """evaluate a clause expression to an Int term (decreases measures)"""
    from .engine import Exec
    sub = Exec(ex.eng, ex.fr, total=True, modname=None, specmod=contract.specmod)
    st.frames.append(frame_vars)
    try:
        v = sub.one(st, node)
    finally:
        st.frames.pop()
    return sub.as_int(v)


def call_key(ex, fi, node):
    """stable key for a call site inside the caller: '<callee>#<k>' (k-th call of that
    callee in the caller's source, in source order)"""
    short = fi.qualname.split(".")[-1]
    stack = getattr(ex.fr, "func_stack", None)
    root = stack[-1] if stack else (ex.fr.finfo.node if ex.fr.finfo is not None else None)
    k = 0
    if root is not None and node is not None:
        sites = []
        for n in ast.walk(root):
            if isinstance(n, ast.Call):
                f = n.func
                nm = f.attr if isinstance(f, ast.Attribute) else (f.id if isinstance(f, ast.Name) else None)
                if nm == short or (node is n):
                    sites.append(n)
        sites.sort(key=lambda n: (n.lineno, n.col_offset))
        for i, n in enumerate(sites):
            if n is node:
                k = i
                break
    return short, f"{short}#{k}"


def havoc_value(st, v, name):
    if isinstance(v, V):
        nv = S.fresh(name, v.ty)
        kc = S.kind_constraint(nv)
        if kc is not None:
            st.assume(kc)
        return nv
    return v


def havoc_ref(ex, st, ref, name, seen=None):
    seen = seen or set()
    if ref.oid in seen:
        return
    seen.add(ref.oid)
    obj = st.heap[ref.oid]
    for f, v in list(obj.items()):
        if f.startswith("__"):
            continue
        if isinstance(v, Ref):
            havoc_ref(ex, st, v, f"{name}.{f}", seen)
        elif isinstance(v, V):
            obj[f] = havoc_value(st, v, f"{name}.{f}")
    ex.eng.object_invariant(st, ref)


def resolve_path(st, frame_vars, path):
    """'self._fo.data' -> (container, key) where container is ('var', name) | ('heap', oid, field)"""
    parts = path.split(".")
    root = parts[0]
    if root not in frame_vars:
        raise _U(f"modifies path root {root}")
    cur = frame_vars[root]
    loc = ("var", root)
    for p in parts[1:]:
        if not isinstance(cur, Ref):
            raise _U(f"modifies path {path}: {p} of non-object")
        obj = st.heap[cur.oid]
        if p not in obj:
            raise _U(f"modifies path {path}: no field {p}")
        loc = ("heap", cur.oid, p)
        cur = obj[p]
    return loc, cur


def apply(ex, st, c, fi, bound, node):
    eng = ex.eng
    short, key = call_key(ex, fi, node)
    fv = dict(bound)
    # ---- ghost witnesses supplied by the caller's contract
    caller = ex.fr.contract
    gspec = None
    if caller is not None:
        gspec = caller.call_ghosts.get(key) or caller.call_ghosts.get(short) or caller.call_ghosts.get("*")
    for g, tag in c.ghosts.items():
        if gspec is None or g not in gspec:
            raise _U(f"no ghost witness for {g} at call {key} in {caller}")
        from .engine import Exec
        sub = Exec(eng, ex.fr, total=True, modname=None, specmod=caller.specmod)
        gv = sub.one(st, gspec[g])
        gv = ex.narrow(st, gv) if isinstance(gv, V) else gv
        fv[g] = _coerce(gv, tag)
    # ---- lemma instances the caller's contract names for this call site (locals visible; proved separately)
    if caller is not None:
        hs = getattr(caller, "call_hints", None) or {}
        for h in (hs.get(key) or hs.get(short) or []):
            try:
                st.assume(clause(ex, st, caller, h, {}))
            except Exception as e:
                if type(e).__name__ != "Unsupported":
                    raise              # a hint that does not even type on this path is simply not available
    # coerce arguments to the callee's declared parameter types (obligation: kind matches)
    for p, tag in c.types.items():
        if p in fv and isinstance(fv[p], V) and tag in S.NATIVE and fv[p].ty == "py":
            kindok = S.RECOG[tag](fv[p].t)
            o = eng.obligation(ex, st, f"call.{key}.type({p})", kindok, "call-type", node)
            fv[p] = S.unbox(fv[p].t, tag)
        elif p in fv and isinstance(fv[p], V) and tag in S.NATIVE and fv[p].ty != tag:
            if not (tag == "int" and fv[p].ty == "bool"):
                eng.obligation(ex, st, f"call.{key}.type({p})", z3.BoolVal(False), "call-type", node)
        elif p in fv and isinstance(fv[p], V) and tag == "dict" and fv[p].ty == "py":
            eng.obligation(ex, st, f"call.{key}.type({p})", Py.is_dict(fv[p].t), "call-type", node)
            fv[p] = V("dict", fv[p].t)
        elif p in fv and isinstance(fv[p], V) and tag == "none" and fv[p].ty != "none":
            eng.obligation(ex, st, f"call.{key}.type({p})", (fv[p].t == Py.none) if fv[p].ty == "py" else z3.BoolVal(False), "call-type", node)
    # ---- precondition
    if c.requires is not None:
        pre = clause(ex, st, c, c.requires, fv)
        eng.obligation(ex, st, f"call.{key}.pre", pre, "call-pre", node)
        st.assume(pre)
    # ---- exceptional whens are evaluated in the pre-state
    whens = []
    for rc in c.raises:
        w = clause(ex, st, c, rc.when, fv) if rc.when is not None else z3.BoolVal(True)
        whens.append(w)
    # ---- snapshot for `old`
    old = st.fork()
    old.frames = [dict(fv)]
    # ---- outcomes
    outs = []
    # exceptional outcomes first (each on its own fork)
    for rc, w in zip(c.raises, whens):
        if not ex.feasible(st, w):
            continue
        st_r = st.fork()
        st_r.assume(w)
        post_fv = _havoc_modifies(ex, st_r, c, fv, bound, node, key)
        if rc.ensures is not None:
            st_r.assume(clause(ex, st_r, c, rc.ensures, post_fv, old=old))
        payload = None
        r_abs = _R(rc.exc, f"call.{key}", payload)
        r_abs.abstract = True
        outs.append((st_r, r_abs))
    # normal outcome
    must_not = [z3.Not(w) for rc, w in zip(c.raises, whens) if rc.must]
    st_n = st
    for m in must_not:
        st_n.assume(m)
    if eng.quick_sat(st_n.path):
        post_fv = _havoc_modifies(ex, st_n, c, fv, bound, node, key)
        result = _fresh_result(ex, st_n, c, key)
        post_fv["result"] = result
        if c.ensures is not None:
            st_n.assume(clause(ex, st_n, c, c.ensures, post_fv, old=old))
        outs.append((st_n, result))
    yield from outs


def _coerce(v, tag):
    if not isinstance(v, V):
        return v
    if v.ty == tag:
        return v
    if tag in S.BOXED_TAGS:
        return V(tag, box(v))
    if v.ty == "py":
        return S.unbox(v.t, tag)
    if v.ty == "bool" and tag == "int":
        return V("int", z3.If(v.t, z3.IntVal(1), z3.IntVal(0)))
    raise _U(f"ghost type mismatch {v.ty} vs {tag}")


def _fresh_result(ex, st, c, key):
    if c.fresh_result:
        return ex.eng.alloc_shape(st, c.fresh_result, f"{key}.result")
    if c.returns == "none":
        return S.none()
    r = S.fresh(f"{key}.result", c.returns)
    kc = S.kind_constraint(r)
    if kc is not None:
        st.assume(kc)
    return r


def _havoc_modifies(ex, st, c, fv, bound, node, key):
    """havoc everything in the callee's modifies clause; returns the post-state clause
    frame (in/out data parameters get fresh values that are written back to the
    caller's argument expressions)."""
    post = dict(fv)
    for path in c.modifies:
        loc, cur = resolve_path(st, post, path)
        if isinstance(cur, Ref):
            havoc_ref(ex, st, cur, f"{key}.{path}")
        elif loc[0] == "heap":
            st.heap[loc[1]][loc[2]] = havoc_value(st, cur, f"{key}.{path}")
        else:
            # in/out data parameter
            nv = havoc_value(st, cur, f"{key}.{path}")
            post[loc[1]] = nv
            _write_back(ex, st, c, loc[1], nv, node, bound)
    return post


def _write_back(ex, st, c, param, nv, node, bound):
    """store the post-value of an in/out parameter into the caller's argument lvalue"""
    fi_params = None
    # find which argument expression was bound to `param`
    target = ex.eng.arg_node_for(ex, node, param, c)
    if target is None:
        raise _U(f"in/out parameter {param}: argument expression not found")
    if isinstance(target, ast.Constant) or isinstance(target, (ast.Dict, ast.List, ast.Call)):
        return   # a temporary: nobody can observe the mutation
    res = list(ex.store(st, target, nv))
    if len(res) != 1 or res[0][1] is not None:
        raise _U("in/out write-back forked")
