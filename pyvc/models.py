"""Models of Python data operations, builtins, model streams and externals.

Everything here is part of the *assumed semantics* of Python / the standard
library (DESIGN.md 2.6, 3.5) and is cross-checked against CPython by
`vcheck axioms` (concolic cross-check).
"""
import ast
import z3

from . import sorts as S
from .sorts import V, Ref, Const, Py, box, unbox
from . import arith


def _U(msg):
    from .engine import Unsupported
    return Unsupported(msg)


def _R(exc, site=""):
    from .engine import Raise
    return Raise(exc, site)


def _isR(x):
    from .engine import Raise
    return isinstance(x, Raise)


STREAM_METHODS = {"write", "read", "tell", "seek", "truncate", "getvalue", "flush",
                  "seekable", "readable", "close"}


# ------------------------------------------------------------------ attributes
def getattr_(ex, st, base, attr, node=None):
    eng = ex.eng
    if isinstance(base, Ref):
        obj = st.heap[base.oid]
        if attr in obj:
            yield st, ex.narrow(st, obj[attr]) if isinstance(obj[attr], V) else obj[attr]
            return
        if base.cls in ("Stream", "TextStream"):
            if attr in STREAM_METHODS:
                caps = obj.get("__caps__")
                if caps is not None and attr not in caps:
                    # the stream does not offer this method (pipe / socket clause of C04)
                    yield st, _R("AttributeError", f"stream.{attr}")
                    return
                yield st, Const("streammethod", (base, attr))
                return
            if attr in ("data", "pos", "eof_hit", "name"):
                raise _U(f"stream field {attr} missing")
            yield st, _R("AttributeError", f"stream.{attr}")
            return
        fi = eng.find_method(base.cls, attr)
        if fi is not None:
            yield st, Const("method", (base, fi))
            return
        prop = eng.find_property(base.cls, attr)
        if prop is not None:
            raise _U(f"property {base.cls}.{attr}")
        if ex.total:
            raise _U(f"attribute {base.cls}.{attr} undefined")
        yield st, _R("AttributeError", f"{base.cls}.{attr}")
        return
    if isinstance(base, Const):
        k = base.kind
        if k == "extmodule":
            yield st, eng.ext_attr(base.val, attr)
            return
        if k == "module":
            v = eng.resolve_in_module(base.val, attr)
            if v is None:
                raise _U(f"module attr {base.val}.{attr}")
            yield st, v
            return
        if k == "specmodule":
            r = eng.specs.lookup(base.val, attr)
            if r is None and attr in eng.contracts.lemmas:
                yield st, Const("lemma", eng.contracts.lemmas[attr])
                return
            if r is None:
                raise _U(f"spec attr {base.val}.{attr}")
            yield st, eng.wrap_spec_lookup(r)
            return
        if k == "exc":
            if attr == "name" and base.val.payload is not None:
                yield st, base.val.payload
                return
            if attr == "errors":
                yield st, V("py", eng.opaque_fn("exc_errors", z3.IntVal(0)))
                return
            raise _U(f"exception attribute {attr}")
        if k == "class":
            ci = base.val
            if attr in ci.methods:
                yield st, Const("func", ci.methods[attr])
                return
            raise _U(f"class attr {ci.name}.{attr}")
        if k == "libdate" and attr == "toordinal":
            yield st, Const("libdate.toordinal", base.val)
            return
        if k in ("type", "exttype"):
            # int.from_bytes, dict.fromkeys, date.fromordinal ...
            yield st, Const("ext", f"{base.val}.{attr}")
            return
        if k == "ext":
            yield st, Const("ext", f"{base.val}.{attr}")
            return
        if k == "inflateobj" and attr == "decompress":
            yield st, Const("ext", "zlib.decompressobj(-15).decompress")
            return
        if k == "hashobj" and attr == "hexdigest":
            yield st, Const("hexdigest", base.val)
            return
        if k in ("dict", "dictconst") and attr in ("get", "items", "keys", "values"):
            yield st, Const("constdictmethod", (base, attr))
            return
        raise _U(f"attribute {attr} of {base}")
    base = ex.narrow(st, base)
    if (base.ty == "obj" and attr not in ("toordinal", "as_tuple", "replace")) or (base.ty == "py" and attr in eng.OBJ_ATTRS):
        yield from eng.obj_attr(ex, st, base, attr)
        return
    # data method: remember the receiver expression for write-back of mutators
    recv = node.value if node is not None else None
    yield st, Const("datamethod", (base, attr, recv))


# ------------------------------------------------------------------- subscript
def norm_index(i, n):
    c = arith.is_conc(i) if not S._has_nth(i) else None
    if c is not None and c >= 0:
        return z3.IntVal(c)
    return z3.If(i < 0, i + n, i)


def getitem(ex, st, base, idx, node=None):
    eng = ex.eng
    if isinstance(base, Const):
        if base.kind in ("dict", "dictconst"):
            yield from const_dict_lookup(ex, st, base, idx, default=None, raise_keyerror=True)
            return
        if base.kind in ("tuple", "list"):
            c = arith.is_conc(ex.as_int(idx))
            if c is None:
                raise _U("symbolic index into host tuple")
            yield st, base.val[c]
            return
        raise _U(f"subscript of {base}")
    base = ex.narrow(st, base)
    idx = ex.narrow(st, idx) if isinstance(idx, V) else idx
    if not isinstance(idx, V):
        raise _U("host-level index")
    ty = base.ty
    if ty == "dict":
        k = box(idx)
        for st1, r in ex.need(st, S.dict_has(base.t, k), "KeyError", "getitem"):
            yield st1, (r if r is not None else ex.narrow(st1, V("py", S.dict_get(base.t, k))))
        return
    if ty in ("list", "tuple") and idx.ty == "bv64":
        # a constant table indexed by a bit-vector expression: an ite chain over the index
        elems = arith._concrete_elems(base.t)
        vals = None
        if elems is not None and 0 < len(elems) <= 256:
            vals = []
            for e in elems:
                es = z3.simplify(e)
                if z3.is_app(es) and es.decl().eq(Py.int) and z3.is_int_value(es.arg(0)):
                    vals.append(es.arg(0).as_long())
                else:
                    vals = None
                    break
        if vals is None:
            raise _U("bv64 index into a non-constant table")
        n = len(vals)
        for st1, r in ex.need(st, z3.ULT(idx.t, z3.BitVecVal(n, 64)), "IndexError", "getitem"):
            if r is not None:
                yield st1, r
                continue
            out = z3.BitVecVal(vals[n - 1] % (1 << 64), 64)
            for k in range(n - 2, -1, -1):
                out = z3.If(idx.t == z3.BitVecVal(k, 64), z3.BitVecVal(vals[k] % (1 << 64), 64), out)
            ex.eng.obligation(ex, st1, "table.entries_fit_64_bits", z3.BoolVal(all(0 <= v < (1 << 64) for v in vals)), "model", node)
            yield st1, V("bv64", out)
        return
    if ty in ("list", "tuple", "bytes", "str"):
        if idx.ty == "py":
            for st1, r in ex.need(st, Py.is_int(idx.t), "TypeError", "index-type"):
                if r is not None:
                    yield st1, r
                else:
                    yield from getitem(ex, st1, base, V("int", Py.i(idx.t)), node)
            return
        if idx.ty not in ("int", "bool"):
            if ex.total:
                # dead branch of a total (spec / clause) evaluation: unspecified value
                ex.partial_touched = True
                yield st, V("py", eng.opaque_fn("junk_index", box(base), box(idx)))
                return
            yield st, _R("TypeError", "index-type")
            return
        i = ex.as_int(idx)
        n = z3.Length(base.t)
        for st1, r in ex.need(st, z3.And(-n <= i, i < n), "IndexError", "getitem"):
            if r is not None:
                yield st1, r
                continue
            j = S.simp(norm_index(i, n))
            if ty in ("list", "tuple"):
                yield st1, ex.narrow(st1, V("py", base.t[j]))
            elif ty == "bytes":
                if not ex.total:
                    st1.assume(z3.And(base.t[j] >= 0, base.t[j] <= 255))    # type invariant of bytes
                yield st1, V("int", base.t[j])
            else:
                yield st1, V("str", z3.SubString(base.t, j, 1))
        return
    if ty == "py":
        t = base.t
        if idx.ty == "str":
            for st1, r in ex.need(st, Py.is_dict(t), "TypeError", "getitem-kind"):
                if r is not None:
                    yield st1, r
                else:
                    yield from getitem(ex, st1, V("dict", t), idx, node)
            return
        if idx.ty in ("int", "bool"):
            # list or tuple (dicts with int keys do not occur in this code base)
            for st1, r in ex.need(st, z3.Or(Py.is_list(t), Py.is_tuple(t)), "TypeError", "getitem-kind"):
                if r is not None:
                    yield st1, r
                    continue
                from .calls import py_items
                yield from getitem(ex, st1, V("list", py_items(t)), idx, node)
            return
        if idx.ty == "py" and ex.total:
            from .calls import py_items
            seq = py_items(t)
            i = Py.i(idx.t)
            j = norm_index(i, z3.Length(seq))
            ex.partial_touched = True
            yield st, V("py", z3.If(Py.is_dict(t), S.dict_get(t, idx.t), seq[j]))
            return
        if idx.ty == "py":
            # dynamically typed key on dynamically typed base: dict lookup when base is a
            # dict, sequence indexing when base is a list and the key an int
            for st1, r in ex.need(st, z3.Or(Py.is_dict(t), z3.And(z3.Or(Py.is_list(t), Py.is_tuple(t)), Py.is_int(idx.t))), "TypeError", "getitem-kind"):
                if r is not None:
                    yield st1, r
                    continue
                a, b = ex.split(st1, Py.is_dict(t))
                if a is not None:
                    yield from getitem(ex, a, V("dict", t), idx, node)
                if b is not None:
                    yield from getitem(ex, b, V("py", t), V("int", Py.i(idx.t)), node)
            return
    if ty == "none":
        if ex.total:
            ex.partial_touched = True
            yield st, V("py", eng.opaque_fn("junk_index", box(base), box(idx)))
            return
        yield st, _R("TypeError", "subscript-none")
        return
    if ex.total:
        ex.partial_touched = True
        yield st, V("py", eng.opaque_fn("junk_index", box(base), box(idx)))
        return
    if ty in ("int", "bool", "float", "set"):
        yield st, _R("TypeError", "subscript")
        return
    raise _U(f"subscript of {ty} by {idx.ty}")


def const_dict_lookup(ex, st, base, key, default, raise_keyerror):
    """case split over the keys of a module-level constant table"""
    d = base.val
    key = ex.narrow(st, key)
    kt = z3.simplify(box(key)) if isinstance(key, V) else None
    if kt is None:
        raise _U("host key")
    rest = st
    for k, v in d.items():
        kv = S.lift(k)
        cond = arith.pyeq(ex, rest, key, kv)
        a, rest2 = ex.split(rest, cond)
        if a is not None:
            yield a, (v if isinstance(v, (V, Ref, Const)) else S.lift(v))
        if rest2 is None:
            return
        rest = rest2
    if raise_keyerror:
        if ex.total:
            raise _U("const table lookup may miss")
        yield rest, _R("KeyError", "table")
    else:
        yield rest, default


def clamp_slice(lo, hi, n):
    """Python slice bounds for step None -> (start, length)"""
    def cl(x, dflt):
        if x is None:
            return dflt
        y = z3.If(x < 0, x + n, x)
        return z3.If(y < 0, z3.IntVal(0), z3.If(y > n, n, y))
    s = cl(lo, z3.IntVal(0))
    e = cl(hi, n)
    ln = z3.If(e - s < 0, z3.IntVal(0), e - s)
    return S.simp(s), S.simp(ln)


def slice_(ex, st, base, lo, hi, step):
    base = ex.narrow(st, base)
    if not (isinstance(step, V) and step.ty == "none"):
        # [::-1] on lists
        c = arith.is_conc(ex.as_int(step)) if isinstance(step, V) and step.ty == "int" else None
        if c == -1 and lo.ty == "none" and hi.ty == "none" and base.ty in ("list", "tuple"):
            yield st, ex.eng.spec_apply("spec.core", "reverse_list", [V("list", base.t)])
            return
        raise _U("slice step")
    if base.ty not in ("list", "tuple", "bytes", "str"):
        raise _U(f"slice of {base.ty}")
    def bound(v):
        if v.ty == "none":
            return None
        return ex.as_int(v)
    n = z3.Length(base.t)
    s, ln = clamp_slice(bound(lo), bound(hi), n)
    if base.ty == "str":
        yield st, V("str", z3.SubString(base.t, s, ln))
    else:
        yield st, V(base.ty, z3.Extract(base.t, s, ln))


# ----------------------------------------------------------------------- store
def store(ex, st, tg, v):
    if isinstance(tg, ast.Name):
        st.vars[tg.id] = v
        yield st, None
        return
    if isinstance(tg, (ast.Tuple, ast.List)):
        n = len(tg.elts)
        if isinstance(v, Const) and v.kind == "tuple":
            if len(v.val) != n:
                yield st, _R("ValueError", "unpack")
                return
            parts = list(v.val)
            yield from _store_many(ex, st, tg.elts, parts)
            return
        v = ex.narrow(st, v)
        if v.ty in ("tuple", "list"):
            elems = arith._concrete_elems(v.t)
            if elems is not None:
                # a literal tuple/list: take its elements structurally
                if len(elems) != n:
                    if ex.total:
                        raise _U("unpack arity")
                    yield st, _R("ValueError", "unpack")
                    return
                yield from _store_many(ex, st, tg.elts, [ex.narrow(st, V("py", e)) for e in elems])
                return
            for st1, r in ex.need(st, z3.Length(v.t) == n, "ValueError", "unpack"):
                if r is not None:
                    yield st1, r
                    continue
                parts = [ex.narrow(st1, V("py", S.simp(v.t[z3.IntVal(i)]))) for i in range(n)]
                yield from _store_many(ex, st1, tg.elts, parts)
            return
        if v.ty == "py":
            for st1, r in ex.need(st, z3.Or(Py.is_tuple(v.t), Py.is_list(v.t)), "TypeError", "unpack"):
                if r is not None:
                    yield st1, r
                    continue
                seq = z3.If(Py.is_tuple(v.t), Py.titems(v.t), Py.items(v.t))
                yield from store(ex, st1, tg, V("list", seq))
            return
        raise _U(f"unpack of {v.ty}")
    if isinstance(tg, ast.Attribute):
        for st1, base in ex.expr(st, tg.value):
            if _isR(base):
                yield st1, base
                continue
            if isinstance(base, Ref):
                st1.heap[base.oid][tg.attr] = v
                yield st1, None
            else:
                raise _U(f"attribute store on {base}")
        return
    if isinstance(tg, ast.Subscript):
        if isinstance(tg.slice, ast.Slice):
            raise _U("slice store")
        load = ast.copy_location(_loadify(tg.value), tg)
        for st1, vals in ex.exprs(st, [load, tg.slice]):
            if _isR(vals):
                yield st1, vals
                continue
            base, idx = vals
            for st2, newbase in setitem(ex, st1, base, idx, v):
                if _isR(newbase):
                    yield st2, newbase
                else:
                    yield from store(ex, st2, tg.value, newbase)
        return
    if isinstance(tg, ast.Starred):
        raise _U("starred target")
    raise _U(f"store target {type(tg).__name__}")


def _loadify(e):
    if isinstance(e, ast.Name):
        return ast.Name(id=e.id, ctx=ast.Load())
    if isinstance(e, ast.Attribute):
        return ast.Attribute(value=_loadify(e.value), attr=e.attr, ctx=ast.Load())
    if isinstance(e, ast.Subscript):
        return ast.Subscript(value=_loadify(e.value), slice=e.slice, ctx=ast.Load())
    return e


def _store_many(ex, st, targets, parts):
    if not targets:
        yield st, None
        return
    for st1, r in store(ex, st, targets[0], parts[0]):
        if r is not None:
            yield st1, r
        else:
            yield from _store_many(ex, st1, targets[1:], parts[1:])


def setitem(ex, st, base, idx, v):
    """functional update: yields (st, new container V | Raise)"""
    if isinstance(base, (Ref, Const)):
        raise _U(f"item store on {base}")
    base = ex.narrow(st, base)
    if not isinstance(v, V):
        raise _U("storing a host-level value into a data container")
    if base.ty == "dict":
        yield st, V("dict", S.dict_set(base.t, box(idx), box(v)))
        return
    if base.ty == "list":
        i = ex.as_int(idx)
        n = z3.Length(base.t)
        for st1, r in ex.need(st, z3.And(-n <= i, i < n), "IndexError", "setitem"):
            if r is not None:
                yield st1, r
                continue
            j = norm_index(i, n)
            new = z3.Concat(z3.Extract(base.t, z3.IntVal(0), j), z3.Unit(box(v)), z3.Extract(base.t, j + 1, n - j - 1))
            yield st1, V("list", new)
        return
    if base.ty == "py":
        if isinstance(idx, V) and idx.ty in ("str", "py"):
            for st1, r in ex.need(st, Py.is_dict(base.t), "TypeError", "setitem-kind"):
                if r is not None:
                    yield st1, r
                else:
                    yield st1, V("dict", S.dict_set(base.t, box(idx), box(v)))
            return
    raise _U(f"item store on {base.ty}")


def delete(ex, st, tg):
    raise _U("del")


def with_(ex, st, s):
    raise _U("with")


# ----------------------------------------------------------------- isinstance
CLSID = {"datetime.datetime": 1, "datetime.date": 2, "datetime.time": 3, "datetime.timedelta": 4,
         "decimal.Decimal": 5, "uuid.UUID": 6, "sentinel": 7, "datetime.timezone": 8,
         "decimal.Context": 9, "re.Pattern": 10}


def isinstance_cond(ex, st, v, cls):
    """z3 Bool for isinstance(v, cls) where cls is a Const naming a type"""
    eng = ex.eng
    if isinstance(cls, Const) and cls.kind == "tuple":
        return z3.Or(*[isinstance_cond(ex, st, v, c) for c in cls.val]) if cls.val else z3.BoolVal(False)
    name = eng.type_name(cls)
    if isinstance(v, Ref):
        return z3.BoolVal(eng.ref_isinstance(v, name))
    if isinstance(v, Const):
        return z3.BoolVal(False)
    kinds = {
        "dict": ["dict"], "list": ["list"], "tuple": ["tuple"], "str": ["str"], "bytes": ["bytes"],
        "bytearray": [], "int": ["int", "bool"], "bool": ["bool"], "float": ["float"],
        "set": ["set"], "frozenset": [],
        "numbers.Integral": ["int", "bool"], "numbers.Real": ["int", "bool", "float"],
        "collections.abc.Mapping": ["dict"], "collections.abc.Sequence": ["list", "tuple", "str", "bytes"],
        "array.array": [], "memoryview": [], "object": None,
    }
    if name in kinds:
        ks = kinds[name]
        if ks is None:
            return z3.BoolVal(True)
        if v.ty != "py":
            return z3.BoolVal(v.ty in ks)
        return z3.Or(*[S.RECOG[k](v.t) for k in ks]) if ks else z3.BoolVal(False)
    if name in CLSID:
        cid = CLSID[name]
        ids = [cid]
        if name == "datetime.date":
            ids.append(CLSID["datetime.datetime"])   # datetime is a subclass of date
        if v.ty == "obj" or v.ty == "py":
            return z3.And(Py.is_obj(v.t), z3.Or(*[Py.cls(v.t) == i for i in ids]))
        return z3.BoolVal(False)
    if eng.is_repo_class(name):
        return z3.BoolVal(False)   # data values are never instances of repo classes
    raise _U(f"isinstance against {name}")
