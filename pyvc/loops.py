"""Loops: cut at contract-supplied invariants (all iterations, no bound), unrolled
when the trip count is a concrete number, generators inlined into their consumer."""
import ast
import z3

from . import sorts as S
from .sorts import V, Ref, Const, Py, box
from . import arith
from .engine import NEXT, RET, RAISE, BRK, CONT, assigned_names


def _U(msg):
    from .engine import Unsupported
    return Unsupported(msg)


def _isR(x):
    from .engine import Raise
    return isinstance(x, Raise)


def loop_key(ex, s):
    idx = ex.fr.loop_index.get(id(s))
    if idx is None:
        return None
    return f"{ex.fr.loop_prefix}{idx}"


def find_invariant(ex, s):
    c = ex.fr.contract
    if c is None:
        return None, None
    key = loop_key(ex, s)
    if key is None:
        return None, None
    inv = c.loops.get(key)
    if inv is None and key.isdigit():
        inv = c.loops.get(int(key))
    return key, inv


def eval_inv(ex, st, inv, extra):
    from . import callcontract
    y = st.lookup("__yielded__") if ex.fr.finfo is not None and ex.fr.finfo.is_generator() else None
    if y is not None:
        extra = dict(extra)
        extra["yielded"] = y       # generator under contract: the values yielded so far
    return callcontract.clause(ex, st, ex.fr.contract, inv, extra)


def eval_ghost_expr(ex, st, node, extra):
    """evaluate a ghost init/step expression (total mode, contract scope)"""
    from .engine import Exec
    sub = Exec(ex.eng, ex.fr, total=True, modname=None, specmod=ex.fr.contract.specmod)
    st.frames.append(dict(extra))
    try:
        v = sub.one(st, node)
    finally:
        st.frames.pop()
    return v


def loop_ghosts(ex, key):
    c = ex.fr.contract
    if c is None or key is None:
        return {}
    g = c.loop_ghosts.get(key)
    if g is None and isinstance(key, str) and key.isdigit():
        g = c.loop_ghosts.get(int(key))
    return g or {}


def ghost_frame(st):
    """ghost loop variables live in the bottom frame so that every inlined frame sees them"""
    return st.frames[0]


PURE_BUILTINS = {"len", "isinstance", "ord", "chr", "bool", "int", "float", "str", "repr", "bytes", "list",
                 "tuple", "set", "dict", "all", "any", "abs", "min", "max", "range", "enumerate", "type",
                 "getattr"}
PURE_METHODS = {"get", "items", "keys", "values", "index", "encode", "decode", "split", "rsplit", "join",
                "startswith", "endswith", "intersection", "hex", "bit_length", "to_bytes", "copy",
                "append", "extend", "add", "pop", "insert"}   # mutators touch locals, not the heap


def may_modify_heap(ex, nodes):
    """conservative syntactic test: can executing these AST nodes change a heap object?"""
    for root in nodes:
        for n in ast.walk(root):
            if isinstance(n, (ast.Yield, ast.YieldFrom)):
                return True
            if isinstance(n, ast.Attribute) and isinstance(n.ctx, (ast.Store, ast.Del)):
                return True
            if isinstance(n, ast.Subscript) and isinstance(n.ctx, (ast.Store, ast.Del)):
                r = n.value
                while isinstance(r, ast.Subscript):
                    r = r.value
                if isinstance(r, ast.Attribute):
                    return True
            if isinstance(n, ast.Call):
                f = n.func
                if isinstance(f, ast.Name):
                    if f.id in PURE_BUILTINS:
                        continue
                    try:
                        v = ex.eng.resolve_global(ex, f.id)
                    except Exception:
                        return True
                    if isinstance(v, Const) and v.kind == "func":
                        cs = ex.eng.contracts.by_func.get((v.val.module, v.val.qualname))
                        if cs and all(not c.modifies for c in cs):
                            continue
                    if isinstance(v, Const) and v.kind in ("spec", "specident", "pyfn", "builtin", "type"):
                        continue
                    return True
                if isinstance(f, ast.Attribute):
                    if f.attr in PURE_METHODS:
                        r = f.value
                        while isinstance(r, (ast.Subscript, ast.Attribute)):
                            if isinstance(r, ast.Attribute):
                                break
                            r = r.value
                        if isinstance(r, ast.Attribute) and f.attr in ("append", "extend", "add", "pop", "insert"):
                            return True     # mutating a container stored in an object field
                        continue
                    return True
                return True
    return False


def havoc_for_loop(ex, st, body_stmts, extra_names=(), heap=True):
    """havoc locals assigned in the loop body and every heap object the function may
    modify (over-approximation; the invariant must re-establish what is needed)."""
    names = assigned_names(body_stmts) | set(extra_names)
    if ex.fr.yield_handler is not None and any(isinstance(n, ast.Yield) for b in body_stmts for n in ast.walk(b)):
        names |= set(getattr(ex.fr, "consumer_assigned", ()))
        names.add("__yielded__")
    for nm in names:
        for f in reversed(st.frames):
            if nm in f:
                v = f[nm]
                if isinstance(v, V):
                    ty = "bv64" if (ex.fr.contract is not None and nm in ex.fr.contract.bv_locals and v.ty in ("int", "bv64")) else v.ty
                    nv = S.fresh(nm, ty)
                    kc = S.kind_constraint(nv)
                    if kc is not None:
                        st.assume(kc)
                    f[nm] = nv
                break
    if not heap:
        return
    # heap: everything that is not declared read-only
    from . import callcontract
    ro = ex.eng.readonly_objects(ex, st)
    for oid, obj in list(st.heap.items()):
        if oid in ro:
            continue
        for fld, v in list(obj.items()):
            if fld.startswith("__"):
                continue
            if isinstance(v, V):
                obj[fld] = callcontract.havoc_value(st, v, f"loop.{fld}")
        ex.eng.object_invariant(st, Ref(oid, obj.get("__class__")))


def iter_sequence(ex, st, itv):
    """value being iterated -> ('seq', V list of Py items) | ('range', lo, hi) | ...
    Returns (kind, payload)."""
    if isinstance(itv, Const):
        if itv.kind == "range":
            return "range", itv.val
        if itv.kind == "enumerate":
            return "enumerate", itv.val
        if itv.kind == "dictitems":
            return "dictitems", itv.val
        if itv.kind in ("set", "tuple", "list"):
            return "hostseq", list(itv.val)
        if itv.kind in ("dict", "dictconst"):
            return "hostseq", [S.lift(k) for k in itv.val.keys()]
        raise _U(f"iteration over {itv}")
    itv = ex.narrow(st, itv)
    if itv.ty in ("list", "tuple", "set"):
        return "seq", itv.t
    if itv.ty == "dict":
        return "seq", S.dkeys(itv.t)
    if itv.ty == "bytes":
        return "bytes", itv.t
    if itv.ty == "py":
        return "pyiter", itv.t
    raise _U(f"iteration over {itv.ty}")


def for_(ex, st, s):
    # generator inlining: for x in obj.gen(...)
    if isinstance(s.iter, ast.Call):
        gi = ex.eng.generator_target(ex, st, s.iter)
        if gi is not None:
            yield from inline_generator(ex, st, s, gi)
            return
    # range / enumerate as special forms
    for st1, itv in eval_iter(ex, st, s.iter):
        if _isR(itv):
            yield st1, (RAISE, itv)
            continue
        kind, payload = iter_sequence(ex, st1, itv)
        if kind == "enumerate":
            k2, p2 = iter_sequence(ex, st1, payload)
            if k2 == "pyiter":
                # enumerate(x) with x of unknown kind: iterable or TypeError, then over its items
                t = p2
                ok = z3.Or(Py.is_list(t), Py.is_tuple(t), Py.is_dict(t), Py.is_set(t), Py.is_bytes(t))
                for st2, r in ex.need(st1, ok, "TypeError", "iter"):
                    if r is not None:
                        yield st2, (RAISE, r)
                        continue
                    from .calls import py_items
                    yield from for_core(ex, st2, s, "enumerate", V("list", py_items(t)))
                continue
        if kind == "pyiter":
            t = payload
            ok = z3.Or(Py.is_list(t), Py.is_tuple(t), Py.is_dict(t), Py.is_set(t), Py.is_bytes(t))
            for st2, r in ex.need(st1, ok, "TypeError", "iter"):
                if r is not None:
                    yield st2, (RAISE, r)
                    continue
                from .calls import py_items
                seq = py_items(t)
                yield from for_core(ex, st2, s, "seq", seq)
            continue
        yield from for_core(ex, st1, s, kind, payload)


def eval_iter(ex, st, node):
    if isinstance(node, ast.Call) and isinstance(node.func, ast.Name) and st.lookup(node.func.id) is None:
        if node.func.id == "range":
            for st1, vals in ex.exprs(st, node.args):
                if _isR(vals):
                    yield st1, vals
                    continue
                ints = [ex.as_int(ex.narrow(st1, v)) for v in vals]
                if len(ints) == 1:
                    yield st1, Const("range", (z3.IntVal(0), ints[0], z3.IntVal(1)))
                elif len(ints) == 2:
                    yield st1, Const("range", (ints[0], ints[1], z3.IntVal(1)))
                else:
                    yield st1, Const("range", tuple(ints))
            return
        if node.func.id == "enumerate":
            for st1, itv in eval_iter(ex, st, node.args[0]):
                if _isR(itv):
                    yield st1, itv
                else:
                    yield st1, Const("enumerate", itv)
            return
        if node.func.id == "reversed":
            raise _U("reversed")
    yield from ex.expr(st, node)


def element(ex, st, kind, payload, i):
    """the i-th value produced by the iteration (i: z3 Int)"""
    if kind == "seq":
        return ex.narrow(st, V("py", payload[i]))
    if kind == "bytes":
        st.assume(z3.And(payload[i] >= 0, payload[i] <= 255))       # type invariant of bytes
        return V("int", payload[i])
    if kind == "range":
        lo, hi, step = payload
        return V("int", lo + i * step)
    if kind == "enumerate":
        k2, p2 = iter_sequence(ex, st, payload)
        inner = element(ex, st, k2, p2, i)
        return V("tuple", S.seq_of([box(V("int", i)), box(inner)], Py))
    if kind == "dictitems":
        d = payload.t
        return V("tuple", S.seq_of([S.dkeys(d)[i], S.dvals(d)[i]], Py))
    raise _U(f"element of {kind}")


def length(ex, st, kind, payload):
    if kind in ("seq", "bytes"):
        return z3.Length(payload)
    if kind == "range":
        lo, hi, step = payload
        c = arith.is_conc(step)
        if c == 1:
            return z3.If(hi - lo > 0, hi - lo, z3.IntVal(0))
        if c == -1:
            return z3.If(lo - hi > 0, lo - hi, z3.IntVal(0))
        raise _U("range step")
    if kind == "enumerate":
        k2, p2 = iter_sequence(ex, st, payload)
        return length(ex, st, k2, p2)
    if kind == "dictitems":
        return z3.Length(S.dkeys(payload.t))
    raise _U(f"length of {kind}")


def seq_ghost(ex, st, kind, payload):
    """value bound to the `_seq` ghost inside invariants"""
    if kind == "seq":
        return V("list", payload)
    if kind == "bytes":
        return V("bytes", payload)
    if kind == "dictitems":
        return payload
    if kind == "enumerate":
        k2, p2 = iter_sequence(ex, st, payload)
        return seq_ghost(ex, st, k2, p2)
    return S.none()


def for_core(ex, st, s, kind, payload):
    eng = ex.eng
    if kind == "hostseq":
        yield from unrolled_host(ex, st, s, payload)
        return
    key, inv = find_invariant(ex, s)
    n = S.simp(length(ex, st, kind, payload))
    conc = arith.is_conc(n)
    if inv is None:
        if conc is not None and conc <= 300:
            yield from unrolled(ex, st, s, kind, payload, conc)
            return
        raise _U(f"loop {key} at line {s.lineno} has no invariant")
    seqv = seq_ghost(ex, st, kind, payload)
    ghosts = loop_ghosts(ex, key)
    # ---- init
    extra = {"_i": S.mk_int(0), "_seq": seqv, "_n": V("int", n)}
    for g, (ginit, gstep) in ghosts.items():
        ghost_frame(st)[g] = eval_ghost_expr(ex, st, ginit, extra)
    g0 = eval_inv(ex, st, inv, extra)
    eng.obligation(ex, st, f"loop{key}.init", g0, "loop-init", s)
    # ---- arbitrary iteration
    body_st = st.fork()
    havoc_for_loop(ex, body_st, s.body + s.orelse, _names(s.target),
                   heap=may_modify_heap(ex, s.body + s.orelse))
    for g in ghosts:
        old_g = ghost_frame(body_st)[g]
        ghost_frame(body_st)[g] = S.fresh(g, old_g.ty) if isinstance(old_g, V) else old_g
    exit_st = body_st.fork()
    i = S.fresh("_i", "int")
    body_st.assume(z3.And(i.t >= 0, i.t < n))
    extra_i = {"_i": i, "_seq": seqv, "_n": V("int", n)}
    body_st.assume(eval_inv(ex, body_st, inv, extra_i))
    for h in _hints(ex, "loop_hints", key):
        body_st.assume(eval_inv(ex, body_st, h, extra_i))
    results = []
    el = element(ex, body_st, kind, payload, i.t)
    saved_i = ghost_frame(body_st).get("_i")
    ghost_frame(body_st)["_i"] = i
    for st1, r in ex.store(body_st, s.target, el):
        if r is not None:
            results.append((st1, (RAISE, r)))
            continue
        for st2, o in ex.block(st1, s.body):
            if o[0] in (NEXT, CONT):
                extra_n = {"_i": V("int", i.t + 1), "_seq": seqv, "_n": V("int", n)}
                for g, (ginit, gstep) in ghosts.items():
                    ghost_frame(st2)[g] = eval_ghost_expr(ex, st2, gstep, extra_i)
                g = eval_inv(ex, st2, inv, extra_n)
                eng.obligation(ex, st2, f"loop{key}.preserve", g, "loop-preserve", s)
            elif o[0] == BRK:
                _restore_i(st2, saved_i)
                for h in _hints(ex, "exit_hints", key):
                    st2.assume(eval_inv(ex, st2, h, extra_i))
                results.append((st2, (NEXT, None)))
            else:
                _restore_i(st2, saved_i)
                results.append((st2, o))
    # ---- after the loop
    iN = S.fresh("_i", "int")
    exit_st.assume(iN.t == n)
    exit_st.assume(eval_inv(ex, exit_st, inv, {"_i": iN, "_seq": seqv, "_n": V("int", n)}))
    for h in _hints(ex, "exit_hints", key):
        exit_st.assume(eval_inv(ex, exit_st, h, {"_i": iN, "_seq": seqv, "_n": V("int", n)}))
    if ex.eng.quick_sat(exit_st.path):
        if s.orelse:
            results.extend(ex.block(exit_st, s.orelse))
        else:
            results.append((exit_st, (NEXT, None)))
    yield from results


def _hints(ex, attr, key):
    c = ex.fr.contract
    d = getattr(c, attr, None) or {}
    hs = d.get(key)
    if hs is None and isinstance(key, str) and key.isdigit():
        hs = d.get(int(key))
    return hs or []


def _restore_i(st, saved):
    if saved is None:
        ghost_frame(st).pop("_i", None)
    else:
        ghost_frame(st)["_i"] = saved


def _names(tg):
    out = []
    for n in ast.walk(tg):
        if isinstance(n, ast.Name):
            out.append(n.id)
    return out


def unrolled(ex, st, s, kind, payload, count):
    states = [(st, (NEXT, None))]
    done = []
    for k in range(count):
        nxt = []
        for st1, o in states:
            el = element(ex, st1, kind, payload, z3.IntVal(k))
            if isinstance(el, V):
                el = V(el.ty, S.simp(el.t))
            for st2, r in ex.store(st1, s.target, el):
                if r is not None:
                    done.append((st2, (RAISE, r)))
                    continue
                for st3, o3 in ex.block(st2, s.body):
                    if o3[0] in (NEXT, CONT):
                        nxt.append((st3, (NEXT, None)))
                    elif o3[0] == BRK:
                        done.append((st3, (NEXT, None)))
                    else:
                        done.append((st3, o3))
        states = nxt
    for st1, o in states:
        if s.orelse:
            done.extend(ex.block(st1, s.orelse))
        else:
            done.append((st1, (NEXT, None)))
    yield from done


def unrolled_host(ex, st, s, items):
    states = [st]
    done = []
    for it in items:
        nxt = []
        for st1 in states:
            for st2, r in ex.store(st1, s.target, it):
                if r is not None:
                    done.append((st2, (RAISE, r)))
                    continue
                for st3, o3 in ex.block(st2, s.body):
                    if o3[0] in (NEXT, CONT):
                        nxt.append(st3)
                    elif o3[0] == BRK:
                        done.append((st3, (NEXT, None)))
                    else:
                        done.append((st3, o3))
        states = nxt
    for st1 in states:
        if s.orelse:
            done.extend(ex.block(st1, s.orelse))
        else:
            done.append((st1, (NEXT, None)))
    yield from done


def while_(ex, st, s):
    eng = ex.eng
    key, inv = find_invariant(ex, s)
    if inv is None:
        raise _U(f"while loop {key} at line {s.lineno} has no invariant")
    ghosts = loop_ghosts(ex, key)
    for g, (ginit, gstep) in ghosts.items():
        ghost_frame(st)[g] = eval_ghost_expr(ex, st, ginit, {})
    g0 = eval_inv(ex, st, inv, {})
    eng.obligation(ex, st, f"loop{key}.init", g0, "loop-init", s)
    body_st = st.fork()
    havoc_for_loop(ex, body_st, s.body + s.orelse, heap=may_modify_heap(ex, s.body + s.orelse + [s.test]))
    for g in ghosts:
        old_g = ghost_frame(body_st)[g]
        ghost_frame(body_st)[g] = S.fresh(g, old_g.ty) if isinstance(old_g, V) else old_g
    body_st.assume(eval_inv(ex, body_st, inv, {}))
    results = []
    for st1, c in ex.expr(body_st, s.test):
        if _isR(c):
            results.append((st1, (RAISE, c)))
            continue
        a, b = ex.split(st1, S.truthy(c))
        if a is not None:
            for st2, o in ex.block(a, s.body):
                if o[0] in (NEXT, CONT):
                    for g, (ginit, gstep) in ghosts.items():
                        ghost_frame(st2)[g] = eval_ghost_expr(ex, st2, gstep, {})
                    g = eval_inv(ex, st2, inv, {})
                    eng.obligation(ex, st2, f"loop{key}.preserve", g, "loop-preserve", s)
                elif o[0] == BRK:
                    results.append((st2, (NEXT, None)))
                else:
                    results.append((st2, o))
        if b is not None:
            if s.orelse:
                results.extend(ex.block(b, s.orelse))
            else:
                results.append((b, (NEXT, None)))
    yield from results


def inline_generator(ex, st, s, gi):
    """`for x in obj.gen(): BODY` with gen a generator method of a repo class and BODY
    free of break/return: the consumer's body is substituted for each `yield`."""
    fi, selfref, args, kwargs = gi
    for n in ast.walk(ast.Module(body=s.body, type_ignores=[])):
        if isinstance(n, (ast.Break, ast.Return)):
            raise _U("break/return in the consumer of an inlined generator")
    from . import calls
    bound = calls.bind_args(ex, st, fi.node, selfref, args, kwargs, fi.module)
    fr = ex.fr
    eng = ex.eng
    eng.note_inlined(fr, fi)
    saved = (fr.yield_handler, fr.loop_prefix, fr.loop_index)
    from .engine import loops_in, Exec
    gen_frame_depth = len(st.frames)

    outer_stack = list(getattr(fr, "func_stack", []))

    def handler(st1, val):
        # run the consumer body in the consumer's frame
        genframe = st1.frames.pop()
        h_saved = (fr.yield_handler, fr.loop_prefix, fr.loop_index)
        h_stack = fr.func_stack
        fr.func_stack = outer_stack
        fr.yield_handler, fr.loop_prefix, fr.loop_index = saved
        try:
            outs = []
            for st2, r in ex.store(st1, s.target, val):
                if r is not None:
                    st2.frames.append(dict(genframe))
                    outs.append((st2, (RAISE, r)))
                    continue
                for st3, o in ex.block(st2, s.body):
                    st3.frames.append(dict(genframe))
                    if o[0] == CONT:
                        o = (NEXT, None)
                    outs.append((st3, o))
        finally:
            fr.yield_handler, fr.loop_prefix, fr.loop_index = h_saved
            fr.func_stack = h_stack
        return outs

    fr.yield_handler = handler
    fr.consumer_assigned = assigned_names(s.body) | set(_names(s.target))
    fr.loop_prefix = saved[1] + fi.qualname.split(".")[-1] + "."
    fr.loop_index = {id(n): i for i, n in enumerate(loops_in(fi.node))}
    sub = Exec(eng, fr, total=False, modname=fi.module)
    fr.func_stack = outer_stack + [fi.node]
    try:
        st.frames.append(dict(bound))
        outs = sub.block(st, fi.node.body)
        res = []
        for st1, o in outs:
            st1.frames.pop()
            if o[0] in (NEXT, RET):
                res.append((st1, (NEXT, None)))
            elif o[0] == RAISE:
                res.append((st1, o))
            else:
                raise _U("break/continue escaping generator")
    finally:
        fr.yield_handler, fr.loop_prefix, fr.loop_index = saved
        fr.func_stack = outer_stack
    if s.orelse:
        final = []
        for st1, o in res:
            if o[0] == NEXT:
                final.extend(ex.block(st1, s.orelse))
            else:
                final.append((st1, o))
        res = final
    yield from res
