"""vcheck driver: per-property deductive run + bounded stand-in + evidence + verdict.

Exit codes: 0 held / 1 violation / 2 undecided / 3 checker error (DESIGN 4).
"""
import ast
import json
import os
import pickle
import re
import select
import signal
import subprocess
import sys
import time
import traceback

VERIF = os.path.dirname(os.path.dirname(os.path.abspath(__file__)))
REPO = os.environ.get("PYVC_REPO", "/repo")
VENV_PY = "/venv/bin/python"


def jsonable(x, depth=0):
    """models may contain dicts with non-string keys, bytes, sets ...: make them JSON-safe"""
    if depth > 12:
        return repr(x)
    if isinstance(x, dict):
        return {(k if isinstance(k, str) else repr(k)): jsonable(v, depth + 1) for k, v in x.items()}
    if isinstance(x, (list, tuple, set, frozenset)):
        return [jsonable(v, depth + 1) for v in x]
    if isinstance(x, (bytes, bytearray)):
        return "bytes:" + bytes(x).hex()
    if isinstance(x, float) and x != x:
        return "nan"
    if isinstance(x, (str, int, float, bool)) or x is None:
        return x
    return repr(x)


GENERIC_REPLAY = '''
# no minimal program was recorded for this clause: the failing case above is reproduced by re-running the
# bounded stand-in of the property with the same tier and seed (exit status 1 when the clause fails again)
import json, os, subprocess, sys
VERIF = os.environ.get("PYVC_VERIF", os.path.dirname(os.path.dirname(os.path.dirname(os.path.abspath(__file__)))))
env = dict(os.environ, PYTHONPATH=os.environ.get("PYVC_REPO", "/repo") + ":" + VERIF, PYTHONDONTWRITEBYTECODE="1")
out = os.path.join(os.path.dirname(os.path.abspath(__file__)), "replay_{prop}_{clause}.out.json")
subprocess.call([sys.executable, "-m", "bounded.run", "{prop}", "--tier", "{tier}", "--seed", "{seed}", "--out", out],
                cwd=os.environ.get("PYVC_REPO", "/repo"), env=env)
fails = [f for f in json.load(open(out))["failures"] if f["clause"] == "{clause}"]
for f in fails[:5]:
    print("FAIL", f["clause"], f["what"][:300], f["case"])
sys.exit(1 if fails else 0)
'''


def replay_model(eng, prop, o):
    """-> (exit status of the replay program, its path, its last output line) or None when not applicable"""
    from . import replay_gen
    m = re.match(r"(?P<mod>[^:]+):(?P<qn>[^:\[]+)(\[(?P<beh>[^\]]+)\])?:", o["name"])
    if not m:
        return None
    c = eng.contracts.get(m.group("mod"), m.group("qn"), m.group("beh") or "default")
    fi = eng.repo.func(m.group("mod"), m.group("qn")) if c is not None else None
    try:
        src = replay_gen.make(c, fi, o["model"], o["name"])
    except Exception:
        return None
    if src is None:
        return None
    rp = os.path.join(VERIF, "replays", prop, re.sub(r"[^A-Za-z0-9_.@\[\]-]", "_", o["name"]) + ".replay.py")
    os.makedirs(os.path.dirname(rp), exist_ok=True)
    open(rp, "w").write(src)
    env = dict(os.environ, PYVC_REPO=eng.repo.root, PYVC_VERIF=VERIF, PYTHONDONTWRITEBYTECODE="1")
    try:
        pr = subprocess.run([VENV_PY, rp], cwd=eng.repo.root, env=env, capture_output=True, text=True, timeout=120)
    except Exception:
        return None
    out = (pr.stdout.strip().splitlines() or [""])[-1]
    return pr.returncode, rp, out


def load_props():
    path = os.path.join(VERIF, "contracts", "_properties.py")
    ns = {}
    exec(compile(open(path).read(), path, "exec"), ns)
    return ns["PROPS"]


def load_known():
    path = os.path.join(VERIF, "known_findings.py")
    ns = {}
    if os.path.exists(path):
        exec(compile(open(path).read(), path, "exec"), ns)
    return ns.get("DEDUCTIVE", []), ns.get("BOUNDED", []), ns.get("FIXED", [])


def select_contracts(eng, cfg):
    out = []
    for key, c in eng.contracts.by_key.items():
        for mod, qre, bre in cfg["functions"]:
            if key[0] == mod and re.fullmatch(qre, key[1]) and re.fullmatch(bre, key[2]):
                out.append(c)
                break
    for nm in cfg.get("lemmas", []):
        if nm in eng.contracts.lemmas:
            out.append(eng.contracts.lemmas[nm])
        else:
            raise RuntimeError(f"lemma {nm} missing")
    return out


# --------------------------------------------------------------- function worker
def _fn_worker(eng, c, findings, tmo_ms, jobs, wfd, sem=None):
    from . import run, callcontract
    from .engine import Exec, Frame, Unsupported
    import z3
    out = {"key": c.key if c.kind != "lemma" else ("<lemma>", c.qualname, "default")}
    try:
        res = run.generate(eng, c)
        run.apply_case_splits(eng, c, res)
        excluded = {}
        # known-finding exclusions: the negated predicate becomes a hypothesis
        for f in findings:
            pat = re.compile(f["obligation"])
            for o in res.obligations:
                if pat.fullmatch(o.name) and getattr(o, "state", None) is not None:
                    try:
                        node = ast.parse(f["exclude"], mode="eval").body
                        fr = Frame(eng, None, c)
                        ex = Exec(eng, fr, total=True, specmod=c.specmod)
                        v = ex.one(o.state, node)
                        from . import sorts as S
                        o.hyps = list(o.hyps) + [z3.Not(S.truthy(v))]
                        excluded.setdefault(o.name, []).append(f["id"])
                    except Exception as e:
                        out.setdefault("finding_errors", []).append(f"{f['id']}: {e}")
        run.solve_parallel(eng, [res], jobs=jobs, timeout_ms=tmo_ms, sem=sem)
        # retry what is not discharged with a longer budget (verdicts must not flip under load)
        for factor in (3, 10):
            again = [o for o in res.obligations if o.verdict in ("unknown",)]
            if not again:
                break
            for o in again:
                o.seed = factor          # a different solver seed as well as a longer budget
            res2 = run.FnResult(c)
            res2.obligations = again
            run.solve_parallel(eng, [res2], jobs=jobs, timeout_ms=tmo_ms * factor, sem=sem)
        # thorough tier: every discharged obligation is decided a second time by an independent solver
        # build (the stand-alone z3 4.8.12 binary on the SMT-LIB export of the same query)
        if os.environ.get("PYVC_TIER") == "thorough":
            import copy
            pairs = []
            for o in res.obligations:
                if o.verdict == "discharged" and not getattr(o, "backend_note", None) and (o.backend or "z3") == "z3":
                    o2 = copy.copy(o)
                    o2.use_cli = True
                    o2.safe_mode = True
                    o2._retried = True
                    o2.verdict = None
                    pairs.append((o, o2))
            if pairs:
                res3 = run.FnResult(c)
                res3.obligations = [p[1] for p in pairs]
                run.solve_parallel(eng, [res3], jobs=jobs, timeout_ms=tmo_ms, sem=sem)
                for o, o2 in pairs:
                    o.xcheck = o2.verdict
        summ = res.summary()
        summ["obligations"] = [dict(name=o.name, verdict=o.verdict, time=round(o.time, 3), backend=o.backend,
                                    xcheck=getattr(o, "xcheck", None),
                                    kind=o.kind, line=o.lineno, reason=(getattr(o, "reason", "") or "")[:500],
                                    model=getattr(o, "model_summary", None), fuel=getattr(o, "fuel_used", None),
                                    excluded=excluded.get(o.name, []))
                               for o in res.obligations]
        summ["axioms"] = sorted(eng.used_axioms)
        summ["assumptions"] = sorted(eng.assumptions_used)
        summ["externals"] = sorted(eng.used_externals)
        summ["lemmas_used"] = sorted(eng.used_lemmas)
        out["summary"] = summ
    except Exception as e:
        out["error"] = f"{type(e).__name__}: {e}\n{traceback.format_exc()}"
    try:
        data = pickle.dumps(out)
        os.write(wfd, data)
    finally:
        os._exit(0)


def run_functions(eng, contracts, findings, tmo_ms, fn_jobs, solve_jobs, hard_limit_s):
    import multiprocessing
    sem = multiprocessing.BoundedSemaphore(solve_jobs)     # global cap on concurrent solver processes
    pending = list(contracts)
    running = {}
    results = []
    retried = set()
    while pending or running:
        while pending and len(running) < fn_jobs:
            c = pending.pop(0)
            rfd, wfd = os.pipe()
            pid = os.fork()
            if pid == 0:
                os.close(rfd)
                if id(c) in retried:
                    eng.quick_cli = True        # second attempt after a crash of the in-process solver
                _fn_worker(eng, c, findings, tmo_ms, solve_jobs, wfd, sem)
            os.close(wfd)
            running[pid] = (c, rfd, time.time(), b"")
        fds = [v[1] for v in running.values()]
        ready, _, _ = select.select(fds, [], [], 0.5)
        now = time.time()
        for pid, (c, rfd, start, buf) in list(running.items()):
            if rfd in ready:
                chunk = os.read(rfd, 1 << 20)
                if chunk:
                    running[pid] = (c, rfd, start, buf + chunk)
                    continue
                os.close(rfd)
                os.waitpid(pid, 0)
                del running[pid]
                try:
                    results.append(pickle.loads(buf))
                except Exception:
                    if id(c) not in retried:
                        retried.add(id(c))
                        pending.append(c)
                    else:
                        results.append({"key": c.key, "crashed": True,
                                        "error": "function worker died twice (solver crash while generating obligations)"})
            elif now - start > hard_limit_s:
                try:
                    os.killpg(os.getpgid(pid), signal.SIGKILL) if False else os.kill(pid, signal.SIGKILL)
                except ProcessLookupError:
                    pass
                os.close(rfd)
                os.waitpid(pid, 0)
                del running[pid]
                results.append({"key": c.key, "error": f"function worker exceeded {hard_limit_s}s"})
    return results


# ----------------------------------------------------------------- bounded stand-in
def start_bounded(name, tier, seed, outfile):
    env = dict(os.environ)
    env["PYTHONPATH"] = f"{REPO}:{VERIF}"
    env["PYTHONDONTWRITEBYTECODE"] = "1"
    return subprocess.Popen([VENV_PY, "-m", "bounded.run", name, "--tier", tier, "--seed", str(seed), "--out", outfile],
                            cwd=REPO, env=env, stdout=subprocess.PIPE, stderr=subprocess.STDOUT, text=True)


def check_witnesses(findings):
    """-> set of finding ids whose concrete witness still fails on the real code"""
    live = set()
    for f in findings:
        w = f.get("witness")
        if not w:
            live.add(f["id"])
            continue
        env = dict(os.environ)
        env["PYTHONPATH"] = f"{REPO}:{VERIF}"
        env["PYTHONDONTWRITEBYTECODE"] = "1"
        try:
            p = subprocess.run([VENV_PY, "-c", w], cwd=REPO, env=env, capture_output=True, text=True, timeout=120)
            if "DEFECT" in p.stdout:
                live.add(f["id"])
        except Exception:
            pass
    return live


# -------------------------------------------------------------------------- main
def main(argv=None):
    import argparse
    ap = argparse.ArgumentParser(prog="vcheck")
    ap.add_argument("prop")
    ap.add_argument("--tier", default=os.environ.get("VERIF_TIER", "quick"))
    ap.add_argument("--seed", type=int, default=int(os.environ.get("VERIF_SEED", "0") or 0))
    ap.add_argument("--update-ledger", action="store_true")
    ap.add_argument("--no-bounded", action="store_true")
    ap.add_argument("--jobs", type=int, default=14)
    a = ap.parse_args(argv)
    t0 = time.time()
    try:
        return _main(a, t0)
    except SystemExit:
        raise
    except Exception as e:
        print(f"CHECKER-ERROR property={a.prop}: {type(e).__name__}: {e}")
        traceback.print_exc()
        return 3


def _main(a, t0):
    from .verifier import Engine
    prop = a.prop
    props = load_props()
    if prop not in props:
        print(f"unknown property {prop}")
        return 3
    cfg = props[prop]
    ded_findings, bnd_findings, fixed = load_known()
    ded_findings = [f for f in ded_findings if prop in f["property"]]
    os.makedirs(os.path.join(VERIF, "evidence"), exist_ok=True)
    os.makedirs(os.path.join(VERIF, "replays", prop), exist_ok=True)
    bounded_out = os.path.join(VERIF, "replays", prop, f"bounded_{a.tier}.json")
    bproc = None
    prov_obs, prov_inv = [], None
    if cfg.get("provenance"):
        from . import provenance as PV
        sites, prov_inv, declared = PV.analyse(REPO, os.path.join(VERIF, "contracts", "_frames.py"))
        seen_names = {}
        pf = cfg.get("provenance_filter")
        for st in sites:
            nm = st.name
            if pf and not re.match(pf, nm):
                continue
            k = seen_names.get(nm, 0)
            seen_names[nm] = k + 1
            if k:
                nm = f"{nm}#{k}"
            prov_obs.append(dict(name=nm, verdict="discharged" if st.ok else "refuted", time=0.0, backend="provenance",
                                 kind="frame", line=st.lineno, reason=st.why, model={"provenance": st.tag, "file": st.module, "line": st.lineno},
                                 fuel=None, excluded=[]))
        prov_inv["declared_modifies"] = {f"{k[0]}:{k[1]}": v for k, v in declared.items()}
        failed_sites = [{"file": os.path.join(REPO, o["model"]["file"]), "line": o["line"]} for o in prov_obs if o["verdict"] != "discharged"]
        os.environ["PYVC_FAILED_SITES"] = json.dumps(failed_sites[:6])
    if cfg.get("bounded") and not a.no_bounded:
        if os.path.exists(bounded_out):
            os.unlink(bounded_out)
        bproc = start_bounded(cfg["bounded"], a.tier, a.seed, bounded_out)
    live = check_witnesses(ded_findings)
    active = [f for f in ded_findings if f["id"] in live]
    eng = Engine().load()
    contracts = select_contracts(eng, cfg)
    trusted = [c for c in contracts if c.trusted]
    todo = [c for c in contracts if not c.trusted]
    tmo = 10000 if a.tier == "quick" else 30000
    os.environ["PYVC_TIER"] = a.tier
    fn_jobs = 6
    solve_jobs = a.jobs
    # heavy functions first (longest known solve time in the ledger)
    lp = os.path.join(VERIF, "ledger", f"{prop}.json")
    weights = json.load(open(lp)).get("weights", {}) if os.path.exists(lp) else {}
    todo.sort(key=lambda c: -weights.get(f"{c.module}:{c.qualname}[{c.behavior}]", 0))
    results = run_functions(eng, todo, active, tmo, fn_jobs, solve_jobs, hard_limit_s=1500 if a.tier == "quick" else 3600)
    # ---------------------------------------------------------------- aggregate
    obligations = []
    functions = []
    errors = []
    unsupported = []
    axioms, assumptions, externals, lemmas_used = set(), set(), set(), set()
    covers = []
    ledger0_path = os.path.join(VERIF, "ledger", f"{prop}.json")
    ledger0 = json.load(open(ledger0_path)) if os.path.exists(ledger0_path) else None

    def known_hash(k):
        """source hash the ledger recorded for function k (`module:qualname[behavior]`); a behaviour the ledger does not
        know yet (a contract added since) is compared with any other behaviour of the same function"""
        if not ledger0:
            return None
        h = ledger0["functions"].get(k, {}).get("hash")
        if h is None:
            stem = k[: k.rindex("[") + 1]
            for k2, v in ledger0["functions"].items():
                if k2.startswith(stem) and v.get("hash"):
                    return v["hash"]
        return h

    for r in results:
        if r.get("crashed"):
            # the solver crashed twice while the obligations of this function were generated.  On source the
            # ledger knows (unchanged code) that is a checker failure; on changed code the function is undecided
            # and whatever the other parts of the check find is still reported.
            key = r["key"]
            k = f"{key[0]}:{key[1]}[{key[2]}]"
            fi = eng.repo.func(key[0], key[1]) if key[0] != "<lemma>" else None
            cur = fi.source_hash() if fi is not None else None
            known = known_hash(k)
            if cur is not None and known is not None and cur != known:
                unsupported.append((k, "solver crash while generating obligations (source differs from the baseline)"))
            else:
                errors.append((key, r["error"]))
            continue
        if "error" in r:
            errors.append((r["key"], r["error"]))
            continue
        s = r["summary"]
        if s.get("error"):
            # the translator itself failed on this function (a construct it mishandles).  On source the ledger
            # knows that is a checker failure; on changed code the function is undecided -- the rest of the
            # check (other functions, frame obligations, bounded stand-in) still reports what it finds.
            k = f"{s['function']}[{s['behavior']}]"
            known = known_hash(k)
            if known is not None and s.get("source_hash") not in (None, known):
                unsupported.append((k, "translator error on changed source: " + s["error"].splitlines()[0][:200]))
                s = dict(s)
                s["error"] = None
        for e in r.get("finding_errors", []):
            errors.append((r["key"], "known-finding predicate: " + e))
        functions.append({"function": s["function"], "behavior": s["behavior"], "source_hash": s["source_hash"],
                          "obligations": len(s["obligations"]), "paths": s["paths"], "inlined": s["inlined"],
                          "gen_s": s["gen_time"], "solve_s": s["solve_time"]})
        if s.get("error"):
            errors.append((r["key"], s["error"]))
        if s.get("unsupported"):
            unsupported.append((s["function"] + "[" + s["behavior"] + "]", s["unsupported"]))
        if s.get("anchor_missing"):
            unsupported.append((s["function"] + "[" + s["behavior"] + "]", "anchor-missing"))
        for nm, ok in s["covers"]:
            covers.append((s["function"] + "[" + s["behavior"] + "]", nm, ok))
        obligations += s["obligations"]
        axioms |= set(s["axioms"])
        assumptions |= set(s["assumptions"])
        externals |= set(s["externals"])
        lemmas_used |= set(s["lemmas_used"])
    obligations += prov_obs
    if prov_inv is not None:
        functions.append({"function": "fastavro/**/*.py (every function: store sites)", "behavior": "frame",
                          "source_hash": prov_inv.get("source_hash", "-"), "obligations": len(prov_obs), "paths": 0, "inlined": [],
                          "gen_s": 0.0, "solve_s": 0.0, "functions_analysed": prov_inv["functions"]})
    n_ob = len(obligations)
    discharged = [o for o in obligations if o["verdict"] == "discharged"]
    failing = [o for o in obligations if o["verdict"] != "discharged"]
    # ---------------------------------------------------------------- ledger
    ledger_path = os.path.join(VERIF, "ledger", f"{prop}.json")
    ledger = json.load(open(ledger_path)) if os.path.exists(ledger_path) else None
    if a.update_ledger:
        os.makedirs(os.path.dirname(ledger_path), exist_ok=True)
        json.dump({"weights": {f["function"] + "[" + f["behavior"] + "]": round(f["gen_s"] + f["solve_s"], 1) for f in functions},
                   "obligations": {o["name"]: o["verdict"] for o in obligations},
                   "functions": {f["function"] + "[" + f["behavior"] + "]": {"hash": f["source_hash"], "n": f["obligations"]} for f in functions}},
                  open(ledger_path, "w"), indent=0, sort_keys=True)
        ledger = json.load(open(ledger_path))
    fail_closed = []
    if n_ob == 0 and (cfg["functions"] or cfg.get("provenance")) and not unsupported:
        fail_closed.append("zero obligations generated")
    if not cfg["functions"] and not cfg.get("provenance") and not bproc:
        fail_closed.append("nothing to run for this property")
    if ledger:
        for f in functions:
            k = f["function"] + "[" + f["behavior"] + "]"
            lf = ledger["functions"].get(k)
            if lf and lf["hash"] == f["source_hash"] and f["obligations"] * 2 < lf["n"]:
                # (small differences come from which infeasible paths the quick solver prunes)
                fail_closed.append(f"{k}: {f['obligations']} obligations, ledger has {lf['n']} for the same source")
        have = {f["function"] + "[" + f["behavior"] + "]" for f in functions}
        for k in ledger["functions"]:
            if k not in have and not any(u[0] == k for u in unsupported):
                fail_closed.append(f"{k}: in the ledger but not verified in this run")
    # ---------------------------------------------------------------- bounded
    bounded = None
    bounded_log = ""
    if bproc is not None:
        try:
            bounded_log, _ = bproc.communicate(timeout=3000)
        except subprocess.TimeoutExpired:
            bproc.kill()
            bounded_log = "bounded stand-in timed out"
        if os.path.exists(bounded_out):
            bounded = json.load(open(bounded_out))
        else:
            errors.append(("bounded", bounded_log[-2000:]))
    dis = [o["name"] for o in obligations if o.get("xcheck") == "refuted"]
    if dis:
        errors.append(("second-solver", "the two solver builds disagree on: " + ", ".join(dis[:10])))
    # ---------------------------------------------------------------- thorough: assumed axioms vs CPython
    axioms_xc = None
    if a.tier == "thorough":
        env2 = dict(os.environ, PYTHONPATH=VERIF, AXIOM_SAMPLES="2000", PYTHONDONTWRITEBYTECODE="1")
        try:
            pr = subprocess.run(["/venv/bin/python", os.path.join(VERIF, "axioms_check.py")], env=env2, cwd=VERIF,
                                capture_output=True, text=True, timeout=900)
            rep = json.load(open(os.path.join(VERIF, "evidence", "axioms.json")))
            axioms_xc = {"rc": pr.returncode, "axioms": rep.get("axioms"), "anchors": rep.get("anchors"),
                         "failures": rep.get("failures")}
            if pr.returncode != 0:
                errors.append(("axioms", "an assumed axiom is false on a concrete input (trusted base broken): "
                               + json.dumps(rep.get("failures"))[:1000]))
        except Exception as e:   # noqa
            errors.append(("axioms", f"{type(e).__name__}: {e}"))
    # ---------------------------------------------------------------- verdict
    violations = []
    undecided = []
    if bounded is not None and bounded["evaluations"] == 0:
        errors.append(("bounded", "the bounded stand-in explored zero cases"))
    if bounded and bounded["n_failures"]:
        for i, f in enumerate(bounded["failures"][:5]):
            rp = os.path.join(VERIF, "replays", prop, f"bounded_{f['clause']}_{i}.py")
            with open(rp, "w") as fh:
                fh.write(f"# property {prop}, bounded stand-in clause {f['clause']}\n# {f['what']}\n# case: {f['case']}\n")
                fh.write(f.get("replay") or GENERIC_REPLAY.format(prop=prop, tier=a.tier, seed=a.seed, clause=f["clause"]))
            violations.append((rp, f"bounded clause {f['clause']}: {f['what'][:200]}", True))
    concrete = bool(violations)
    bounded_replays = [v[0] for v in violations]
    for o in failing:
        in_ledger = bool(ledger and ledger["obligations"].get(o["name"]) == "discharged")
        rp = os.path.join(VERIF, "replays", prop, re.sub(r"[^A-Za-z0-9_.@\[\]-]", "_", o["name"]) + ".json")
        json.dump(jsonable({"property": prop, "obligation": o,
                   "failing_input_replays": bounded_replays, "note": "verifier output for an obligation that is not discharged; "
                   "replay of the model on the real code is done by the bounded stand-in of the property"}),
                  open(rp, "w"), indent=1, default=repr)
        # the solver's own counterexample, replayed on the real code where the contract is over plain data
        replayed = None
        if o["verdict"] == "refuted" and isinstance(o.get("model"), dict):
            replayed = replay_model(eng, prop, o)
        if replayed is not None and replayed[0] == 1:
            violations.append((replayed[1], f"obligation {o['name']} refuted; the verifier's counterexample fails on the real code: "
                               + replayed[2][:300], True))
            continue
        if in_ledger or o["verdict"] == "refuted":
            # the named obligation is the violation; when the bounded stand-in of the property also
            # found an input that fails on the real code, that input is the replayed counterexample
            violations.append((rp, (f"obligation {o['name']} {o['verdict']} (discharged on the baseline tree)"
                               if in_ledger else f"obligation {o['name']} refuted")
                               + (f"; failing input on the real code: {bounded_replays[0]}" if concrete else ""), concrete))
        else:
            undecided.append(o["name"])
    for k, why in unsupported:
        undecided.append(f"{k}: {why}")
    # ---------------------------------------------------------------- evidence
    by_backend = {}
    for o in obligations:
        by_backend[o["backend"] or "z3"] = by_backend.get(o["backend"] or "z3", 0) + 1
    trusted_base = (
        [f"assumed contract (trusted=True): {c.module}:{c.qualname}" for c in trusted]
        + [f"external (assumed contract / model): {e}" for e in sorted(externals)]
        + [f"axiom: {x}" for x in sorted(axioms)]
        + sorted(assumptions)
        + ["z3 4.x/5.1 (python API), the pyvc translator (DESIGN 2), the stream model (DESIGN 2.3)",
           "Cython mirrors (*.pyx) are not verified"]
    )
    samples = [{"obligation": o["name"], "verdict": o["verdict"], "solver_s": o["time"], "kind": o["kind"]}
               for o in (failing[:3] + discharged[:6])]
    known_lines = []
    for f in active:
        known_lines.append(f"KNOWN-FINDING: property={prop} {f['id']} {f['what']}")
    if bounded:
        for kid in bounded.get("known_ids", []):
            for f in bnd_findings:
                if f["id"] == kid and f.get("property") == prop and not any(kid in l for l in known_lines):
                    known_lines.append(f"KNOWN-FINDING: property={prop} {f['id']} {f['what']}")
    level = cfg.get("level", "other")
    ev = {
        "property_id": prop, "tier": a.tier, "seed": a.seed, "level": level,
        "coverage": {
            "obligations": n_ob, "discharged": len(discharged),
            "checker_cmd": f"./vcheck {prop} --tier {a.tier}",
            "trusted_base": trusted_base,
            "explanation": (f"{len(functions)} contracts on real functions of /repo (re-parsed this run); "
                            f"{n_ob} obligations generated, {len(discharged)} discharged ({by_backend}); "
                            f"bounded stand-in (never counted as proved): "
                            + (f"{bounded['evaluations']} cases, {bounded['n_failures']} failures" if bounded else "not run")),
            "functions_under_contract": functions,
            "by_backend": by_backend,
            "second_solver": ({"backend": "z3 4.8.12 binary on the SMT-LIB export (thorough tier)",
                               "agreed_unsat": sum(1 for o in obligations if o.get("xcheck") == "discharged"),
                               "undecided_there": sum(1 for o in obligations if o.get("xcheck") in ("unknown", "unsupported", "error")),
                               "disagreed": [o["name"] for o in obligations if o.get("xcheck") == "refuted"]}
                              if a.tier == "thorough" else None),
            "solver_time_s": round(sum(o["time"] for o in obligations), 1),
            "covers": [{"contract": c, "cover": nm, "ok": ok} for c, nm, ok in covers if not ok][:20],
            "covers_total": len(covers), "covers_ok": sum(1 for c in covers if c[2]),
            "unsupported": unsupported, "fail_closed": fail_closed,
            "excluded_by_known_finding": [o["name"] for o in obligations if o["excluded"]],
            "lemmas": sorted(lemmas_used),
            "provenance_inventory": prov_inv,
            "axioms_crosscheck": axioms_xc,
            "samples": samples,
            "bounded": ({k: bounded[k] for k in ("evaluations", "distinct_nontrivial", "clauses", "bounds", "n_failures", "known_ids", "wall_s")}
                        if bounded else None),
            "evaluations": (bounded["evaluations"] if bounded else 0) + n_ob,
            "distinct_nontrivial": (bounded["distinct_nontrivial"] if bounded else 0) + len({o["name"] for o in obligations}),
            "rule": "deductive: one obligation per named proof obligation (distinct names); bounded: distinct (clause, schema, datum/bytes) cases that exercise a non-empty input",
            "dropped_by_extraction": "docstrings, annotations, text of exception messages and warnings",
        },
        "assumptions": trusted_base,
        "wall_s": round(time.time() - t0, 1),
        "violations": len(violations),
    }
    if bounded:
        ev["coverage"]["samples"] += bounded.get("samples", [])[:4]
    json.dump(jsonable(ev), open(os.path.join(VERIF, "evidence", f"{prop}.json"), "w"), indent=1, default=repr)
    # ---------------------------------------------------------------- report
    print(f"[{prop}] contracts {len(functions)} obligations {n_ob} discharged {len(discharged)} "
          f"bounded {bounded['evaluations'] if bounded else 0} cases wall {ev['wall_s']}s")
    for l in known_lines:
        print(l)
    if errors:
        for k, e in errors:
            print(f"CHECKER-ERROR {k}: {e[:1500]}")
        return 3
    if fail_closed:
        for m in fail_closed:
            print(f"CHECKER-ERROR fail-closed: {m}")
        return 3
    if violations:
        for rp, what, conc in violations:
            tail = "" if conc else " no-failing-input-found"
            print(f"# {what}")
            print(f"VIOLATION property={prop} replay={rp}{tail}")
        return 1
    if undecided:
        for u in undecided[:20]:
            print(f"UNDECIDED {u}")
        return 2
    return 0
