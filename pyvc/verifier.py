"""The pyvc engine object: name resolution, obligations, spec unfolding, solving,
per-function verification."""
import ast
import os
import sys
import time
import z3

from . import sorts as S
from .sorts import V, Ref, Const, Py, box, unbox
from .extract import Repo, FuncInfo, ClassInfo
from . import specs as SP
from .contracts import ContractSet, Contract
from .engine import (Exec, State, Frame, Obligation, Raise, Unsupported, BUILTIN_EXC, EXC_ALIAS,
                     NEXT, RET, RAISE, BRK, CONT)

VERIF_ROOT = os.path.dirname(os.path.dirname(os.path.abspath(__file__)))

BUILTIN_FUNCS = {"len", "isinstance", "ord", "chr", "bool", "int", "float", "str", "repr", "bytes",
                 "list", "tuple", "set", "dict", "all", "any", "abs", "min", "max", "getattr",
                 "type", "next", "object", "bytearray", "frozenset"}
TYPE_NAMES = {"dict", "list", "tuple", "str", "bytes", "bytearray", "int", "bool", "float", "set",
              "frozenset", "object", "memoryview"}

EXT_TYPE_ALIASES = {
    ("numbers", "Integral"): "numbers.Integral", ("numbers", "Real"): "numbers.Real",
    ("collections.abc", "Mapping"): "collections.abc.Mapping",
    ("collections.abc", "Sequence"): "collections.abc.Sequence",
    ("array", "array"): "array.array",
    ("datetime", "datetime"): "datetime.datetime", ("datetime", "date"): "datetime.date",
    ("datetime", "time"): "datetime.time", ("datetime", "timedelta"): "datetime.timedelta",
    ("datetime", "timezone"): "datetime.timezone",
    ("decimal", "Decimal"): "decimal.Decimal", ("decimal", "Context"): "decimal.Context",
    ("uuid", "UUID"): "uuid.UUID",
}


class Engine:
    def __init__(self, repo_root=None, verif_root=None, quick_timeout_ms=300):
        self.repo = Repo(repo_root)
        self.root = verif_root or VERIF_ROOT
        if self.root not in sys.path:
            sys.path.insert(0, self.root)
        self.contracts = ContractSet(self.root)
        self.specs = SP.SpecRegistry()
        self.shapes = {}
        self.global_cache = {}
        self.used_externals = set()
        self.used_axioms = set()
        self.quick_timeout_ms = quick_timeout_ms
        self.quick_rlimit = 150000
        self._fops = {}
        self._sentinels = {}
        self._sent_ctr = 0
        self.exc_payload = {"UnknownType"}
        self.stats = {"quick_sat": 0, "quick_time": 0.0}
        self.inlined = {}
        self.assumptions_used = set()
        self.used_lemmas = set()

    # ------------------------------------------------------------------ setup
    def load(self):
        self.contracts.load_all("contracts")
        shp = os.path.join(self.root, "contracts", "_shapes.py")
        if os.path.exists(shp):
            tree = ast.parse(open(shp).read())
            for st in tree.body:
                if isinstance(st, ast.Assign) and st.targets[0].id == "SHAPES":
                    self.shapes = ast.literal_eval(st.value)
        self.specs.load_module("spec.core")
        return self

    # ------------------------------------------------------- uninterpreted ops
    def _fn(self, name, dom, rng):
        key = (name, tuple(str(d) for d in dom), str(rng))
        if key not in self._fops:
            self._fops[key] = z3.Function(name, *dom, rng)
        return self._fops[key]

    def fop(self, name, *args):
        """float operations are opaque spec functions `spec.core.f_<name>` (DESIGN 2.4):
        floats are IEEE-754 binary64 bit patterns (Int), never interpreted arithmetically"""
        fns = self.specs.load_module("spec.core")
        sf = fns.get("f_" + name)
        if sf is None:
            raise Unsupported(f"float op {name}")
        return sf.decl(*args)

    fop_bool = fop
    fop_int = fop

    def bitfn(self, name, x, y):
        self.assumptions_used.add(f"bit-op `{name}` translated through the identities of DESIGN 2.4 only")
        return self._fn("bit." + name, [S.I, S.I], S.I)(x, y)

    def pyeq_fn(self, a, b):
        return self._fn("pyeq", [Py, Py], S.B)(a, b)

    def opaque_fn(self, name, *args):
        return self._fn("opq." + name, [a.sort() for a in args], Py)(*args)

    def opaque_fn_str(self, name, *args):
        return self._fn("opq." + name, [a.sort() for a in args], S.Str)(*args)

    def opaque_seq(self, t):
        return self._fn("opq.iter_items", [Py], S.SeqPy)(t)

    def format_str(self, v, how="str"):
        if isinstance(v, V):
            if v.ty == "str" and how == "str":
                return v.t
            if v.ty in ("int", "bool") and how in ("str", "repr") and v.ty == "int":
                return self.spec_apply("spec.core", "str_of_int", [v]).t
            opq = self._fn("opq.format_" + how, [Py], S.Str)(box(v))
            if v.ty == "py" and how == "str":
                # str(x): a string is itself, an int its decimal text; other kinds stay opaque
                t = v.t
                soi = self.spec_apply("spec.core", "str_of_int", [V("int", Py.i(t))]).t
                return z3.If(Py.is_str(t), Py.s(t), z3.If(Py.is_int(t), soi, opq))
            return opq
        return z3.StringVal(f"<{v}>")

    def new_sentinel(self, name=None):
        self._sent_ctr += 1
        t = Py.obj(z3.IntVal(7), z3.IntVal(self._sent_ctr))
        self._sentinels[self._sent_ctr] = name
        return V("obj", t)

    def is_sentinel(self, t):
        t = z3.simplify(t)
        return z3.is_app(t) and t.decl().eq(Py.obj) and z3.is_int_value(t.arg(0)) and t.arg(0).as_long() == 7

    def spec_apply(self, modname, name, args, rtag=None):
        fns = self.specs.load_module(modname)
        if name not in fns:
            raise Unsupported(f"spec function {modname}.{name} missing")
        v = fns[name].apply(args)
        if rtag and rtag != v.ty:
            v = V(rtag, v.t)
        return v

    def wrap_spec_lookup(self, r):
        kind, val = r
        if kind == "fn":
            return Const("spec", val)
        if kind == "const":
            return S.lift(val)
        if kind == "module":
            return Const("specmodule", val)
        if kind == "ident":
            return Const("specident", val)
        raise Unsupported("spec lookup")

    # --------------------------------------------------------- name resolution
    def resolve_global(self, ex, name):
        if ex.specmod is not None:
            r = self.specs.lookup(ex.specmod, name)
            if r is not None:
                return self.wrap_spec_lookup(r)
            if name in self.contracts.lemmas:
                return Const("lemma", self.contracts.lemmas[name])
            if name in ("implies", "table_key", "same"):
                return Const("pyfn", name)
            if name in ("True", "False", "None"):
                return S.lift({"True": True, "False": False, "None": None}[name])
        if ex.modname is not None:
            v = self.resolve_in_module(ex.modname, name)
            if v is not None:
                return v
        elif getattr(ex, "clause_module", None):
            # a contract clause may name a sentinel object (X = object()) of the module it is about
            mi = self.repo.module(ex.clause_module)
            bs = mi.bindings.get(name) if mi is not None else None
            if bs and isinstance(bs[-1], ast.Assign) and isinstance(bs[-1].value, ast.Call) \
                    and isinstance(bs[-1].value.func, ast.Name) and bs[-1].value.func.id == "object":
                return self.resolve_in_module(ex.clause_module, name)
        if name in TYPE_NAMES:
            return Const("type", name)
        if name in BUILTIN_FUNCS:
            return Const("builtin", name)
        if name in BUILTIN_EXC:
            return Const("exccls", EXC_ALIAS.get(name, name))
        return None

    def resolve_in_module(self, relpath, name, _depth=0):
        key = (relpath, name)
        if key in self.global_cache:
            return self.global_cache[key]
        if _depth > 12:
            raise Unsupported(f"import cycle resolving {name}")
        mi = self.repo.module(relpath)
        if mi is None:
            return None
        bs = mi.bindings.get(name)
        if not bs:
            return None
        node = bs[-1]
        val = self._binding_value(mi, name, node, _depth)
        # module-level TABLE[k] = v registrations
        if isinstance(val, Const) and val.kind == "dict" and name in mi.table_stores:
            d = dict(val.val)
            for knode, vnode in mi.table_stores[name]:
                try:
                    k = ast.literal_eval(knode)
                except Exception:
                    continue
                if isinstance(vnode, ast.Name):
                    fv = self.resolve_in_module(relpath, vnode.id, _depth + 1)
                    d[k] = fv
                else:
                    d[k] = Const("opaque-callable", ast.unparse(vnode))
            val = Const("dict", d)
        self.global_cache[key] = val
        return val

    def _binding_value(self, mi, name, node, depth):
        if isinstance(node, ast.FunctionDef):
            return Const("func", mi.functions[node.name])
        if isinstance(node, ast.ClassDef):
            ci = mi.classes[node.name]
            if self._is_exception_class(mi, ci):
                self._register_exc(mi, ci)
                return Const("exccls", ci.name)
            return Const("class", ci)
        if isinstance(node, ast.ImportFrom):
            for a in node.names:
                if (a.asname or a.name) == name:
                    if node.level >= 1:
                        base = os.path.dirname(mi.relpath)
                        for _ in range(node.level - 1):
                            base = os.path.dirname(base)
                        if node.module is None:
                            # from . import X
                            return self._module_const(os.path.join(base, a.name))
                        modpath = os.path.join(base, *node.module.split("."))
                        target = self._module_path(modpath)
                        if target is None:
                            raise Unsupported(f"cannot resolve module {modpath}")
                        v = self.resolve_in_module(target, a.name, depth + 1)
                        if v is None:
                            # maybe a submodule
                            sub = self._module_path(os.path.join(modpath, a.name))
                            if sub:
                                return Const("module", sub)
                            raise Unsupported(f"cannot resolve {a.name} in {target}")
                        return v
                    return self.ext_attr(node.module, a.name)
        if isinstance(node, ast.Import):
            for a in node.names:
                nm = (a.asname or a.name).split(".")[0]
                if nm == name:
                    return Const("extmodule", a.name if a.asname else a.name.split(".")[0])
        if isinstance(node, (ast.Assign, ast.AnnAssign)):
            value = node.value
            ex = Exec(self, Frame(self, None, None), total=True, modname=mi.relpath)
            st = State()
            if isinstance(node, ast.Assign) and len(node.targets) == 1 and isinstance(node.targets[0], ast.Tuple):
                raise Unsupported("tuple assignment at module level")
            # sentinels:  X = object()
            if isinstance(value, ast.Call) and isinstance(value.func, ast.Name) and value.func.id == "object":
                return self.new_sentinel(f"{mi.relpath}:{name}")
            return ex.one(st, value)
        raise Unsupported(f"module binding {name}")

    def _module_path(self, base):
        if self.repo.exists(base + ".py"):
            return base + ".py"
        if self.repo.exists(os.path.join(base, "__init__.py")):
            return os.path.join(base, "__init__.py")
        return None

    def _module_const(self, base):
        p = self._module_path(base)
        if p is None:
            raise Unsupported(f"module {base} not found")
        return Const("module", p)

    def ext_attr(self, module, attr):
        full = f"{module}.{attr}"
        if (module, attr) in EXT_TYPE_ALIASES:
            return Const("exttype", EXT_TYPE_ALIASES[(module, attr)])
        if full in ("io.BytesIO", "io.StringIO"):
            return Const("class", _Named(attr))
        if full == "struct.error":
            return Const("exccls", "struct.error")
        if full in BUILTIN_EXC:
            return Const("exccls", full)
        if module == "typing" or module == "abc":
            return Const("typing", full)
        if full == "os.SEEK_SET":
            return S.mk_int(0)
        if full == "os.name":
            return V("str", z3.Const("os.name", S.Str))
        if full == "hashlib.algorithms_guaranteed":
            # an external constant set: membership is the opaque spec predicate HASHLIB_GUARANTEED
            return Const("setunion", [Const("specset", "HASHLIB_GUARANTEED")])
        if full == "string.ascii_letters":
            import string
            return S.mk_str(string.ascii_letters)
        if module in ("collections.abc", "numbers", "array"):
            return Const("exttype", full)
        if module in ("json.decoder",) and attr == "JSONDecodeError":
            return Const("exccls", "json.decoder.JSONDecodeError")
        return Const("ext", full)

    def _is_exception_class(self, mi, ci):
        for b in ci.bases:
            if b in BUILTIN_EXC or b.endswith("Error") or b.endswith("Exception"):
                return True
        return False

    def _register_exc(self, mi, ci):
        if ci.name not in BUILTIN_EXC:
            BUILTIN_EXC[ci.name] = [EXC_ALIAS.get(b, b) for b in ci.bases]

    def type_name(self, c):
        if isinstance(c, Const):
            if c.kind in ("type", "exttype"):
                return c.val
            if c.kind == "class":
                return c.val.name
            if c.kind == "exccls":
                return c.val
            if c.kind == "ext":
                return c.val
        raise Unsupported(f"type name of {c}")

    def is_repo_class(self, name):
        return self.find_class(name) is not None

    def find_class(self, name):
        for rel in self.repo.all_py_files():
            mi = self.repo.module(rel)
            if name in mi.classes:
                return mi.classes[name]
        return None

    def find_method(self, clsname, attr):
        seen = set()
        todo = [clsname]
        while todo:
            c = todo.pop(0)
            if c in seen:
                continue
            seen.add(c)
            ci = self.find_class(c)
            if ci is None:
                continue
            if attr in ci.methods:
                return ci.methods[attr]
            for b in ci.bases:
                todo.append(b.split("[")[0])
        return None

    def find_property(self, clsname, attr):
        return None

    def ref_isinstance(self, ref, name):
        c = ref.cls
        seen = set()
        todo = [c]
        while todo:
            x = todo.pop()
            if x == name:
                return True
            if x in seen:
                continue
            seen.add(x)
            ci = self.find_class(x)
            if ci:
                todo.extend(b.split("[")[0] for b in ci.bases)
        return False

    def exc_name(self, ex, st, node):
        res = list(ex.expr(st, node))
        if len(res) == 1 and isinstance(res[0][1], Const):
            c = res[0][1]
            if c.kind == "exccls":
                return c.val
            if c.kind == "ext":
                return c.val
        raise Unsupported(f"exception class {ast.unparse(node)}")

    def exc_bases(self, name):
        name = EXC_ALIAS.get(name, name)
        out = {name}
        todo = [name]
        while todo:
            n = todo.pop()
            for b in BUILTIN_EXC.get(n, ["Exception"] if n not in ("BaseException", "Exception") else []):
                b = EXC_ALIAS.get(b, b)
                if b not in out:
                    out.add(b)
                    todo.append(b)
        return out

    def exc_is(self, raised, handler):
        return EXC_ALIAS.get(handler, handler) in self.exc_bases(raised)

    def handler_matches(self, ex, st, h, r):
        if h.type is None:
            return True
        types = h.type.elts if isinstance(h.type, ast.Tuple) else [h.type]
        for t in types:
            nm = self.exc_name(ex, st, t)
            if self.exc_is(r.exc, nm):
                return True
        return False

    def handler_may_match(self, ex, st, h, r):
        """for an abstract raise (some instance of class r.exc): the first class named by the handler that is a
        strict subclass of r.exc, or None"""
        if h.type is None:
            return None
        types = h.type.elts if isinstance(h.type, ast.Tuple) else [h.type]
        for t in types:
            nm = self.exc_name(ex, st, t)
            if not self.exc_is(r.exc, nm) and self.exc_is(nm, r.exc):
                return EXC_ALIAS.get(nm, nm)
        return None

    # attributes of opaque library objects that are modelled: observer spec function, classes that have the
    # attribute (CLSID), range of the value (a fact about every such object)
    OBJ_ATTRS = {"hour": ("tod_hour", (1, 3), 0, 24), "minute": ("tod_minute", (1, 3), 0, 60),
                 "second": ("tod_second", (1, 3), 0, 60), "microsecond": ("tod_micro", (1, 3), 0, 1000000),
                 "days": ("td_days", (4,), None, None), "seconds": ("td_seconds", (4,), 0, 86400),
                 "microseconds": ("td_micros", (4,), 0, 1000000), "tzinfo": (None, (1,), None, None)}

    def lib_value(self, st, c):
        """a concrete library object built from literals in the code (module constants such as
        `epoch = datetime(1970, 1, 1, tzinfo=timezone.utc)`): a named object term plus what the observers say about it,
        computed by the library itself at verification time"""
        import spec.core as SC
        reg = self.__dict__.setdefault("_libobjs", {})
        key = repr(c.val)
        if key not in reg:
            reg[key] = Py.obj(z3.IntVal(1), z3.IntVal(-(1000 + len(reg))))
        t = reg[key]
        x = V("py", t)
        st.assume(self.spec_apply("spec.core", "dt_us", [x]).t == SC.dt_us(c.val))
        st.assume(self.spec_apply("spec.core", "dt_offset_us", [x]).t == SC.dt_offset_us(c.val))
        aw = S.truthy(self.spec_apply("spec.core", "dt_aware", [x]))
        st.assume(aw if SC.dt_aware(c.val) else z3.Not(aw))
        self.assumptions_used.add("datetime(<literals>) module constants: observers evaluated by CPython's datetime at verification time")
        return x

    def obj_attr(self, ex, st, base, attr):
        spec = self.OBJ_ATTRS.get(attr)
        if spec is None:
            raise Unsupported(f"attribute {attr} of an opaque object")
        fname, classes, lo, hi = spec
        t = S.box(base) if base.ty != "py" else base.t
        cond = z3.And(Py.is_obj(t), z3.Or(*[Py.cls(t) == c for c in classes]))
        for st1, r in ex.need(st, cond, "AttributeError", f"attr.{attr}"):
            if r is not None:
                yield st1, r
                continue
            if attr == "tzinfo":
                # None exactly for a naive datetime (fixed-offset zones: aware iff tzinfo is not None)
                aw = S.truthy(self.spec_apply("spec.core", "dt_aware", [V("py", t)]))
                tz = self.opaque_fn("tzinfo", t)
                st1.assume(z3.And(Py.is_obj(tz), Py.cls(tz) == 8))
                self.assumptions_used.add("datetime.tzinfo is None exactly for naive datetimes (tzinfo objects with utcoffset() None are not considered)")
                yield st1, V("py", z3.If(aw, tz, Py.none))
                continue
            v = self.spec_apply("spec.core", fname, [V("py", t)])
            if lo is not None:
                st1.assume(z3.And(v.t >= lo, v.t < hi))
            self.assumptions_used.add("datetime.time / datetime.datetime objects: hour, minute, second, microsecond are in range (library invariant)")
            yield st1, v

    def generator_target(self, ex, st, callnode):
        """if `callnode` calls a generator function of the repo -> (fi, selfref, args, kwargs)"""
        f = callnode.func
        if isinstance(f, ast.Attribute):
            res = list(ex.expr(st, f.value))
            if len(res) != 1 or isinstance(res[0][1], Raise):
                return None
            base = res[0][1]
            if isinstance(base, Ref):
                fi = self.find_method(base.cls, f.attr)
                if fi is not None and fi.is_generator():
                    if callnode.args or callnode.keywords:
                        raise Unsupported("generator call with arguments")
                    for n in ast.walk(fi.node):
                        if isinstance(n, ast.Try):
                            raise Unsupported("inlined generator contains try")
                    return fi, base, [], {}
        return None

    def note_inlined(self, fr, fi):
        self.inlined.setdefault(fr, set()).add(fi.key)

    def readonly_objects(self, ex, st):
        return getattr(ex.fr, "readonly_oids", set())

    def object_invariant(self, st, ref):
        if ref.cls in ("Stream", "TextStream"):
            from . import streams
            streams.invariant(st, ref)

    def alloc_shape(self, st, shape, name):
        """allocate an object of a declared shape with fresh symbolic fields"""
        if shape in S.NATIVE or shape in S.BOXED_TAGS:
            v = S.fresh(name, shape)
            kc = S.kind_constraint(v)
            if kc is not None:
                st.assume(kc)
            return v
        if shape == "none":
            return S.none()
        if shape.startswith("fn:"):
            _, mod, qn = shape.split(":", 2)
            fi = self.repo.func(mod, qn)
            if fi is None:
                raise Unsupported(f"shape function {shape} not found")
            return Const("func", fi)
        if shape.startswith("tablefn:"):
            # a function drawn from a module-level dispatch table, selected by a symbolic key
            _, mod, table = shape.split(":", 2)
            key = S.fresh(name + ".key", "str")
            tv = self.resolve_in_module(mod, table)
            if not (isinstance(tv, Const) and tv.kind == "dict"):
                raise Unsupported(f"{table} is not a dispatch table")
            usable = [k for k, v in tv.val.items() if isinstance(v, Const) and v.kind == "func"]
            st.assume(z3.Or(*[key.t == z3.StringVal(k) for k in usable]))
            self.assumptions_used.add(f"{table}: only entries bound to functions in this sandbox are considered: {sorted(usable)}")
            return Const("tablefn", (mod, table, key))
        base = shape
        fields = self.shapes.get(shape)
        if fields is None:
            raise Unsupported(f"unknown shape {shape}")
        cls = fields.get("__class__", base)
        ref = st.alloc(cls, {})
        for f, ty in fields.items():
            if f.startswith("__"):
                if f == "__caps__":
                    st.heap[ref.oid]["__caps__"] = set(ty)
                continue
            st.heap[ref.oid][f] = self.alloc_shape(st, ty, f"{name}.{f}")
        self.object_invariant(st, ref)
        return ref

    def arg_node_for(self, ex, node, param, contract):
        """argument AST that was bound to `param` at call `node`"""
        if node is None:
            return None
        for k in node.keywords:
            if k.arg == param:
                return k.value
        # positional: need the callee's parameter order
        fi = None
        if contract.kind == "target":
            fi = self.repo.func(contract.module, contract.qualname)
            params = [a.arg for a in fi.node.args.posonlyargs + fi.node.args.args]
            if fi.cls is not None and params and params[0] == "self" and isinstance(node.func, ast.Attribute):
                params = params[1:]
        else:
            params = contract.params or []
        if param in params:
            i = params.index(param)
            if i < len(node.args):
                return node.args[i]
        return None

    # ------------------------------------------------------------- obligations
    def obligation(self, ex, st, name, goal, kind, node=None):
        fr = ex.fr
        prefix = fr.prefix if hasattr(fr, "prefix") else ""
        # disambiguate repeated names (several paths reach the same site)
        base = f"{prefix}{name}"
        cnt = fr.site_counter.get(base, 0)
        fr.site_counter[base] = cnt + 1
        full = base if cnt == 0 else f"{base}@path{cnt}"
        conj = _conjuncts(goal)
        snap = st.fork()      # for known-finding predicates evaluated at this program point
        if getattr(fr, "snap_frames", None) is not None:
            snap.frames = [dict(f) for f in fr.snap_frames]
        if len(conj) > 1:
            # one obligation per conjunct: smaller queries, sharper diagnostics
            for k, g in enumerate(conj):
                o = Obligation(f"{full}[{k}]", st.path, g, kind, getattr(node, "lineno", None))
                o.fuel = fr.contract.fuel if fr.contract is not None else None
                o.no_unfold = (set(getattr(fr.contract, "opaque_here", None) or ()) | LAZY_SPECS) - set(getattr(fr.contract, "unfold_here", None) or ())
                o.state = snap
                fr.obligations.append(o)
            return o
        o = Obligation(full, st.path, goal, kind, getattr(node, "lineno", None))
        o.fuel = fr.contract.fuel if fr.contract is not None else None
        o.no_unfold = (set(getattr(fr.contract, "opaque_here", None) or ()) | LAZY_SPECS) - set(getattr(fr.contract, "unfold_here", None) or ())
        o.state = snap
        fr.obligations.append(o)
        return o

    # ------------------------------------------------------------------ solver
    def quick_sat(self, formulas):
        """False only if z3 proves the conjunction unsatisfiable within the quick budget
        (no spec unfolding: keeping an infeasible path is sound, only costly)."""
        t0 = time.time()
        s = z3.Solver()
        if getattr(self, "quick_cli", False):
            # the in-process solver crashed on this function before (z3 5.1 segfaults on a few sequence
            # queries): feasibility checks go to the stand-alone z3 4.8.12 binary instead
            for f in formulas:
                s.add(f)
            r = self.cli_check(s, 3000, rlimit=self.quick_rlimit * 20)
            self.stats["quick_sat"] += 1
            self.stats["quick_time"] += time.time() - t0
            return r != z3.unsat
        # a *resource* limit, not a wall-clock one: which infeasible paths are pruned (and hence
        # which obligations exist) must not depend on the machine's load
        s.set("rlimit", self.quick_rlimit)
        s.set("timeout", 20000)
        for f in formulas:
            s.add(f)
        r = s.check()
        self.stats["quick_sat"] += 1
        self.stats["quick_time"] += time.time() - t0
        return r != z3.unsat

    def unfold(self, sf, app, decide=None):
        """defining equation of a spec function at one ground application; `decide`
        (optional) prunes branches whose guard is refuted by the obligation's context"""
        ex = Exec(self, Frame(self, None, None), total=True, specmod=sf.module)
        st = State()
        frame = {}
        for p, tag, a in zip(sf.params, sf.ptags, app.children()):
            frame[p] = V(tag, a)
        st.frames = [frame]
        body = spec_block(ex, st, sf.node.body, decide)
        t = SP.coerce(body, sf.rtag) if isinstance(body, V) else None
        if t is None:
            raise Unsupported(f"spec {sf.name} body")
        if decide is not None and getattr(decide, "prune_ites", False):
            t = self.prune_ites(t, decide)
        eq = app == t
        if st.path:
            return z3.And(eq, *st.path)
        return eq

    def length_bounds(self, terms):
        """CPython: every container length fits Py_ssize_t (assumption, listed in evidence)"""
        out = []
        seen = set()
        stack = list(terms)
        while stack:
            t = stack.pop()
            tid = t.get_id()
            if tid in seen:
                continue
            seen.add(tid)
            if z3.is_app(t):
                if t.decl().kind() == z3.Z3_OP_SEQ_LENGTH:
                    out.append(t <= 2 ** 63 - 1)
                elif t.decl().eq(Py.keys) or t.decl().eq(Py.vals):
                    x = t.arg(0)
                    out.append(z3.Implies(Py.is_dict(x), z3.Length(Py.keys(x)) == z3.Length(Py.vals(x))))
                elif t.decl().eq(S.DGET) or t.decl().eq(S.DHAS):
                    x = t.arg(0)
                    out.append(z3.Implies(Py.is_dict(x), z3.Length(Py.keys(x)) == z3.Length(Py.vals(x))))
                elif t.decl().eq(S.PYITEMS):
                    x = t.arg(0)
                    out.append(z3.Implies(z3.Or(Py.is_list(x), Py.is_tuple(x), Py.is_dict(x), Py.is_set(x), Py.is_bytes(x)),
                                          z3.Length(t) == S.PYLEN(x)))
                    out.append(z3.And(S.PYLEN(x) >= 0, S.PYLEN(x) <= 2 ** 63 - 1))
                elif t.decl().kind() == z3.Z3_OP_SEQ_NTH and z3.is_app(t.arg(0)) and t.arg(0).decl().eq(S.PYITEMS):
                    x = t.arg(0).arg(0)
                    i = t.arg(1)
                    out.append(z3.Implies(z3.And(Py.is_bytes(x), i >= 0, i < z3.Length(Py.bs(x))),
                                          z3.And(t == Py.int(Py.bs(x)[i]), Py.bs(x)[i] >= 0, Py.bs(x)[i] <= 255)))
                elif t.decl().eq(S.BYTES_ITEMS):
                    out.append(z3.Length(t) == z3.Length(t.arg(0)))
                elif t.decl().kind() == z3.Z3_OP_SEQ_NTH and z3.is_app(t.arg(0)) and t.arg(0).decl().eq(S.BYTES_ITEMS):
                    b = t.arg(0).arg(0)
                    i = t.arg(1)
                    out.append(z3.Implies(z3.And(i >= 0, i < z3.Length(b)),
                                          z3.And(t == Py.int(b[i]), b[i] >= 0, b[i] <= 255)))
                elif t.decl().eq(S.PYLEN):
                    out.append(z3.And(t >= 0, t <= 2 ** 63 - 1))
                elif t.decl().kind() == z3.Z3_OP_SEQ_INDEX:
                    out.append(z3.And(t >= -1, t <= z3.Length(t.arg(0)), z3.Length(t.arg(0)) <= 2 ** 63 - 1))
                stack.extend(t.children())
        if out:
            self.assumptions_used.add("len(x) <= 2**63 - 1 for every container (Py_ssize_t)")
        return out

    def seq_facts(self, terms, seen):
        """`xs contains xs[i]` for an index in range: true in the theory of sequences, but the sequence
        solver does not find it unprompted (instantiated only where such a membership test occurs)"""
        out = []
        stack = list(terms)
        while stack:
            t = stack.pop()
            tid = t.get_id()
            if tid in seen:
                continue
            seen.add(tid)
            if not z3.is_app(t):
                continue
            if t.decl().kind() == z3.Z3_OP_SEQ_CONTAINS and z3.is_app(t.arg(1)) \
                    and t.arg(1).decl().kind() == z3.Z3_OP_SEQ_UNIT and z3.is_app(t.arg(1).arg(0)) \
                    and t.arg(1).arg(0).decl().kind() == z3.Z3_OP_SEQ_NTH and t.arg(1).arg(0).arg(0).eq(t.arg(0)):
                i = t.arg(1).arg(0).arg(1)
                out.append(z3.Implies(z3.And(i >= 0, i < z3.Length(t.arg(0))), t))
            elif t.decl().kind() == z3.Z3_OP_SEQ_CONTAINS and z3.is_app(t.arg(1)) \
                    and t.arg(1).decl().kind() == z3.Z3_OP_SEQ_UNIT and z3.is_app(t.arg(1).arg(0)) \
                    and t.arg(1).arg(0).decl().kind() == z3.Z3_OP_SEQ_NTH:
                # the same through the two spellings of "the items of x": the accessor items(x) of a list value
                # and the total function py.items(x)
                seq_a, nth = t.arg(0), t.arg(1).arg(0)
                seq_b, i = nth.arg(0), nth.arg(1)
                if z3.is_app(seq_a) and z3.is_app(seq_b) and seq_b.decl().eq(S.PYITEMS) and seq_a.num_args() == 1 \
                        and seq_a.arg(0).eq(seq_b.arg(0)) and seq_a.decl().eq(Py.items):
                    x = seq_a.arg(0)
                    out.append(z3.Implies(z3.And(Py.is_list(x), i >= 0, i < z3.Length(seq_a)),
                                          z3.And(seq_b == seq_a, t)))
            elif t.decl().kind() == z3.Z3_OP_SEQ_INDEX and t.num_args() == 3 and z3.is_app(t.arg(1)) \
                    and t.arg(1).decl().kind() == z3.Z3_OP_SEQ_UNIT and z3.is_int_value(t.arg(2)) and t.arg(2).as_long() == 0:
                # xs.index(e) (first occurrence from 0) IS an occurrence when e occurs at all, and the first
                # occurrence in a ++ b lies in a when a contains e -- both valid in the theory of sequences
                sq, un = t.arg(0), t.arg(1)
                out.append(z3.Implies(z3.Contains(sq, un), z3.And(t >= 0, t < z3.Length(sq), sq[t] == un.arg(0))))
                if z3.is_app(sq) and sq.decl().kind() == z3.Z3_OP_SEQ_CONCAT and sq.num_args() >= 2:
                    a = sq.arg(0)
                    out.append(z3.Implies(z3.Contains(a, un), t == z3.IndexOf(a, un, z3.IntVal(0))))
                    if sq.num_args() == 2 and sq.arg(1).eq(un):
                        # ... and in a ++ [e] it is the last position when a does not contain e
                        out.append(z3.Implies(z3.Not(z3.Contains(a, un)), t == z3.Length(a)))
            stack.extend(t.children())
        return out

    def data_facts(self, terms, seen=None):
        """Data-model assumption (listed in the evidence): the module sentinels (`X = object()`) are never
        *elements* of containers -- user data cannot contain them and the code never stores one (checked:
        an obligation whose formulas build a container around a sentinel gets no such fact).  So every
        element access `xs[i]` / `d[k]` yields a non-sentinel."""
        if os.environ.get("PYVC_NO_DATA_FACTS"):
            return []
        out = []
        seen = set() if seen is None else seen
        stack = list(terms)
        stored = False
        acc = []
        while stack:
            t = stack.pop()
            tid = t.get_id()
            if tid in seen:
                continue
            seen.add(tid)
            if not z3.is_app(t):
                continue
            k = t.decl().kind()
            if k == z3.Z3_OP_SEQ_UNIT and t.arg(0).sort().eq(Py) and self._mentions_sentinel(t.arg(0)):
                stored = True
            elif k == z3.Z3_OP_SEQ_NTH and t.sort().eq(Py):
                acc.append(t)
            elif t.decl().eq(S.DGET):
                acc.append(t)
            stack.extend(t.children())
        if stored:
            return []
        for t in acc:
            out.append(z3.Not(z3.And(Py.is_obj(t), Py.cls(t) == 7)))
        if out:
            self.assumptions_used.add("module sentinel objects (X = object()) are never elements of containers")
        return out

    def _mentions_sentinel_test(self, terms):
        stack = list(terms)
        seen = set()
        while stack:
            x = stack.pop()
            if x.get_id() in seen:
                continue
            seen.add(x.get_id())
            if z3.is_app(x):
                d = x.decl()
                if d.eq(Py.cls) or d.eq(Py.obj):
                    return True
                stack.extend(x.children())
        return False

    def _mentions_sentinel(self, t):
        stack = [t]
        seen = set()
        while stack:
            x = stack.pop()
            if x.get_id() in seen:
                continue
            seen.add(x.get_id())
            if z3.is_app(x):
                if x.decl().eq(Py.obj) and z3.is_int_value(x.arg(0)) and x.arg(0).as_long() == 7:
                    return True
                stack.extend(x.children())
        return False

    def prune_ites(self, t, decide, limit=40):
        """replace if-then-else subterms whose condition the obligation's context decides
        (e.g. the negative-index normalisation `If(i < 0, i + n, i)` when i >= 0 is known)"""
        found = []
        seen = set()
        stack = [t]
        while stack and len(found) < limit:
            x = stack.pop()
            i = x.get_id()
            if i in seen:
                continue
            seen.add(i)
            if z3.is_app(x):
                if x.decl().kind() == z3.Z3_OP_ITE:
                    found.append(x)
                stack.extend(x.children())
        subs = []
        for x in found:
            k = decide(x.arg(0))
            if k is True:
                subs.append((x, x.arg(1)))
            elif k is False:
                subs.append((x, x.arg(2)))
        if subs:
            t = z3.substitute(t, *subs)
        return t

    def _mentions_bv(self, terms):
        seen = set()
        stack = list(terms)
        while stack:
            t = stack.pop()
            i = t.get_id()
            if i in seen:
                continue
            seen.add(i)
            if z3.is_bv(t):
                return True
            if z3.is_app(t):
                stack.extend(t.children())
        return False

    def bv_abstract_unsat(self, formulas, timeout_ms):
        """Replace every maximal subterm that is not built from bit-vector / boolean operators
        (uninterpreted applications, int2bv of integer terms, ...) by a fresh constant, the same
        constant for syntactically equal terms; drop conjuncts that are not boolean combinations
        of bit-vector atoms.  A model of the original formulas induces a model of the abstraction,
        so `unsat` of the abstraction implies `unsat` of the original."""
        cache = {}
        ctr = [0]
        BV_OK = {z3.Z3_OP_BADD, z3.Z3_OP_BSUB, z3.Z3_OP_BMUL, z3.Z3_OP_BAND, z3.Z3_OP_BOR, z3.Z3_OP_BXOR, z3.Z3_OP_BNOT,
                 z3.Z3_OP_BLSHR, z3.Z3_OP_BSHL, z3.Z3_OP_BASHR, z3.Z3_OP_CONCAT, z3.Z3_OP_EXTRACT, z3.Z3_OP_ZERO_EXT,
                 z3.Z3_OP_SIGN_EXT, z3.Z3_OP_BNUM, z3.Z3_OP_ULT, z3.Z3_OP_ULEQ, z3.Z3_OP_UGT, z3.Z3_OP_UGEQ, z3.Z3_OP_SLT,
                 z3.Z3_OP_SLEQ, z3.Z3_OP_SGT, z3.Z3_OP_SGEQ, z3.Z3_OP_ITE, z3.Z3_OP_EQ, z3.Z3_OP_DISTINCT, z3.Z3_OP_AND,
                 z3.Z3_OP_OR, z3.Z3_OP_NOT, z3.Z3_OP_IMPLIES, z3.Z3_OP_XOR, z3.Z3_OP_TRUE, z3.Z3_OP_FALSE, z3.Z3_OP_IFF}

        def fresh(t):
            k = t.get_id()
            if k not in cache:
                ctr[0] += 1
                cache[k] = z3.Const(f"abs!{ctr[0]}", t.sort())
            return cache[k]

        memo = {}

        def go(t):
            """-> abstracted term, or None if t (a Bool) must be dropped"""
            k = t.get_id()
            if k in memo:
                return memo[k]
            out = None
            if z3.is_app(t):
                kind = t.decl().kind()
                srt_ok = z3.is_bv(t) or z3.is_bool(t)
                if not srt_ok:
                    out = None
                elif t.num_args() == 0:
                    out = t if (kind in BV_OK or kind == z3.Z3_OP_UNINTERPRETED) else fresh(t)
                elif kind in BV_OK:
                    kids = [go(c) for c in t.children()]
                    if kind in (z3.Z3_OP_EQ, z3.Z3_OP_DISTINCT) and not (z3.is_bv(t.arg(0)) or z3.is_bool(t.arg(0))):
                        out = fresh(t) if z3.is_bool(t) else None
                    elif any(c is None for c in kids):
                        out = fresh(t) if z3.is_bv(t) or z3.is_bool(t) else None
                    else:
                        out = t.decl()(*kids)
                else:
                    out = fresh(t)
            else:
                out = fresh(t) if (z3.is_bv(t) or z3.is_bool(t)) else None
            memo[k] = out
            return out
        s = z3.SolverFor("QF_BV")
        s.set("timeout", timeout_ms)
        for f in formulas:
            for c in _conjuncts(f):
                a = go(c)
                if a is not None:
                    s.add(a)
        return s.check() == z3.unsat

    def cli_check(self, solver, budget_ms, rlimit=None):
        """second back end: the query exported as SMT-LIB 2 and decided by the stand-alone z3
        4.8.12 binary (/usr/bin/z3), a different build and version from the z3-solver 5.1 wheel
        used in-process.  Used when the in-process solver crashes, and in the thorough tier to
        re-check discharged obligations."""
        import subprocess
        import tempfile
        d = os.path.join(self.root, ".scratch")
        os.makedirs(d, exist_ok=True)
        with tempfile.NamedTemporaryFile("w", suffix=".smt2", dir=d, delete=False) as fh:
            fh.write(solver.to_smt2())
            path = fh.name
        try:
            secs = max(1, int(budget_ms / 1000))
            cmd = [CLI_PATH, f"-T:{secs}"] + ([f"rlimit={int(rlimit)}"] if rlimit else []) + [path]
            p = subprocess.run(cmd, capture_output=True, text=True, timeout=secs + 20)
            out = p.stdout.strip().splitlines()
            first = out[0].strip() if out else ""
            if first == "unsat":
                return z3.unsat
            if first == "sat":
                return z3.sat
            return z3.unknown
        except Exception:
            return z3.unknown
        finally:
            try:
                os.unlink(path)
            except OSError:
                pass

    def instantiate_axiom(self, ax, app):
        ex = Exec(self, Frame(self, None, None), total=True, specmod=ax.module)
        st = State()
        frame = {}
        for p, tag, a in zip(ax.params, ax.ptags, app.children()):
            frame[p] = V(tag, a)
        st.frames = [frame]
        body = spec_block(ex, st, ax.node.body)
        self.used_axioms.add(f"{ax.module}.{ax.name}" + (" (lemma)" if ax.is_lemma else ""))
        t = S.truthy(body)
        if st.path:
            return z3.And(t, *st.path)
        return t

    def discharge(self, ob, timeout_ms=10000, max_fuel=3):
        t0 = time.time()
        base = list(ob.hyps) + [z3.Not(ob.goal)]
        base += self.length_bounds(base)
        seq_seen = set()
        base += self.seq_facts(base, seq_seen)
        data_seen = set()
        # the sentinel facts matter only where something tells sentinels from data (`x is NoValue`, is_data(x))
        need_data = self._mentions_sentinel_test(base)
        if need_data:
            base += self.data_facts(base, data_seen)
        # spec functions this contract asks not to unfold (irrelevant to its argument; keeps queries small --
        # only ever makes an obligation harder to discharge, never easier)
        no_unfold = getattr(ob, "no_unfold", None) or set()
        seen_ids = set()
        seen_apps = set()
        defs = []
        frontier = self.specs.apps_in(base, seen_ids)
        fuel = ob.fuel or max_fuel
        verdict = "unknown"
        model = None
        reason = ""
        has_bv = self._mentions_bv(base)
        ctx = z3.Solver()
        ctx.set("rlimit", 10000)
        ctx.set("timeout", 5000)
        for f in base:
            ctx.add(f)

        def decide(c):
            ctx.push()
            ctx.add(c)
            r1 = ctx.check()
            ctx.pop()
            if r1 == z3.unsat:
                return False
            ctx.push()
            ctx.add(z3.Not(c))
            r2 = ctx.check()
            ctx.pop()
            if r2 == z3.unsat:
                return True
            return None
        decide.prune_ites = has_bv       # only bit-vector obligations need the index normalisations resolved
        if getattr(ob, "safe_mode", False):
            decide = None                # a solver crash was seen on this obligation: no context pruning
        for depth in range(fuel + 1):
            s = z3.Solver()
            # with too few unfoldings the query is satisfiable but models are hard to find:
            # spend little time on the early rounds, the full budget on the last one
            budget = timeout_ms if (depth == fuel or not frontier) else min(timeout_ms, [1000, 2500, 5000, 8000][min(depth, 3)])
            s.set("timeout", budget)
            if getattr(ob, "seed", 0):
                s.set("random_seed", int(ob.seed))      # retries use another seed: the sequence solver's
            for f in base:                              # success on identical input varies from run to run
                s.add(f)
            for d in defs:
                s.add(d)
            r = None
            if depth >= 1 and has_bv:
                # bit-vector obligations: abstract the non-bit-vector context away and hand the
                # pure QF_BV query to the bit-blaster first (sound for `unsat`)
                if self.bv_abstract_unsat(base + defs, min(timeout_ms, 30000)):
                    r = z3.unsat
                    ob.backend_note = "z3 QF_BV after abstraction of non-bit-vector terms"
            if r is None:
                if getattr(ob, "use_cli", False):
                    r = self.cli_check(s, budget)
                    ob.backend = CLI_NAME
                else:
                    r = s.check()
            if r == z3.unsat:
                verdict = "discharged"
                ob.fuel_used = depth
                break
            if r == z3.sat:
                try:
                    model = s.model()
                    verdict = "refuted"
                except z3.Z3Exception as e:     # "model is not available": treat the round as undecided
                    verdict = "unknown"
                    reason = f"z3: {e}"
            else:
                verdict = "unknown"
                reason = s.reason_unknown()
            if depth == fuel:
                break
            new = []
            for sf, app in frontier:
                aid = app.get_id()
                if aid in seen_apps:
                    continue
                seen_apps.add(aid)
                for ax in self.specs.axioms.get(sf.decl.name(), ()):
                    new.append(self.instantiate_axiom(ax, app))
                if sf.opaque or sf.name in no_unfold:
                    continue
                new.append(self.unfold(sf, app, decide))
            if not new:
                break
            if need_data:
                new += self.data_facts(new, data_seen)
            new += self.seq_facts(new, seq_seen)
            defs.extend(new)
            for d in new:
                ctx.add(d)
            frontier = self.specs.apps_in(new, seen_ids)
        ob.verdict = verdict
        ob.time = time.time() - t0
        ob.backend = getattr(ob, "backend", None) or "z3"
        ob.model = model
        ob.reason = reason
        ob.defs = defs
        return verdict


def _spec_reach(self, names):
    """spec-function names reachable from `names` through the bodies of the spec definitions"""
    if not hasattr(self, "_callgraph"):
        g = {}
        allnames = {}
        for decl_name, sf in self.specs.by_decl.items():
            allnames.setdefault(sf.name, []).append(sf)
        for decl_name, sf in self.specs.by_decl.items():
            refs = set()
            for n in ast.walk(sf.node):
                if isinstance(n, ast.Name) and n.id in allnames:
                    refs.add(n.id)
                elif isinstance(n, ast.Attribute) and n.attr in allnames:
                    refs.add(n.attr)
            g.setdefault(sf.name, set()).update(refs)
        self._callgraph = g
    out = set()
    stack = list(names)
    while stack:
        n = stack.pop()
        if n in out:
            continue
        out.add(n)
        stack.extend(self._callgraph.get(n, ()))
    return out


def _cone_phase_impl(self, ob, base, no_unfold, decide, fuel, timeout_ms, ctx):
    """relevance-filtered unfolding: only applications (in hypotheses or goal) of spec functions
    that the goal's own spec functions can reach through their definitions"""
    goal_apps = self.specs.apps_in([ob.goal], set())
    if not goal_apps:
        return False
    reach = self._spec_reach({sf.name for sf, _ in goal_apps})
    seen_ids = set()
    seen_apps = set()
    data_seen = set()
    cdefs = []
    frontier = self.specs.apps_in(base, seen_ids)
    if all(sf.name in reach for sf, _ in frontier):
        return False        # nothing to filter: the full procedure does the same work
    budgets = [2500, 5000, 10000, 10000]
    for d in range(1, fuel + 1):
        new = []
        for sf, app in frontier:
            aid = app.get_id()
            if aid in seen_apps:
                continue
            seen_apps.add(aid)
            if sf.name not in reach:
                continue
            for ax in self.specs.axioms.get(sf.decl.name(), ()):
                new.append(self.instantiate_axiom(ax, app))
            if sf.opaque or sf.name in no_unfold:
                continue
            new.append(self.unfold(sf, app, decide))
        if not new:
            return False
        new += self.data_facts(new, data_seen)
        cdefs.extend(new)
        frontier = self.specs.apps_in(new, seen_ids)
        s = z3.Solver()
        s.set("timeout", min(timeout_ms, budgets[min(d - 1, 3)]))
        for f in base:
            s.add(f)
        for f in cdefs:
            s.add(f)
        if s.check() == z3.unsat:
            ob.defs = cdefs
            return True
    return False


Engine._spec_reach = _spec_reach
Engine._cone_phase = _cone_phase_impl


# spec functions that are only unfolded where a contract asks for it (`unfold_here`): flat side
# conditions that almost no argument looks into
LAZY_SPECS = {"NS_CLEAN"}


def _conjuncts(g):
    out = []
    stack = [g]
    while stack:
        t = stack.pop()
        if z3.is_app(t) and t.decl().kind() == z3.Z3_OP_AND:
            stack.extend(reversed(t.children()))
        else:
            out.append(t)
    return out


CLI_PATH = "/usr/bin/z3"
CLI_NAME = "z3-4.8.12-cli"


class _Named:
    def __init__(self, name):
        self.name = name
        self.methods = {}
        self.bases = []


def spec_block(ex, st, stmts, decide=None):
    """total, merging evaluation of a spec function body -> V"""
    for idx, s in enumerate(stmts):
        if isinstance(s, ast.Expr) and isinstance(s.value, ast.Constant):
            continue
        if isinstance(s, ast.Return):
            return ex.one(st, s.value)
        if isinstance(s, ast.Assign):
            v = ex.one(st, s.value)
            res = list(ex.store(st, s.targets[0], v))
            if len(res) != 1 or res[0][1] is not None:
                raise Unsupported("spec assignment")
            continue
        if isinstance(s, ast.If):
            c = S.truthy(ex.one(st, s.test))
            rest = stmts[idx + 1:]
            cs = z3.simplify(c)
            known = True if z3.is_true(cs) else (False if z3.is_false(cs) else None)
            if known is None and decide is not None:
                known = decide(cs)
            if known is True:
                return spec_block(ex, st, list(s.body) + rest, decide)
            if known is False:
                return spec_block(ex, st, list(s.orelse) + rest, decide)
            st_a = st.fork()
            st_b = st.fork()
            a = spec_block(ex, st_a, list(s.body) + rest, decide)
            b = spec_block(ex, st_b, list(s.orelse) + rest, decide)
            # facts gathered in either branch (pyeq axioms) are unconditional truths
            for extra in st_a.path[len(st.path):] + st_b.path[len(st.path):]:
                st.path.append(extra)
            return ex.ite(c, a, b)
        if isinstance(s, ast.Assert):
            continue
        raise Unsupported(f"spec statement {type(s).__name__}")
    raise Unsupported("spec function falls off the end")
