"""Trusted functional model of file-like objects (DESIGN.md 2.3).

Stream(data: bytes, pos: int, eof_hit: bool, seekable: bool, readable: bool)
with 0 <= pos <= len(data).  Cross-checked against io.BytesIO by `vcheck axioms`.
"""
import z3

from . import sorts as S
from .sorts import V, Ref, Const, Py, box


def _U(msg):
    from .engine import Unsupported
    return Unsupported(msg)


def _R(exc, site=""):
    from .engine import Raise
    return Raise(exc, site)


def new_memory_stream(ex, st, name, args):
    text = name == "StringIO"
    if args:
        init = ex.narrow(st, args[0])
        if init.ty != ("str" if text else "bytes"):
            raise _U("stream initial value type")
        data = init
    else:
        data = S.mk_str("") if text else S.mk_bytes(b"")
    ref = st.alloc("TextStream" if text else "Stream", {
        "data": data, "pos": S.mk_int(0), "rem": data, "eof_hit": S.mk_bool(False),
        "seekable": S.mk_bool(True), "readable": S.mk_bool(True), "writable": S.mk_bool(True),
    })
    yield st, ref


def invariant(st, ref):
    """object invariant of a model stream: pos >= 0 and the ghost `rem` (what is still to
    be read, data[pos:]) has the matching length"""
    obj = st.heap[ref.oid]
    if "pos" in obj and "data" in obj and isinstance(obj["pos"], V):
        st.assume(obj["pos"].t >= 0)
        if "rem" in obj:
            n = z3.Length(obj["data"].t)
            st.assume(z3.Length(obj["rem"].t) == z3.If(n - obj["pos"].t > 0, n - obj["pos"].t, z3.IntVal(0)))


def _suffix(text, data, pos):
    n = z3.Length(data)
    ln = z3.If(n - pos > 0, n - pos, z3.IntVal(0))
    return S.simp((z3.SubString if text else z3.Extract)(data, pos, ln))


def call(ex, st, ref, name, args, kwargs, node):
    obj = st.heap[ref.oid]
    text = ref.cls == "TextStream"
    dty = "str" if text else "bytes"
    data, pos = obj["data"], obj["pos"]
    n = z3.Length(data.t)
    if name == "write":
        b = ex.narrow(st, args[0])
        if b.ty == "py":
            rec = Py.is_str(b.t) if text else Py.is_bytes(b.t)
            for st1, r in ex.need(st, rec, "TypeError", "stream.write"):
                if r is not None:
                    yield st1, r
                else:
                    yield from call(ex, st1, ref, name, [S.unbox(b.t, dty)], kwargs, node)
            return
        if b.ty != dty:
            if ex.total:
                raise _U("stream.write type")
            yield st, _R("TypeError", "stream.write")
            return
        lb = z3.Length(b.t)
        sub = z3.SubString if text else z3.Extract
        # overwrite at pos, extending the data when needed (pos <= len(data) is invariant)
        tail_start = pos.t + lb
        new = z3.Concat(sub(data.t, z3.IntVal(0), pos.t), b.t,
                        sub(data.t, tail_start, z3.If(n - tail_start > 0, n - tail_start, z3.IntVal(0))))
        # common case: append position -- give the solver the simple form
        if text:
            new = z3.If(pos.t == n, z3.Concat(data.t, b.t), new)
        else:
            pad = ex.eng.spec_apply("spec.core", "zeros", [V("int", pos.t - n)]).t
            new = z3.If(pos.t == n, z3.Concat(data.t, b.t),
                        z3.If(pos.t < n, new, z3.Concat(data.t, pad, b.t)))
        newd = S.simp(new)
        newp = S.simp(pos.t + lb)
        st.heap[ref.oid]["data"] = V(dty, newd)
        st.heap[ref.oid]["pos"] = V("int", newp)
        if "rem" in obj:
            emp = z3.StringVal("") if text else z3.Empty(S.SeqI)
            st.heap[ref.oid]["rem"] = V(dty, S.simp(z3.If(pos.t >= n, emp, _suffix(text, newd, newp))))
        yield st, V("int", lb)
        return
    if name == "read":
        if args and not (isinstance(args[0], V) and args[0].ty == "none"):
            k = ex.as_int(ex.narrow(st, args[0]))
        else:
            k = z3.IntVal(-1)
        sub = z3.SubString if text else z3.Extract
        if "rem" in obj:
            rem = obj["rem"].t
            avail = z3.Length(rem)
            ln = S.simp(z3.If(k < 0, avail, z3.If(k < avail, k, avail)))
            out = S.simp(sub(rem, z3.IntVal(0), ln))
            st.heap[ref.oid]["rem"] = V(dty, S.simp(sub(rem, ln, avail - ln)))
        else:
            avail = z3.If(n - pos.t > 0, n - pos.t, z3.IntVal(0))
            ln = S.simp(z3.If(k < 0, avail, z3.If(k < avail, k, avail)))
            out = sub(data.t, pos.t, ln)
        st.heap[ref.oid]["pos"] = V("int", S.simp(pos.t + ln))
        if "eof_hit" in obj:
            st.heap[ref.oid]["eof_hit"] = V("bool", S.simp(z3.Or(obj["eof_hit"].t, z3.And(k >= 0, ln < k))))
        res = V(dty, out)
        # facts that help the sequence solver
        st.assume(z3.Length(out) == ln)
        yield st, res
        return
    if name == "tell":
        yield st, pos
        return
    if name == "getvalue":
        yield st, data
        return
    if name == "flush":
        yield st, S.none()
        return
    if name == "close":
        yield st, S.none()
        return
    if name in ("seekable", "readable"):
        yield st, obj[name]
        return
    if name == "seek":
        off = ex.as_int(ex.narrow(st, args[0]))
        wh = z3.IntVal(0)
        if len(args) > 1:
            wh = ex.as_int(ex.narrow(st, args[1]))
        newpos = z3.If(wh == 0, off, z3.If(wh == 1, pos.t + off, n + off))
        newpos = S.simp(newpos)
        # negative positions are outside the model (BytesIO raises ValueError)
        ex.eng.obligation(ex, st, "model.seek_nonneg", newpos >= 0, "model", node)
        st.heap[ref.oid]["pos"] = V("int", newpos)
        if "rem" in obj:
            st.heap[ref.oid]["rem"] = V(dty, _suffix(text, data.t, newpos))
        yield st, V("int", newpos)
        return
    if name == "truncate":
        if args and not (isinstance(args[0], V) and args[0].ty == "none"):
            k = ex.as_int(ex.narrow(st, args[0]))
        else:
            k = pos.t
        ex.eng.obligation(ex, st, "model.truncate_in_range", z3.And(k >= 0, k <= n), "model", node)
        sub = z3.SubString if text else z3.Extract
        newd = S.simp(sub(data.t, z3.IntVal(0), k))
        st.heap[ref.oid]["data"] = V(dty, newd)
        if "rem" in obj:
            st.heap[ref.oid]["rem"] = V(dty, _suffix(text, newd, pos.t))
        # BytesIO.truncate leaves the position where it is (possibly beyond the new end;
        # a later write then pads with zero bytes, as modelled in `write`)
        yield st, V("int", k)
        return
    raise _U(f"stream.{name}")
