"""SMT sorts and the symbolic value layer of pyvc.

One universal datatype `Py` for dynamically typed values (DESIGN.md 2.3), plus
*typed views*: the executor keeps a host-level type tag next to each term so that
statically typed code (`int` arithmetic, `bytes` concatenation) is translated over
the native SMT sorts (Int, Seq Int, String, Seq Py) and only boxed into `Py` when
stored into containers or handed to code of unknown type.
"""
import z3

I = z3.IntSort()
B = z3.BoolSort()
Str = z3.StringSort()
SeqI = z3.SeqSort(I)

_Py = z3.Datatype("Py")
_fwd = z3.DatatypeSort("Py")
_SeqPyF = z3.SeqSort(_fwd)
_Py.declare("none")
_Py.declare("bool", ("b", B))
_Py.declare("int", ("i", I))
_Py.declare("float", ("fbits", I))  # IEEE-754 binary64 bit pattern as 0..2^64-1
_Py.declare("str", ("s", Str))
_Py.declare("bytes", ("bs", SeqI))
_Py.declare("list", ("items", _SeqPyF))
_Py.declare("tuple", ("titems", _SeqPyF))
_Py.declare("dict", ("keys", _SeqPyF), ("vals", _SeqPyF))
_Py.declare("set", ("elems", _SeqPyF))
_Py.declare("obj", ("cls", I), ("oid", I))  # opaque external objects
Py = _Py.create()
SeqPy = z3.SeqSort(Py)

NATIVE = {  # type tag -> (constructor, accessor, sort)
    "bool": (Py.bool, Py.b, B),
    "int": (Py.int, Py.i, I),
    "float": (Py.float, Py.fbits, I),
    "str": (Py.str, Py.s, Str),
    "bytes": (Py.bytes, Py.bs, SeqI),
    "list": (Py.list, Py.items, SeqPy),
    "tuple": (Py.tuple, Py.titems, SeqPy),
    "set": (Py.set, Py.elems, SeqPy),
}
RECOG = {
    "none": Py.is_none, "bool": Py.is_bool, "int": Py.is_int, "float": Py.is_float,
    "str": Py.is_str, "bytes": Py.is_bytes, "list": Py.is_list, "tuple": Py.is_tuple,
    "dict": Py.is_dict, "set": Py.is_set, "obj": Py.is_obj,
}
# tags whose native term is the boxed Py term itself
BOXED_TAGS = ("py", "dict", "none", "obj")
BV64 = z3.BitVecSort(64)


def bv_to_int_term(t):
    return z3.BV2Int(t, False)


def to_bv64(v):
    """V(int|bool|bv64) -> 64-bit vector term.  Concrete ints are reduced mod 2^64; a byte
    (element of a bytes value, 0..255 by the type invariant of bytes) is zero-extended from
    8 bits so that the solver sees its width."""
    if v.ty == "bv64":
        return v.t
    if v.ty == "bool":
        return z3.If(v.t, z3.BitVecVal(1, 64), z3.BitVecVal(0, 64))
    if v.ty == "py":
        t = Py.i(v.t)
    else:
        t = v.t
    ts = z3.simplify(t) if not _has_nth(t) else t
    if z3.is_int_value(ts):
        return z3.BitVecVal(ts.as_long() % (1 << 64), 64)
    if z3.is_app(t) and t.decl().kind() == z3.Z3_OP_SEQ_NTH and t.arg(0).sort() == SeqI:
        return z3.ZeroExt(56, z3.Int2BV(t, 8))
    if z3.is_app(t) and t.decl().kind() == z3.Z3_OP_BV2INT:
        return t.arg(0)
    return z3.Int2BV(t, 64)


class V:
    """A symbolic value: type tag + term.

    ty in bool/int/float/str/bytes/list/tuple/set: `t` has the native sort.
    ty in dict/none/obj/py: `t` is a Py term (for dict/none/obj of known kind).
    """
    __slots__ = ("ty", "t")

    def __init__(self, ty, t):
        self.ty = ty
        self.t = t

    def __repr__(self):
        return f"V<{self.ty}:{self.t}>"


class Ref:
    """Reference to a heap object of a repo class / model stream (host-level identity)."""
    __slots__ = ("oid", "cls")

    def __init__(self, oid, cls):
        self.oid = oid
        self.cls = cls

    def __repr__(self):
        return f"Ref<{self.cls}#{self.oid}>"


class Const:
    """A concrete host-level value that is not data: function refs, classes,
    modules, dispatch tables, bound methods, exception classes."""
    __slots__ = ("kind", "val")

    def __init__(self, kind, val):
        self.kind = kind
        self.val = val

    def __repr__(self):
        return f"Const<{self.kind}:{self.val}>"


def _is_app_of(t, decl):
    return z3.is_app(t) and t.decl().eq(decl)


def box(v):
    """V -> Py term"""
    if not isinstance(v, V):
        raise TypeError(f"cannot box {v!r}")
    if v.ty == "bv64":
        return Py.int(bv_to_int_term(v.t))
    if v.ty in BOXED_TAGS:
        return v.t
    con, acc, _ = NATIVE[v.ty]
    t = v.t
    # acc(x) boxed back gives x only if x is of that kind; keep it syntactically simple
    return con(t)


def unbox(t, ty):
    """Py term -> V of tag ty (caller guarantees kind)."""
    if ty in BOXED_TAGS:
        return V(ty, t)
    con, acc, _ = NATIVE[ty]
    if _is_app_of(t, con):
        return V(ty, t.arg(0))
    return V(ty, acc(t))


def none():
    return V("none", Py.none)


def mk_int(n):
    return V("int", z3.IntVal(n))


def mk_bool(b):
    return V("bool", z3.BoolVal(b))


def mk_str(s):
    return V("str", z3.StringVal(s))


def mk_bytes(bs):
    if len(bs) == 0:
        return V("bytes", z3.Empty(SeqI))
    units = [z3.Unit(z3.IntVal(b)) for b in bs]
    return V("bytes", units[0] if len(units) == 1 else z3.Concat(*units))


def seq_of(terms, sort):
    """sequence of the given element terms; `sort` is the element sort"""
    if not terms:
        return z3.Empty(z3.SeqSort(sort))
    units = [z3.Unit(t) for t in terms]
    return units[0] if len(units) == 1 else z3.Concat(*units)


def lift(pyval):
    """Concrete Python data value -> V (used for module constants and literals)."""
    if pyval is None:
        return none()
    if isinstance(pyval, bool):
        return mk_bool(pyval)
    if isinstance(pyval, int):
        return mk_int(pyval)
    if isinstance(pyval, str):
        return mk_str(pyval)
    if isinstance(pyval, (bytes, bytearray)):
        return mk_bytes(bytes(pyval))
    if isinstance(pyval, float):
        import struct
        return V("float", z3.IntVal(int.from_bytes(struct.pack("<d", pyval), "little")))
    if isinstance(pyval, list):
        return V("list", seq_of([box(lift(x)) for x in pyval], Py))
    if isinstance(pyval, tuple):
        return V("tuple", seq_of([box(lift(x)) for x in pyval], Py))
    if isinstance(pyval, (set, frozenset)):
        return V("set", seq_of([box(lift(x)) for x in sorted(pyval, key=repr)], Py))
    if isinstance(pyval, dict):
        ks = [box(lift(k)) for k in pyval.keys()]
        vs = [box(lift(x)) for x in pyval.values()]
        return V("dict", Py.dict(seq_of(ks, Py), seq_of(vs, Py)))
    raise TypeError(f"cannot lift {type(pyval)}")


# ---- dict helpers: insertion-ordered association list with distinct keys ----

def dkeys(d):
    return d.arg(0) if _is_app_of(d, Py.dict) else Py.keys(d)


def dvals(d):
    return d.arg(1) if _is_app_of(d, Py.dict) else Py.vals(d)


def dict_has(d, k):
    return DHAS(d, k)


def dict_index(d, k):
    return z3.IndexOf(dkeys(d), z3.Unit(k), z3.IntVal(0))


def dict_get(d, k):
    """value stored under k (unspecified when absent)"""
    return DGET(d, k)


_DSET_ORIGIN = {}      # id of a dict_set result -> (result term, d, k): lets a second store to the same key collapse


def dict_set(d, k, v):
    """d[k] = v : overwrite in place when present, append otherwise"""
    o = _DSET_ORIGIN.get(d.get_id())
    if o is not None and o[0].eq(d) and o[2].eq(k):
        # (d0[k] = x; d0[k] = v) is d0[k] = v: the key keeps the position the first store gave it
        return dict_set(o[1], k, v)
    r = _dict_set(d, k, v)
    _DSET_ORIGIN[r.get_id()] = (r, d, k)
    return r


def _dict_set(d, k, v):
    ks, vs = dkeys(d), dvals(d)
    idx = dict_index(d, k)
    n = z3.Length(vs)
    upd = z3.Concat(z3.Extract(vs, z3.IntVal(0), idx), z3.Unit(v),
                    z3.Extract(vs, idx + 1, n - idx - 1))
    has = dict_has(d, k)
    return Py.dict(z3.If(has, ks, z3.Concat(ks, z3.Unit(k))),
                   z3.If(has, upd, z3.Concat(vs, z3.Unit(v))))


def dict_wf(d):
    """len(keys)==len(vals); distinctness of keys is stated separately where needed"""
    return z3.Length(dkeys(d)) == z3.Length(dvals(d))


def truthy(v):
    """Python truthiness of a V as a z3 Bool."""
    if isinstance(v, (Ref, Const)):
        return z3.BoolVal(True)
    ty, t = v.ty, v.t
    if ty == "bool":
        return t
    if ty == "int":
        return t != 0
    if ty == "none":
        return z3.BoolVal(False)
    if ty in ("str", "bytes", "list", "tuple", "set"):
        return z3.Length(t) > 0
    if ty == "dict":
        return z3.Length(dkeys(t)) > 0
    if ty == "bv64":
        return t != z3.BitVecVal(0, 64)
    if ty == "float":
        # +0.0 and -0.0 are falsy
        return z3.And(t != 0, t != 2 ** 63)
    if ty == "obj":
        return z3.BoolVal(True)
    if ty == "py":
        return TRUTHY(t)
    raise TypeError(ty)


def _truthy_body(t):
    return z3.If(Py.is_none(t), False,
           z3.If(Py.is_bool(t), Py.b(t),
           z3.If(Py.is_int(t), Py.i(t) != 0,
           z3.If(Py.is_str(t), z3.Length(Py.s(t)) > 0,
           z3.If(Py.is_bytes(t), z3.Length(Py.bs(t)) > 0,
           z3.If(Py.is_list(t), z3.Length(Py.items(t)) > 0,
           z3.If(Py.is_tuple(t), z3.Length(Py.titems(t)) > 0,
           z3.If(Py.is_dict(t), z3.Length(Py.keys(t)) > 0,
           z3.If(Py.is_set(t), z3.Length(Py.elems(t)) > 0,
           z3.If(Py.is_float(t), z3.And(Py.fbits(t) != 0, Py.fbits(t) != 2 ** 63),
                 True))))))))))


# defined (non-recursive) helper functions: unfolded lazily by the solver, which keeps
# VC terms small.  Exported to SMT-LIB as define-fun.
_x = z3.Const("x!def", Py)
TRUTHY = z3.RecFunction("py.truthy", Py, B)
z3.RecAddDefinition(TRUTHY, [_x], _truthy_body(_x))

_k = z3.Const("k!def", Py)
DHAS = z3.RecFunction("py.has", Py, Py, B)
z3.RecAddDefinition(DHAS, [_x, _k], z3.Contains(Py.keys(_x), z3.Unit(_k)))
DGET = z3.RecFunction("py.get", Py, Py, Py)
z3.RecAddDefinition(DGET, [_x, _k], Py.vals(_x)[z3.IndexOf(Py.keys(_x), z3.Unit(_k), z3.IntVal(0))])

PYLEN = z3.RecFunction("py.len", Py, I)
z3.RecAddDefinition(PYLEN, [_x],
    z3.If(Py.is_str(_x), z3.Length(Py.s(_x)),
    z3.If(Py.is_bytes(_x), z3.Length(Py.bs(_x)),
    z3.If(Py.is_list(_x), z3.Length(Py.items(_x)),
    z3.If(Py.is_tuple(_x), z3.Length(Py.titems(_x)),
    z3.If(Py.is_dict(_x), z3.Length(Py.keys(_x)), z3.Length(Py.elems(_x))))))))

# the items of a bytes value as Python ints: uninterpreted, characterised on demand by
# len(BYTES_ITEMS(b)) == len(b) and BYTES_ITEMS(b)[i] == int(b[i]) (see Engine.length_bounds)
BYTES_ITEMS = z3.Function("py.bytes_items", SeqI, SeqPy)

PYITEMS = z3.RecFunction("py.items", Py, SeqPy)
z3.RecAddDefinition(PYITEMS, [_x],
    z3.If(Py.is_list(_x), Py.items(_x), z3.If(Py.is_tuple(_x), Py.titems(_x),
    z3.If(Py.is_dict(_x), Py.keys(_x), z3.If(Py.is_bytes(_x), BYTES_ITEMS(Py.bs(_x)), Py.elems(_x))))))


def fresh(name, ty, _n=[0]):
    _n[0] += 1
    nm = f"{name}!{_n[0]}"
    if ty in BOXED_TAGS:
        return V(ty, z3.Const(nm, Py))
    if ty == "bv64":
        return V(ty, z3.Const(nm, BV64))
    return V(ty, z3.Const(nm, NATIVE[ty][2]))


def kind_constraint(v):
    """For boxed tags with a known kind: the recogniser fact."""
    if v.ty == "dict":
        return z3.And(Py.is_dict(v.t), dict_wf(v.t))
    if v.ty == "none":
        return v.t == Py.none
    if v.ty == "obj":
        return Py.is_obj(v.t)
    return None


def _has_nth(t, seen=None):
    seen = set() if seen is None else seen
    stack = [t]
    while stack:
        x = stack.pop()
        i = x.get_id()
        if i in seen:
            continue
        seen.add(i)
        if z3.is_app(x):
            if x.decl().kind() in (z3.Z3_OP_SEQ_NTH, z3.Z3_OP_SEQ_AT):
                return True
            stack.extend(x.children())
    return False


def simp(t):
    """z3.simplify, except on terms containing Nth/At: the simplifier rewrites those into
    its internal total/partial split (seq.nth_i / seq.nth_u), which makes terms that are
    equal no longer syntactically equal and slows the sequence solver down."""
    if _has_nth(t):
        return t
    return z3.simplify(t)
