"""External (standard-library / third-party) functions: assumed contracts.

struct.pack/unpack are modelled here directly (format-dependent); everything
else goes through `@external` contracts in /verif/contracts/externals.py.  All of
them are part of the trusted base listed in evidence and are cross-checked
against the real functions by `vcheck axioms`.
"""
import z3

from . import sorts as S
from .sorts import V, Ref, Const, Py, box


def _U(msg):
    from .engine import Unsupported
    return Unsupported(msg)


def _R(exc, site=""):
    from .engine import Raise
    return Raise(exc, site)


def _byte(x, k):
    return x % 256 if k == 0 else (x / (256 ** k)) % 256


def le_bytes(x, n):
    return S.seq_of([_byte(x, k) for k in range(n)], S.I)


def be_bytes(x, n):
    return S.seq_of([_byte(x, k) for k in reversed(range(n))], S.I)


def le_value(seq, n):
    out = seq[z3.IntVal(0)]
    for k in range(1, n):
        out = out + seq[z3.IntVal(k)] * (256 ** k)
    return out


def call(ex, st, name, args, kwargs, node):
    eng = ex.eng
    eng.used_externals.add(name)
    if name == "struct.pack":
        fmt = z3.simplify(args[0].t)
        if not z3.is_string_value(fmt):
            raise _U("pack format symbolic")
        f = fmt.as_string()
        v = ex.narrow(st, args[1])
        if f == "B":
            if v.ty == "py":
                for st1, r in ex.need(st, Py.is_int(v.t), "struct.error", "pack"):
                    if r is not None:
                        yield st1, r
                    else:
                        yield from call(ex, st1, name, [args[0], V("int", Py.i(v.t))], kwargs, node)
                return
            x = ex.as_int(v)
            for st1, r in ex.need(st, z3.And(x >= 0, x <= 255), "struct.error", "pack(B)"):
                yield st1, (r if r is not None else V("bytes", z3.Unit(x)))
            return
        if f in (">I", "<I"):
            x = ex.as_int(v)
            for st1, r in ex.need(st, z3.And(x >= 0, x < 2 ** 32), "struct.error", "pack(I)"):
                yield st1, (r if r is not None else V("bytes", be_bytes(x, 4) if f[0] == ">" else le_bytes(x, 4)))
            return
        if f in ("<d", ">d", "<f", ">f"):
            # argument: float, or int/bool converted (OverflowError if too large)
            if v.ty == "py":
                ok = z3.Or(Py.is_float(v.t), Py.is_int(v.t), Py.is_bool(v.t))
                for st1, r in ex.need(st, ok, "struct.error", "pack(float)"):
                    if r is not None:
                        yield st1, r
                        continue
                    a, b = ex.split(st1, Py.is_float(v.t))
                    if a is not None:
                        yield from call(ex, a, name, [args[0], V("float", Py.fbits(v.t))], kwargs, node)
                    if b is not None:
                        iv = z3.If(Py.is_int(v.t), Py.i(v.t), z3.If(Py.b(v.t), z3.IntVal(1), z3.IntVal(0)))
                        yield from call(ex, b, name, [args[0], V("int", iv)], kwargs, node)
                return
            if v.ty in ("int", "bool"):
                x = ex.as_int(v)
                for st1, r in ex.need(st, eng.fop_bool("int_fits_double", x), "OverflowError", "pack(int->float)"):
                    if r is not None:
                        yield st1, r
                    else:
                        yield from call(ex, st1, name, [args[0], V("float", eng.fop("of_int", x))], kwargs, node)
                return
            if v.ty != "float":
                if ex.total:
                    raise _U("pack(float) arg")
                yield st, _R("struct.error", "pack(float)")
                return
            bits = v.t
            st.assume(z3.And(bits >= 0, bits < 2 ** 64))
            if f[1] == "d":
                yield st, V("bytes", le_bytes(bits, 8) if f[0] == "<" else be_bytes(bits, 8))
            else:
                for st1, r in ex.need(st, eng.fop_bool("fits_single", bits), "OverflowError", "pack(f)"):
                    if r is not None:
                        yield st1, r
                        continue
                    b32 = eng.fop("to_single", bits)
                    st1.assume(z3.And(b32 >= 0, b32 < 2 ** 32))
                    yield st1, V("bytes", le_bytes(b32, 4) if f[0] == "<" else be_bytes(b32, 4))
            return
        raise _U(f"pack format {f}")
    if name == "struct.unpack":
        fmt = z3.simplify(args[0].t)
        if not z3.is_string_value(fmt):
            raise _U("unpack format symbolic")
        f = fmt.as_string()
        b = ex.narrow(st, args[1])
        if b.ty != "bytes":
            raise _U("unpack arg")
        size = {"B": 1, "<f": 4, "<d": 8, ">f": 4, ">d": 8, ">I": 4}.get(f)
        if size is None:
            raise _U(f"unpack format {f}")
        for st1, r in ex.need(st, z3.Length(b.t) == size, "struct.error", "unpack"):
            if r is not None:
                yield st1, r
                continue
            if f == "B":
                val = V("int", b.t[z3.IntVal(0)])
            elif f == "<d":
                val = V("float", eng.spec_apply("spec.core", "le_value", [b]).t)
            elif f == "<f":
                val = V("float", eng.fop("of_single", eng.spec_apply("spec.core", "le_value", [b]).t))
            elif f in (">d", ">f"):
                # big-endian: the value of the reversed string (no identity needed so far)
                seq = b.t
                n = 8 if f[1] == "d" else 4
                bits = sum_be(seq, n)
                val = V("float", bits if n == 8 else eng.fop("of_single", bits))
            else:
                val = V("int", sum_be(b.t, 4))
            yield st1, V("tuple", z3.Unit(box(val)))
        return
    if name == "hashlib.new":
        # opaque digest object; only .hexdigest() is modelled (assumed external, cross-checked)
        data = ex.narrow(st, args[1]) if len(args) > 1 else S.mk_bytes(b"")
        yield st, Const("hashobj", (ex.narrow(st, args[0]), data))
        return
    if name == "zlib.decompressobj":
        # opaque decompression object; only raw inflate (wbits == -15) and its .decompress are modelled
        w = z3.simplify(ex.as_int(ex.narrow(st, args[0]))) if args else None
        if w is None or not z3.is_int_value(w) or w.as_long() != -15:
            raise _U("zlib.decompressobj with wbits other than -15")
        yield st, Const("inflateobj", -15)
        return
    c = eng.contracts.get_external(name, ex.fr.behavior)
    if c is not None:
        from . import callcontract
        params = c.params or []
        bound = {}
        for p, a in zip(params, args):
            bound[p] = a
        for k, v in kwargs.items():
            bound[k] = v
        for p in params:
            if p not in bound:
                bound[p] = S.none()
        fi = _ExtInfo(name)
        yield from callcontract.apply(ex, st, c, fi, bound, node)
        return
    raise _U(f"external {name}")


def sum_be(seq, n):
    out = seq[z3.IntVal(n - 1)]
    for k in range(1, n):
        out = out + seq[z3.IntVal(n - 1 - k)] * (256 ** k)
    return out


class _ExtInfo:
    def __init__(self, name):
        self.qualname = name
        self.module = "<external>"
        self.node = None
