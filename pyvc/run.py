"""Per-function verification driver."""
import ast
import time
import traceback
import z3

from . import sorts as S
from .sorts import V, Ref, Const, Py, box
from .engine import (Exec, State, Frame, Obligation, Raise, Unsupported, NEXT, RET, RAISE, BRK, CONT)
from . import callcontract


class FnResult:
    def __init__(self, contract):
        self.contract = contract
        self.key = contract.key
        self.obligations = []
        self.unsupported = None
        self.anchor_missing = False
        self.error = None
        self.source_hash = None
        self.inlined = []
        self.covers = []       # (name, ok)
        self.paths = 0
        self.gen_time = 0.0
        self.solve_time = 0.0

    def summary(self):
        return {
            "function": f"{self.contract.module}:{self.contract.qualname}",
            "behavior": self.contract.behavior,
            "source_hash": self.source_hash,
            "obligations": [(o.name, o.verdict, round(o.time, 3), o.backend) for o in self.obligations],
            "unsupported": self.unsupported,
            "anchor_missing": self.anchor_missing,
            "error": self.error,
            "inlined": sorted(f"{m}:{q}" for m, q in self.inlined),
            "covers": self.covers,
            "paths": self.paths,
            "gen_time": round(self.gen_time, 3),
            "solve_time": round(self.solve_time, 3),
        }


def setup_state(eng, c, fi):
    st = State()
    frame = {}
    a = fi.node.args
    params = [p.arg for p in a.posonlyargs + a.args + a.kwonlyargs]
    for p in params:
        ty = c.types.get(p, "py")
        frame[p] = eng.alloc_shape(st, ty, p)
    for g, ty in c.ghosts.items():
        frame[g] = eng.alloc_shape(st, ty, g)
    st.frames = [frame]
    return st, params


def reachable_oids(st, v, acc):
    if isinstance(v, Ref) and v.oid not in acc:
        acc.add(v.oid)
        for f, x in st.heap[v.oid].items():
            reachable_oids(st, x, acc)


def modifiable_oids(st, c, frame):
    out = set()
    for path in c.modifies:
        try:
            loc, cur = callcontract.resolve_path(st, frame, path)
        except Unsupported:
            continue
        if isinstance(cur, Ref):
            reachable_oids(st, cur, out)
        elif loc[0] == "heap":
            out.add(loc[1])
    return out


def generate_lemma(eng, c):
    """verify a lemma: its body is ghost code in the contract language"""
    res = FnResult(c)
    t0 = time.time()
    fr = Frame(eng, None, c)
    fr.prefix = f"lemma:{c.qualname}:"
    ex = Exec(eng, fr, total=False, modname=None, specmod=c.specmod)
    try:
        st = State()
        frame = {}
        for p, ty in c.types.items():
            frame[p] = eng.alloc_shape(st, ty, p)
        st.frames = [frame]
        if c.requires is not None:
            st.assume(callcontract.clause(ex, st, c, c.requires, {}))
        res.covers.append(("requires-satisfiable", bool(eng.quick_sat(st.path))))
        if c.decreases is not None:
            fr.entry_measure = callcontract.clause_term(ex, st, c, c.decreases, {})
            eng.obligation(ex, st, "measure-nonneg", fr.entry_measure >= 0, "decreases")
        entry = dict(frame)
        outs = ex.block(st, c.body.body) if c.body is not None else [(st, (NEXT, None))]
        res.paths = len(outs)
        for st1, o in outs:
            if o[0] in (NEXT, RET):
                saved = st1.frames
                st1.frames = [dict(entry)]
                try:
                    if c.ensures is not None:
                        eng.obligation(ex, st1, "post", callcontract.clause(ex, st1, c, c.ensures, {}), "post")
                finally:
                    st1.frames = saved
            elif o[0] == RAISE:
                eng.obligation(ex, st1, f"noexc.{o[1].exc}@{o[1].site}", z3.BoolVal(False), "noexc")
        res.covers.append(("normal-exit-reachable", True))
    except Unsupported as u:
        res.unsupported = str(u)
    except Exception as e:
        res.error = f"{type(e).__name__}: {e}\n{traceback.format_exc()}"
    res.obligations = fr.obligations
    res.gen_time = time.time() - t0
    res.source_hash = "lemma"
    return res


def generate(eng, c):
    """symbolically execute the target of contract `c` -> FnResult with obligations"""
    if c.kind == "lemma":
        return generate_lemma(eng, c)
    res = FnResult(c)
    t0 = time.time()
    fi = eng.repo.func(c.module, c.qualname)
    if fi is None:
        res.anchor_missing = True
        return res
    res.source_hash = fi.source_hash()
    fr = Frame(eng, fi, c)
    beh = "" if c.behavior == "default" else f"[{c.behavior}]"
    fr.prefix = f"{c.module}:{c.qualname}{beh}:"
    ex = Exec(eng, fr, total=False, modname=fi.module)
    try:
        for nm in c.uses_locals:
            if not any(isinstance(n, ast.Name) and n.id == nm for n in ast.walk(fi.node)):
                res.anchor_missing = True
                res.unsupported = f"anchor-missing: local `{nm}` named by the contract no longer exists"
                return res
        st, params = setup_state(eng, c, fi)
        entry_frame = dict(st.frames[0])
        mod_oids = modifiable_oids(st, c, entry_frame)
        fr.readonly_oids = set(st.heap.keys()) - mod_oids
        fr.entry_oids = set(st.heap.keys())
        if c.requires is not None:
            pre = callcontract.clause(ex, st, c, c.requires, {})
            st.assume(pre)
        # vacuity: the precondition must be satisfiable
        ok = eng.quick_sat(st.path)
        res.covers.append(("requires-satisfiable", bool(ok)))
        # lemma instances named by the contract (each lemma is proved in the same run)
        for h in c.hints:
            st.assume(callcontract.clause(ex, st, c, h, {}))
        for k, h in enumerate(getattr(c, "entry_asserts", [])):
            g = callcontract.clause(ex, st, c, h, {})
            eng.obligation(ex, st, f"entry-assert[{k}]", g, "assert")
            st.assume(g)
        old = st.fork()
        st.old = old
        entry_heap = {oid: dict(obj) for oid, obj in st.heap.items()}
        if fi.is_generator():
            st.vars["__yielded__"] = V("list", z3.Empty(S.SeqPy))

            def collect(st1, val):
                cur = st1.lookup("__yielded__")
                if c.yield_view is not None:
                    # objects cannot be list elements in the logic: the contract names the projection of a
                    # yielded object (a tuple of its fields) that the `yielded` ghost records
                    val = callcontract.clause_value(ex, st1, c, c.yield_view, [val])
                # lemma instances the contract names for yield points (`_y` the value, `yielded` the list so far);
                # each lemma is proved in the same run
                for h in getattr(c, "yield_hints", None) or []:
                    try:
                        st1.assume(callcontract.clause(ex, st1, c, h, {"_y": val, "yielded": cur}))
                    except Unsupported:
                        pass
                st1.frames[0]["__yielded__"] = V("list", z3.Concat(cur.t, z3.Unit(box(val))))
                return [(st1, (NEXT, None))]
            fr.yield_handler = collect
        outs = ex.block(st, fi.node.body)
        res.paths = len(outs)
        normal_reachable = False
        for st1, o in outs:
            if o[0] in (NEXT, RET):
                normal_reachable = True
                result = o[1] if o[0] == RET else S.none()
                check_normal(eng, ex, c, st1, old, entry_frame, entry_heap, result, mod_oids, fi)
            elif o[0] == RAISE:
                check_raise(eng, ex, c, st1, old, entry_frame, entry_heap, o[1], mod_oids)
            else:
                raise Unsupported("break/continue at function level")
        res.covers.append(("normal-exit-reachable", normal_reachable))
    except Unsupported as u:
        res.unsupported = str(u)
    except Exception as e:   # engine bug: checker error, never a violation
        res.error = f"{type(e).__name__}: {e}\n{traceback.format_exc()}"
    res.obligations = fr.obligations
    res.inlined = sorted(eng.inlined.get(fr, set()))
    res.gen_time = time.time() - t0
    return res


def post_frame(st, entry_frame, c):
    """names visible to post-state clauses: parameters denote their entry values, except
    in/out data parameters listed in `modifies`, which denote the final value"""
    fv = dict(entry_frame)
    for path in c.modifies:
        if "." not in path and path in st.frames[0]:
            fv[path] = st.frames[0][path]
    return fv


def when_in_old(eng, ex, c, st, old, node):
    s = old.fork()
    s.path = st.path
    s.old = None
    return callcontract.clause(ex, s, c, node, {})


def frame_obligations(eng, ex, c, st, entry_heap, mod_oids):
    for oid, obj0 in entry_heap.items():
        if oid in mod_oids:
            continue
        obj1 = st.heap.get(oid, {})
        for f, v0 in obj0.items():
            if f.startswith("__"):
                continue
            v1 = obj1.get(f)
            if v1 is v0:
                continue
            if isinstance(v0, V) and isinstance(v1, V) and v0.ty == v1.ty:
                if v0.t.eq(v1.t):
                    continue
                eng.obligation(ex, st, f"frame.{obj0.get('__class__')}.{f}", v0.t == v1.t, "frame")
            elif isinstance(v0, Ref) and isinstance(v1, Ref) and v0.oid == v1.oid:
                continue
            else:
                eng.obligation(ex, st, f"frame.{obj0.get('__class__')}.{f}", z3.BoolVal(False), "frame")


def check_normal(eng, ex, c, st, old, entry_frame, entry_heap, result, mod_oids, fi):
    # lemma instances named by the contract for return points (locals and `result` are visible; a hint whose
    # names do not exist on this path is skipped); each lemma is proved in the same run
    for h in getattr(c, "return_hints", []) or []:
        try:
            st.assume(callcontract.clause(ex, st, c, h, {"result": result}))
        except Unsupported:
            pass
    fv = post_frame(st, entry_frame, c)
    fv["result"] = result
    if fi.is_generator():
        fv["yielded"] = st.frames[0].get("__yielded__")
    saved_frames = st.frames
    ex.fr.snap_frames = saved_frames
    st.frames = [{}]
    try:
        goals = []
        if c.ensures is not None:
            goals.append(callcontract.clause(ex, st, c, c.ensures, fv, old=old))
        for rc in c.raises:
            if rc.must and rc.when is not None:
                w = when_in_old(eng, ex, c, st, old, rc.when)
                eng.obligation(ex, st, f"raises({rc.exc}).must", z3.Not(w), "raises-must")
        if goals:
            eng.obligation(ex, st, "post", z3.And(*goals) if len(goals) > 1 else goals[0], "post")
        frame_obligations(eng, ex, c, st, entry_heap, mod_oids)
    finally:
        st.frames = saved_frames
        ex.fr.snap_frames = None


def check_raise(eng, ex, c, st, old, entry_frame, entry_heap, r, mod_oids):
    fv = post_frame(st, entry_frame, c)
    saved_frames = st.frames
    ex.fr.snap_frames = saved_frames
    st.frames = [{}]
    try:
        alts = []
        for rc in c.raises:
            if eng.exc_is(r.exc, rc.exc):
                w = when_in_old(eng, ex, c, st, old, rc.when) if rc.when is not None else z3.BoolVal(True)
                if rc.ensures is not None:
                    e = callcontract.clause(ex, st, c, rc.ensures, fv, old=old)
                    alts.append(z3.And(w, e))
                else:
                    alts.append(w)
        if not alts:
            eng.obligation(ex, st, f"noexc.{r.exc}@{r.site}", z3.BoolVal(False), "noexc")
        else:
            eng.obligation(ex, st, f"raises({r.exc})@{r.site}", z3.Or(*alts) if len(alts) > 1 else alts[0], "raises")
        frame_obligations(eng, ex, c, st, entry_heap, mod_oids)
    finally:
        st.frames = saved_frames
        ex.fr.snap_frames = None


def apply_case_splits(eng, c, res):
    """split an obligation into one sub-obligation per value of a small-range term
    (exhaustive: the cases 0..n-1 plus 'outside the range'); keeps each query small"""
    if not c.case_split:
        return
    from . import sorts as S
    out = []
    for o in res.obligations:
        spec = None
        for suffix, sp in c.case_split.items():
            if o.name.endswith(suffix):
                spec = sp
        if spec is None or getattr(o, "state", None) is None:
            out.append(o)
            continue
        src, n = spec
        node = ast.parse(src, mode="eval").body
        ex = Exec(eng, Frame(eng, None, c), total=True, specmod=c.specmod)
        v = ex.one(o.state, node)
        if v.ty == "bv64":
            cases = [(v.t == z3.BitVecVal(k, 64)) for k in range(n)]
            rest = z3.UGE(v.t, z3.BitVecVal(n, 64))
        else:
            t = ex.as_int(v)
            cases = [(t == k) for k in range(n)]
            rest = z3.Or(t < 0, t >= n)
        for k, cond in enumerate(cases + [rest]):
            so = Obligation(f"{o.name}[case {k if k < n else 'other'}]", list(o.hyps) + [cond], o.goal, o.kind, o.lineno)
            so.fuel = o.fuel
            so.state = o.state
            out.append(so)
    res.obligations = out


def solve_all(eng, res, timeout_ms=10000):
    t0 = time.time()
    for o in res.obligations:
        try:
            eng.discharge(o, timeout_ms=o_timeout(res, timeout_ms))
        except Unsupported as u:
            o.verdict = "unsupported"
            o.reason = str(u)
        except z3.Z3Exception as e:
            o.verdict = "unknown"
            o.reason = f"z3: {e}"
    res.solve_time = time.time() - t0
    return res


def o_timeout(res, default):
    return (res.contract.timeout * 1000) if res.contract.timeout else default


# ------------------------------------------------------------- parallel solving
import os
import pickle
import select
import signal


def _child_solve(eng, o, timeout_ms, wfd):
    out = {"verdict": "unknown", "time": 0.0, "reason": "", "backend": "z3", "model": None, "fuel_used": None}
    try:
        eng.discharge(o, timeout_ms=timeout_ms)
        out["verdict"] = o.verdict
        out["backend"] = o.backend or "z3"
        out["time"] = o.time
        out["reason"] = getattr(o, "reason", "")
        out["fuel_used"] = getattr(o, "fuel_used", None)
        if o.model is not None:
            try:
                from . import replay
                out["model"] = replay.model_summary(o.model)
            except Exception as e:   # never let model printing break a verdict
                out["model"] = {"__error__": str(e)}
        out["axioms"] = sorted(eng.used_axioms)
        out["assumptions"] = sorted(eng.assumptions_used)
    except Unsupported as u:
        out["verdict"] = "unsupported"
        out["reason"] = str(u)
    except z3.Z3Exception as e:
        out["verdict"] = "unknown"
        out["reason"] = f"z3: {e}"
    except Exception as e:
        out["verdict"] = "error"
        out["reason"] = f"{type(e).__name__}: {e}\n{traceback.format_exc()}"
    try:
        os.write(wfd, pickle.dumps(out))
    finally:
        os._exit(0)


def solve_parallel(eng, results, jobs=12, timeout_ms=10000, hard_factor=5.0, progress=None, sem=None):
    """discharge all obligations of all FnResults in forked children (z3 terms are not
    picklable, fork shares them); a hard wall-clock limit per obligation backs up the
    solver's own timeout, which the sequence solver does not always honour."""
    queue = []
    for res in results:
        for o in res.obligations:
            queue.append((res, o))
    running = {}   # pid -> (res, o, rfd, start, limit)
    t0 = time.time()
    idx = 0
    done = 0
    while idx < len(queue) or running:
        while idx < len(queue) and len(running) < jobs:
            if sem is not None and not sem.acquire(block=False):
                break       # global solver-slot budget exhausted: wait for a slot
            res, o = queue[idx]
            idx += 1
            tmo = o_timeout(res, timeout_ms)
            rfd, wfd = os.pipe()
            pid = os.fork()
            if pid == 0:
                os.close(rfd)
                _child_solve(eng, o, tmo, wfd)
            os.close(wfd)
            fuel = (o.fuel or 3) + 1
            running[pid] = (res, o, rfd, time.time(), tmo / 1000.0 * fuel * hard_factor + 10)
        # wait for something to finish
        fds = [v[2] for v in running.values()]
        ready, _, _ = select.select(fds, [], [], 0.2)
        now = time.time()
        for pid, (res, o, rfd, start, limit) in list(running.items()):
            finished = rfd in ready
            if finished:
                data = b""
                while True:
                    chunk = os.read(rfd, 1 << 16)
                    if not chunk:
                        break
                    data += chunk
                os.close(rfd)
                os.waitpid(pid, 0)
                del running[pid]
                if sem is not None:
                    sem.release()
                try:
                    out = pickle.loads(data)
                except Exception:
                    if not getattr(o, "_retried", False):
                        o._retried = True
                        o.safe_mode = True         # the in-process z3 crashed (segfault): retry once with the
                        o.use_cli = True           # stand-alone z3 binary on the SMT-LIB export
                        queue.append((res, o))
                        continue
                    out = {"verdict": "unknown", "time": now - start, "reason": "solver child died twice", "backend": "z3", "model": None}
                o.verdict = out["verdict"]
                o.time = out["time"]
                o.reason = out.get("reason", "")
                o.backend = out.get("backend", "z3")
                o.model_summary = out.get("model")
                o.fuel_used = out.get("fuel_used")
                for a in out.get("axioms", []):
                    eng.used_axioms.add(a)
                for a in out.get("assumptions", []):
                    eng.assumptions_used.add(a)
                done += 1
                if progress:
                    progress(done, len(queue), o)
            elif now - start > limit:
                try:
                    os.kill(pid, signal.SIGKILL)
                except ProcessLookupError:
                    pass
                os.close(rfd)
                os.waitpid(pid, 0)
                del running[pid]
                if sem is not None:
                    sem.release()
                o.verdict = "unknown"
                o.time = now - start
                o.reason = "hard wall-clock limit"
                o.backend = "z3"
                o.model_summary = None
                done += 1
                if progress:
                    progress(done, len(queue), o)
    for res in results:
        res.solve_time = sum(o.time for o in res.obligations)
    return time.time() - t0
