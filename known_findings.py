"""Known findings: genuine defects of fastavro (pinned commit) that are recorded rather
than repaired (see DESIGN.md 10).  Committed; never written at run time.

DEDUCTIVE entries: `obligation` (regex on the obligation name) identifies the proof
obligation; `exclude` is a predicate in the contract language, evaluated at that
program point, that characterises the failing inputs -- its negation is added as a
hypothesis, so any *other* violation of the same obligation is still reported.
`witness` is a program that prints DEFECT while the defect is present on the real
code; when it no longer does, the entry suppresses nothing.

BOUNDED entries filter concrete failures of the bounded stand-ins the same way
(`match` sees the failing case).

FIXED entries document repaired defects ("fixed: property=<id> <commit> <what>");
they suppress nothing.
"""

W_DICTNULL = '''
import io, fastavro
from fastavro.validation import validate
s = {"type": "record", "name": "R", "fields": [{"name": "a", "type": {"type": "null"}}]}
ok = validate({}, s, raise_errors=False)
try:
    fastavro.schemaless_writer(io.BytesIO(), s, {})
except ValueError as e:
    if ok and "no value and no default" in str(e):
        print("DEFECT")
'''

DEDUCTIVE = [
    dict(id="KF13", property=["C01", "C02", "C10"],
         obligation=r"fastavro/_write_py\.py:write_record:noexc\.ValueError@line\d+",
         exclude=('name not in datum and "default" not in field and "null" not in field_type '
                  'and A.CONFORMS(None, field_type, named_schemas, options)'),
         what=("write_record raises 'no value and no default' for an absent field whose type admits null but is "
               "not the string \"null\" or a list containing it (e.g. {\"type\": \"null\"}); validate accepts the datum"),
         witness=W_DICTNULL),
]


def _dictnull(entry):
    return "no value and no default" in entry["what"]


def _promo_first(entry):
    """KF07: the reader union has a branch reachable by promotion *before* the branch of the
    writer's own type, and the value obtained is the one the earlier branch gives"""
    c = entry["case"]
    if "_w" not in c:
        return False
    from spec import resolve as RS
    from bounded.c08 import same_unordered

    def first_match_resolve(ws, rs, nsw, nsr, buf, pos):
        """the resolution fastavro implements: first reader branch that matches at all"""
        orig = RS.pick_branch

        def pick(w, ru, a, b):
            for br in ru:
                if RS.same_type(w, br, a, b) or RS.promotable(w, br, a, b):
                    return br
            raise RS.ResolutionError("none")
        RS.pick_branch = pick
        try:
            return RS.resolve_decode(ws, rs, nsw, nsr, buf, pos)[0]
        finally:
            RS.pick_branch = orig
    try:
        alt = first_match_resolve(c["_w"], c["_r"], c["_nsw"], c["_nsr"], c["_enc"], 0)
    except UnicodeDecodeError:
        return "UnicodeDecodeError" in entry["what"]
    except Exception:
        return False
    return "_got" in c and same_unordered(c["_got"], alt)


def _raw_default(entry):
    """KF12 under C08: the value obtained is what the resolution rules give when a reader-only field's JSON
    default is handed out as it stands (not as the value it denotes: bytes for bytes/fixed, the float for
    "NaN"/"Infinity", nested field defaults for records), and that differs from the denoted value"""
    c = entry["case"]
    if "_w" not in c or "_got" not in c:
        return False
    from spec import resolve as RS
    from bounded.c08 import same_unordered
    orig = RS.default_value
    RS.default_value = lambda s, j, ns, depth=0: j
    try:
        alt = RS.resolve_decode(c["_w"], c["_r"], c["_nsw"], c["_nsr"], c["_enc"], 0)[0]
    except Exception:
        return False
    finally:
        RS.default_value = orig
    return same_unordered(c["_got"], alt)


def _uses_nonconforming_default(d, s, ns, depth=0):
    """the datum omits (somewhere) a field whose JSON default is not itself a conforming
    Python value for the field's type (e.g. "NaN" for a float field, "\\u00ff" for bytes)"""
    from spec import avro as A
    if depth > 6:
        return False
    if isinstance(s, str) and s in ns:
        return _uses_nonconforming_default(d, ns[s], ns, depth + 1)
    if isinstance(s, list):
        return any(_uses_nonconforming_default(d, b, ns, depth + 1) for b in s)
    if isinstance(s, dict):
        t = s.get("type")
        if t in ("record", "error") and isinstance(d, dict):
            for f in s["fields"]:
                if f["name"] not in d:
                    if "default" in f and not A.CONFORMS(f["default"], f["type"], ns, {}):
                        return True
                elif _uses_nonconforming_default(d[f["name"]], f["type"], ns, depth + 1):
                    return True
        if t == "array" and isinstance(d, (list, tuple)):
            return any(_uses_nonconforming_default(x, s["items"], ns, depth + 1) for x in d)
        if t == "map" and isinstance(d, dict):
            return any(_uses_nonconforming_default(x, s["values"], ns, depth + 1) for x in d.values())
    return False


def _kf12(entry):
    c = entry["case"]
    return ("_p" in c and "validate -> False, the mapping says True" in entry["what"]
            and _uses_nonconforming_default(c["_d"], c["_p"], c["_ns"]))


def _kf05(entry):
    """piecewise-parsed schema: the outer schema keeps bare references to the separately
    parsed types, so the container header / canonical form are not self-contained"""
    c = entry["case"]
    if not str(c.get("form", "")).startswith("piecewise"):
        return False
    if c.get("operation") == "container":
        return "UnknownType" in str(c.get("_b"))
    if c.get("operation") == "canonical_form":
        a, b = c.get("_a"), c.get("_b")
        return isinstance(a, str) and isinstance(b, str) and len(b) < len(a) and '"type":"' in b
    return False


def _schema_has(p, ns, pred, depth=0, seen=None):
    seen = seen if seen is not None else set()
    if depth > 10:
        return False
    if pred(p):
        return True
    if isinstance(p, str):
        if p in ns and p not in seen:
            seen.add(p)
            return _schema_has(ns[p], ns, pred, depth + 1, seen)
        return False
    if isinstance(p, list):
        return any(_schema_has(b, ns, pred, depth + 1, seen) for b in p)
    if isinstance(p, dict):
        t = p.get("type")
        if t == "array":
            return _schema_has(p["items"], ns, pred, depth + 1, seen)
        if t == "map":
            return _schema_has(p["values"], ns, pred, depth + 1, seen)
        if t in ("record", "error"):
            return any(_schema_has(f["type"], ns, pred, depth + 1, seen) for f in p["fields"])
    return False


def _kf15_fieldless(entry):
    c = entry["case"]
    return ("_p" in c and "Internal Parser Exception" in entry["what"]
            and _schema_has(c["_p"], c["_ns"], lambda s: isinstance(s, dict) and s.get("type") in ("record", "error") and not s["fields"]))


def _kf15_error_type(entry):
    c = entry["case"]
    return "_p" in c and "Unhandled type: error" in entry["what"] and _schema_has(c["_p"], c["_ns"], lambda s: isinstance(s, dict) and s.get("type") == "error")


def _recursive(p, ns):
    """some named type is reachable from itself"""
    def reach(s, target, seen, depth=0):
        if depth > 12:
            return False
        if isinstance(s, str):
            if s == target:
                return True
            if s in ns and s not in seen:
                seen.add(s)
                return reach(ns[s], target, seen, depth + 1)
            return False
        if isinstance(s, list):
            return any(reach(b, target, seen, depth + 1) for b in s)
        if isinstance(s, dict):
            t = s.get("type")
            if t == "array":
                return reach(s["items"], target, seen, depth + 1)
            if t == "map":
                return reach(s["values"], target, seen, depth + 1)
            if t in ("record", "error"):
                return any(reach(f["type"], target, seen, depth + 1) for f in s["fields"])
        return False
    return any(isinstance(d, dict) and d.get("type") in ("record", "error") and
               any(reach(f["type"], n, set()) for f in d["fields"]) for n, d in ns.items())


def _depth(d, k=0):
    if isinstance(d, dict):
        return max([_depth(v, k + 1) for v in d.values()] + [k + 1])
    if isinstance(d, (list, tuple)):
        return max([_depth(v, k) for v in d] + [k])
    return k


def _kf06(entry):
    """JSON encoding of recursive types: recursion through an array/map never terminates in the
    grammar compiler; recursion through a union fails from the third level of nesting"""
    c = entry["case"]
    if "_p" not in c or not _recursive(c["_p"], c["_ns"]):
        return False
    if "RecursionError" in entry["what"]:
        return True
    return "IndexError" in entry["what"] and any(_depth(r) >= 3 for r in c["_recs"])


def _kf12_json(entry):
    c = entry["case"]
    f = c.get("_f")
    if not f:
        return False
    from spec import avro as A
    return "default" in f and isinstance(f["default"], str) and f["type"] in ("float", "double", "bytes") or \
        (isinstance(f.get("type"), dict) and f["type"].get("type") == "fixed" and isinstance(f.get("default"), str))


def _kf20(entry):
    return "RecursionError" in entry["what"] and "'items': '" in str(entry["case"].get("schema")) or \
        ("RecursionError" in entry["what"] and "'values': '" in str(entry["case"].get("schema")))


def _kf21(entry):
    """C13 fixed point: the schema defines a named type with an explicit empty namespace inside a type that has a
    namespace; its canonical full name has no dot, and re-parsing the canonical text reads it relative to the
    enclosing namespace.  Only that shape is matched: the two texts must differ exactly by such a re-qualification."""
    c = entry["case"]
    raw, a, b = c.get("_raw"), c.get("_a"), c.get("_b")
    if not (isinstance(a, str) and isinstance(b, str)):
        return False
    names = []

    def walk(s, ns):
        if isinstance(s, list):
            for x in s:
                walk(x, ns)
        elif isinstance(s, dict):
            t = s.get("type")
            if t in ("record", "error", "enum", "fixed") and isinstance(s.get("name"), str):
                nm = s["name"]
                if "." in nm:
                    here = nm.rsplit(".", 1)[0]
                else:
                    here = s.get("namespace", ns)
                    if s.get("namespace") == "" and ns:
                        names.append((nm, ns))
                for f in s.get("fields", []) if t in ("record", "error") else []:
                    walk(f.get("type"), here)
            elif t == "array":
                walk(s.get("items"), ns)
            elif t == "map":
                walk(s.get("values"), ns)
            elif isinstance(t, (dict, list)):
                walk(t, ns)

    walk(raw, "")
    if not names:
        return False
    fixed = a
    for nm, ns in names:
        fixed = fixed.replace('"name":"%s"' % nm, '"name":"%s.%s"' % (ns, nm))
    return fixed == b


BOUNDED = [
    dict(id="KF20", property="C20", clause="count_and_conformance",
         what=("generate_one/generate_many never terminate (RecursionError) for a type that contains itself through an "
               "array or map: arrays and maps are always generated with ten entries"), match=_kf20),
    dict(id="KF15b", property="C15", clause="json_text_is_spec_encoding",
         what="json_writer fails with 'Internal Parser Exception' for a record type without fields", match=_kf15_fieldless),
    dict(id="KF15d", property="C15", clause="json_text_is_spec_encoding",
         what="the JSON codec does not handle the 'error' type (\"Unhandled type: error\")", match=_kf15_error_type),
    dict(id="KF06", property="C15", clause="json_text_is_spec_encoding",
         what=("JSON codec and recursive types: a type that contains itself through an array or map makes the grammar "
               "compiler recurse without end (RecursionError); a linked list nested three deep fails with IndexError"),
         match=_kf06),
    dict(id="KF12", property="C15", clause="absent_takes_default",
         what=("a string-valued JSON default of a float/double/bytes/fixed field (\"NaN\", \"\\u00ff\") is handed out "
               "unconverted when the field is absent from the JSON text"), match=_kf12_json),
    dict(id="KF13", property="C15", clause="json_text_is_spec_encoding", what=DEDUCTIVE[0]["what"], match=_dictnull),
    dict(id="KF05", property="C12", clause="forms_equivalent",
         what=("a schema whose named types were parsed separately against a shared named-schema dictionary keeps bare "
               "references: a container file written from it cannot be read back on its own (UnknownType) and its "
               "canonical form does not contain the definitions"),
         match=_kf05),
    dict(id="KF12", property="C10", clause="validate_equals_conforms",
         what=("validate checks an absent field's JSON default as if it were Python data: a float/double field with "
               "default \"NaN\" (or a bytes/fixed field with a string default) makes validate reject a record that "
               "omits the field, although the writer encodes it"),
         match=_kf12),
    dict(id="KF13", property="C10", clause="accepted_is_writable", what=DEDUCTIVE[0]["what"], match=_dictnull),
    dict(id="KF07", property="C08", clause="resolution",
         what=("a reader union is resolved to the first branch that matches at all (promotions included), not to the "
               "branch of the writer's own type first: writer int against reader [\"double\", \"int\"] yields 5.0"),
         match=_promo_first),
    dict(id="KF12", property="C08", clause="resolution",
         what=("a reader-only field is filled with its JSON default as it stands instead of the value it denotes: bytes/fixed "
               "defaults come back as str ('\u00ff' not b'\\xff'), \"NaN\"/\"Infinity\" for float/double as the string, a record default "
               "{} without the nested fields' own defaults"),
         match=_raw_default),
    dict(id="KF21", property="C13", clause="fixed_point",
         what=("a named type given an explicit empty namespace inside a namespaced type has a dot-free full name in the canonical "
               "form (as the specification's rules prescribe); re-parsing that text reads the name relative to the enclosing "
               "namespace, so the canonical form of the canonical form differs (ns.Inner instead of Inner)"),
         match=_kf21),
    dict(id="KF13", property="C01", clause="roundtrip", what=DEDUCTIVE[0]["what"], match=_dictnull),
    dict(id="KF13", property="C02", clause="bytes_equal_spec", what=DEDUCTIVE[0]["what"], match=_dictnull),
    dict(id="KF13", property="C04", clause="file_roundtrip", what=DEDUCTIVE[0]["what"], match=_dictnull),
    dict(id="KF13", property="C05", clause="layout_of_written_file", what=DEDUCTIVE[0]["what"], match=_dictnull),
]

FIXED = [
    "fixed: property=C03 8a24aa2 negative union branch / enum index decoded through a negative subscript "
    "(schemaless_reader(b'\\x01', enum[A,B,C]) returned 'C')",
    "fixed: property=C17 7e18589 json_reader consumed array/map/record field defaults of the schema in place "
    "(second read of a document omitting the field returned an empty value; the caller's schema dict was modified); "
    "also violates C15 (absent fields take their defaults) and C18",
    "fixed: property=C07 056bc62 a record rejected part-way by Writer.write left its first fields in the block buffer "
    "(history [write ok, write {'a': 7, 's': 3} fails, write ok, flush]: next record read back shifted / file undecodable)",
    "fixed: property=C08 e965be2 writer defines an enum/fixed/record inline where the reader schema refers to it by name "
    "(reader defined it in an earlier field): SchemaResolutionError instead of the resolved value",
    "fixed: property=C11 40087d3 decimal precision 0 skipped the precision/scale checks ({precision: 0, scale: 2} accepted)",
    "fixed: property=C10 b67b016 validate rejected (name, value) tuples naming enum / fixed / array / map / primitive branches "
    "that the writers accept (validate(('E', 'A'), [enum E, 'string']) was False)",
    "fixed: property=C11 8caf421 a union-typed field accepted any default as soon as one branch was not a bare primitive "
    "([\"null\", array<int>] with default 5 or \"x\"); a boolean was accepted as the default of an int/long",
    "fixed: property=C16 72ae32d prepare_fixed_decimal stored Decimal('-0') as -2 and silently truncated negative values that "
    "do not fit the fixed size (Decimal('-9'), precision 2, scale 2, size 1 -> 1.24) instead of raising",
    "fixed: property=C15 a0f0ebc json_writer raised 'No key was set' for a map entry whose key is the empty string",
    "fixed: property=C10 2613132 validate (and writer(validator=True)) rejected a correctly '-type'-hinted record nested in a field: "
    "the hint was compared with a name qualified by the field path (validate({'f': {'-type': 'Inner', 'x': 1}}, Outer{f: [null, Inner]}) "
    "was False while the writer encodes it); also C09 ('-type' hint honoured by record validation)",
    "fixed: property=C10 464d60e validate raised ValueError ('too many values to unpack') instead of returning False for a tuple "
    "datum that is not a (name, value) pair (validate((1, 2, 3), ['null', array<int>], raise_errors=False))",
    "fixed: property=C08 1dd43b0 named types of different kinds matched by name alone: data written as enum X read with a reader "
    "schema declaring record X raised KeyError('symbols'); data written as fixed X was returned unchanged to a reader expecting "
    "enum/record X (no schema-resolution error)",
    "fixed: property=C08 1f35f09 read_union with return_named_type / return_record_name and a reader schema raised TypeError when the "
    "union's named branch is inline on one side and by name on the other (writer [null, \"Foo\"] with Foo defined earlier, reader "
    "[null, {Foo inline}], or the reverse); also C09 (named-type reporting)",
    "fixed: property=C11 7f54c1b a boolean default was accepted for float / double fields (float(True) == 1.0): "
    "parse_schema({'type': 'record', 'name': 'R', 'fields': [{'name': 'd', 'type': 'double', 'default': True}]}) did not raise",
    "fixed: property=C18 6c01e0c read_decimal set the precision on a module-level decimal Context and then used it "
    "(schedule: A sets prec=9, B reads a precision-2 decimal, A resumes and returns 1.2E+6 for 1234567.89)",
]
