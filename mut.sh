#!/bin/bash
# usage: mut.sh <file-relative-to-repo> <sed-expr> <vc_debug-pattern>
rm -rf /tmp/mut/repo && mkdir -p /tmp/mut/repo && cp -r /repo/fastavro /tmp/mut/repo/
sed -i "$2" /tmp/mut/repo/$1
if diff -q /repo/$1 /tmp/mut/repo/$1 >/dev/null; then echo "MUTATION DID NOT APPLY"; exit 2; fi
cd /verif && PYVC_REPO=/tmp/mut/repo python3-vt vc_debug.py "$3" 2>&1 | grep -v "^   discharged" | grep -v covers
