"""Contracts for fastavro/io/binary_decoder.py (C01, C03, C06).

Default behaviour: the remaining input (`fo.rem`, the ghost "what is still to be
read") starts with a specification-valid encoding; the method returns the value
that encoding denotes and consumes exactly those bytes.  Behaviour "short": no
assumption about the input; a read that came back short makes the method raise
(`eof_hit` is unchanged on every normal return)."""
from pyvc.contracts import target, R, implies
import spec.core as S

M = "fastavro/io/binary_decoder.py"


@target(M, "BinaryDecoder.read_null")
class read_null:
    types = dict(self="BinaryDecoder")
    modifies = []
    ensures = lambda self, result: result is None


@target(M, "BinaryDecoder.read_long")
class read_long:
    types = dict(self="BinaryDecoder")
    ghosts = dict(z="int", rest="bytes")
    requires = lambda self: z >= 0 and self.fo.rem == S.varint(z) + rest
    modifies = ["self.fo"]
    returns = "int"
    ensures = lambda self, result: (
        result == S.unzigzag(z) and self.fo.rem == rest
        and self.fo.pos == old.self.fo.pos + len(S.varint(z))
        and self.fo.data == old.self.fo.data and self.fo.eof_hit == old.self.fo.eof_hit)
    loops = {0: lambda self, b, n, shift: (
        shift >= 7 and 0 <= b <= 255 and 0 <= n < S.pow2(shift)
        and z == n + S.pow2(shift) * S.shr7(z, shift) and S.shr7(z, shift) >= 0
        and (b >= 128) == (S.shr7(z, shift) >= 1)
        and self.fo.rem == (S.varint(S.shr7(z, shift)) if S.shr7(z, shift) >= 1 else b"") + rest
        and self.fo.pos + len(self.fo.rem) == old.self.fo.pos + len(old.self.fo.rem)
        and self.fo.data == old.self.fo.data and self.fo.eof_hit == old.self.fo.eof_hit)}
    uses_locals = ["b", "n", "shift"]


@target(M, "BinaryDecoder.read_long", behavior="blockstart")
class read_long_blockstart:
    """at the start of a container block: end of file is reported by EOFError (that is how the block
    iterators stop), otherwise a complete long is read"""
    types = dict(self="BinaryDecoder")
    ghosts = dict(z="int", rest="bytes")
    requires = lambda self: z >= 0 and (self.fo.rem == b"" or self.fo.rem == S.varint(z) + rest)
    modifies = ["self.fo"]
    returns = "int"
    raises = [R("EOFError", when=lambda self: self.fo.rem == b"",
                ensures=lambda self: (self.fo.data == old.self.fo.data and self.fo.rem == b""
                                      and self.fo.pos == old.self.fo.pos))]
    ensures = lambda self, result: (
        result == S.unzigzag(z) and self.fo.rem == rest
        and self.fo.pos == old.self.fo.pos + len(S.varint(z))
        and self.fo.data == old.self.fo.data and self.fo.eof_hit == old.self.fo.eof_hit)
    loops = {0: lambda self, b, n, shift: (
        shift >= 7 and 0 <= b <= 255 and 0 <= n < S.pow2(shift)
        and z == n + S.pow2(shift) * S.shr7(z, shift) and S.shr7(z, shift) >= 0
        and (b >= 128) == (S.shr7(z, shift) >= 1)
        and self.fo.rem == (S.varint(S.shr7(z, shift)) if S.shr7(z, shift) >= 1 else b"") + rest
        and self.fo.pos + len(self.fo.rem) == old.self.fo.pos + len(old.self.fo.rem)
        and self.fo.data == old.self.fo.data and self.fo.eof_hit == old.self.fo.eof_hit)}
    uses_locals = ["b", "n", "shift"]


@target(M, "BinaryDecoder.read_long", behavior="short")
class read_long_short:
    """no assumption on the input: a short read makes the method raise.  EOFError is raised exactly when
    there was nothing at all to read (the container iterators take THAT as the end of the file); running out
    of input inside a multi-byte varint is a different exception, so a file cut inside a block's record count
    is not mistaken for a clean end"""
    types = dict(self="BinaryDecoder")
    modifies = ["self.fo"]
    returns = "int"
    raises = [R("EOFError", when=lambda self: self.fo.rem == b"",
                ensures=lambda self: self.fo.rem == b"" and self.fo.data == old.self.fo.data and self.fo.pos == old.self.fo.pos),
              R("TypeError", when=lambda self: self.fo.rem != b"", must=False)]
    ensures = lambda self, result: (
        self.fo.eof_hit == old.self.fo.eof_hit and self.fo.data == old.self.fo.data
        and self.fo.pos > old.self.fo.pos)
    loops = {0: lambda self, shift: (shift >= 7 and self.fo.eof_hit == old.self.fo.eof_hit
                                     and self.fo.data == old.self.fo.data and self.fo.pos > old.self.fo.pos)}


@target(M, "BinaryDecoder.read_boolean")
class read_boolean:
    types = dict(self="BinaryDecoder")
    ghosts = dict(k="int", rest="bytes")
    requires = lambda self: 0 <= k <= 255 and self.fo.rem == bytes([k]) + rest
    modifies = ["self.fo"]
    returns = "bool"
    ensures = lambda self, result: (
        result == (k != 0) and self.fo.rem == rest and self.fo.pos == old.self.fo.pos + 1
        and self.fo.data == old.self.fo.data and self.fo.eof_hit == old.self.fo.eof_hit)


@target(M, "BinaryDecoder.read_boolean", behavior="short")
class read_boolean_short:
    types = dict(self="BinaryDecoder")
    modifies = ["self.fo"]
    returns = "bool"
    raises = [R("struct.error", must=False)]
    ensures = lambda self, result: self.fo.eof_hit == old.self.fo.eof_hit and self.fo.data == old.self.fo.data


@target(M, "BinaryDecoder.read_float")
class read_float:
    types = dict(self="BinaryDecoder")
    ghosts = dict(b32="int", rest="bytes")
    requires = lambda self: 0 <= b32 < 2 ** 32 and self.fo.rem == S.le_bytes4(b32) + rest
    modifies = ["self.fo"]
    returns = "float"
    ensures = lambda self, result: (
        result == S.f_of_single(b32) and self.fo.rem == rest and self.fo.pos == old.self.fo.pos + 4
        and self.fo.data == old.self.fo.data and self.fo.eof_hit == old.self.fo.eof_hit)


@target(M, "BinaryDecoder.read_float", behavior="short")
class read_float_short:
    types = dict(self="BinaryDecoder")
    modifies = ["self.fo"]
    returns = "float"
    raises = [R("struct.error", must=False)]
    ensures = lambda self, result: self.fo.eof_hit == old.self.fo.eof_hit and self.fo.data == old.self.fo.data


@target(M, "BinaryDecoder.read_double")
class read_double:
    types = dict(self="BinaryDecoder")
    ghosts = dict(b64="int", rest="bytes")
    requires = lambda self: 0 <= b64 < 2 ** 64 and self.fo.rem == S.le_bytes8(b64) + rest
    modifies = ["self.fo"]
    returns = "float"
    ensures = lambda self, result: (
        S.float_bits(result) == b64 and self.fo.rem == rest and self.fo.pos == old.self.fo.pos + 8
        and self.fo.data == old.self.fo.data and self.fo.eof_hit == old.self.fo.eof_hit)


@target(M, "BinaryDecoder.read_double", behavior="short")
class read_double_short:
    types = dict(self="BinaryDecoder")
    modifies = ["self.fo"]
    returns = "float"
    raises = [R("struct.error", must=False)]
    ensures = lambda self, result: self.fo.eof_hit == old.self.fo.eof_hit and self.fo.data == old.self.fo.data


@target(M, "BinaryDecoder.read_bytes")
class read_bytes:
    types = dict(self="BinaryDecoder")
    ghosts = dict(b="bytes", rest="bytes")
    requires = lambda self: self.fo.rem == S.long_bytes(len(b)) + b + rest
    modifies = ["self.fo"]
    returns = "bytes"
    call_ghosts = {"read_long": dict(z=lambda: S.zigzag(len(b)), rest=lambda: b + rest)}
    ensures = lambda self, result: (
        result == b and self.fo.rem == rest
        and self.fo.pos == old.self.fo.pos + len(S.long_bytes(len(b))) + len(b)
        and self.fo.data == old.self.fo.data and self.fo.eof_hit == old.self.fo.eof_hit)


@target(M, "BinaryDecoder.read_bytes", behavior="short")
class read_bytes_short:
    types = dict(self="BinaryDecoder")
    modifies = ["self.fo"]
    returns = "bytes"
    raises = [R("EOFError", must=False), R("TypeError", must=False)]
    ensures = lambda self, result: self.fo.eof_hit == old.self.fo.eof_hit and self.fo.data == old.self.fo.data


@target(M, "BinaryDecoder.read_utf8")
class read_utf8:
    """accepts every valid UTF-8 payload b, under any error handler"""
    types = dict(self="BinaryDecoder", handle_unicode_errors="str")
    ghosts = dict(b="bytes", rest="bytes")
    requires = lambda self: self.fo.rem == S.long_bytes(len(b)) + b + rest and S.utf8_valid(b)
    modifies = ["self.fo"]
    returns = "str"
    call_ghosts = {"read_bytes": dict(b=lambda: b, rest=lambda: rest)}
    ensures = lambda self, result: (
        result == S.utf8_decode(b) and self.fo.rem == rest
        and self.fo.pos == old.self.fo.pos + len(S.long_bytes(len(b))) + len(b)
        and self.fo.data == old.self.fo.data and self.fo.eof_hit == old.self.fo.eof_hit)


@target(M, "BinaryDecoder.read_utf8", behavior="short")
class read_utf8_short:
    types = dict(self="BinaryDecoder", handle_unicode_errors="str")
    modifies = ["self.fo"]
    returns = "str"
    raises = [R("EOFError", must=False), R("TypeError", must=False), R("UnicodeDecodeError", must=False)]
    ensures = lambda self, result: self.fo.eof_hit == old.self.fo.eof_hit and self.fo.data == old.self.fo.data


@target(M, "BinaryDecoder.read_fixed")
class read_fixed:
    types = dict(self="BinaryDecoder", size="int")
    ghosts = dict(b="bytes", rest="bytes")
    requires = lambda self, size: size >= 0 and len(b) == size and self.fo.rem == b + rest
    modifies = ["self.fo"]
    returns = "bytes"
    ensures = lambda self, size, result: (
        result == b and self.fo.rem == rest and self.fo.pos == old.self.fo.pos + size
        and self.fo.data == old.self.fo.data and self.fo.eof_hit == old.self.fo.eof_hit)


@target(M, "BinaryDecoder.read_fixed", behavior="short")
class read_fixed_short:
    """any size, also a negative one (a damaged length: read(-n) takes everything that is left, which is not a short read)"""
    types = dict(self="BinaryDecoder", size="int")
    modifies = ["self.fo"]
    returns = "bytes"
    raises = [R("EOFError", must=False)]
    ensures = lambda self, result: self.fo.eof_hit == old.self.fo.eof_hit and self.fo.data == old.self.fo.data


@target(M, "BinaryDecoder.read_enum")
class read_enum:
    types = dict(self="BinaryDecoder")
    ghosts = dict(z="int", rest="bytes")
    requires = lambda self: z >= 0 and self.fo.rem == S.varint(z) + rest
    modifies = ["self.fo"]
    returns = "int"
    call_ghosts = {"read_long": dict(z=lambda: z, rest=lambda: rest)}
    ensures = lambda self, result: (
        result == S.unzigzag(z) and self.fo.rem == rest
        and self.fo.pos == old.self.fo.pos + len(S.varint(z))
        and self.fo.data == old.self.fo.data and self.fo.eof_hit == old.self.fo.eof_hit)


@target(M, "BinaryDecoder.read_enum", behavior="short")
class read_enum_short:
    types = dict(self="BinaryDecoder")
    modifies = ["self.fo"]
    returns = "int"
    raises = [R("EOFError", must=False), R("TypeError", must=False)]
    ensures = lambda self, result: self.fo.eof_hit == old.self.fo.eof_hit and self.fo.data == old.self.fo.data


@target(M, "BinaryDecoder.read_index")
class read_index:
    types = dict(self="BinaryDecoder")
    ghosts = dict(z="int", rest="bytes")
    requires = lambda self: z >= 0 and self.fo.rem == S.varint(z) + rest
    modifies = ["self.fo"]
    returns = "int"
    call_ghosts = {"read_long": dict(z=lambda: z, rest=lambda: rest)}
    ensures = lambda self, result: (
        result == S.unzigzag(z) and self.fo.rem == rest
        and self.fo.pos == old.self.fo.pos + len(S.varint(z))
        and self.fo.data == old.self.fo.data and self.fo.eof_hit == old.self.fo.eof_hit)


@target(M, "BinaryDecoder.read_index", behavior="short")
class read_index_short:
    types = dict(self="BinaryDecoder")
    modifies = ["self.fo"]
    returns = "int"
    raises = [R("EOFError", must=False), R("TypeError", must=False)]
    ensures = lambda self, result: self.fo.eof_hit == old.self.fo.eof_hit and self.fo.data == old.self.fo.data


@target(M, "BinaryDecoder.read_array_start")
class read_array_start:
    types = dict(self="BinaryDecoder")
    ghosts = dict(z="int", rest="bytes")
    requires = lambda self: z >= 0 and self.fo.rem == S.varint(z) + rest
    modifies = ["self"]
    call_ghosts = {"read_long": dict(z=lambda: z, rest=lambda: rest)}
    ensures = lambda self, result: (
        result is None and self._block_count == S.unzigzag(z) and self.fo.rem == rest
        and self.fo.pos == old.self.fo.pos + len(S.varint(z))
        and self.fo.data == old.self.fo.data and self.fo.eof_hit == old.self.fo.eof_hit)


@target(M, "BinaryDecoder.read_array_start", behavior="short")
class read_array_start_short:
    types = dict(self="BinaryDecoder")
    modifies = ["self"]
    raises = [R("EOFError", must=False), R("TypeError", must=False)]
    ensures = lambda self, result: self.fo.eof_hit == old.self.fo.eof_hit and self.fo.data == old.self.fo.data


@target(M, "BinaryDecoder.read_map_start")
class read_map_start:
    types = dict(self="BinaryDecoder")
    ghosts = dict(z="int", rest="bytes")
    requires = lambda self: z >= 0 and self.fo.rem == S.varint(z) + rest
    modifies = ["self"]
    call_ghosts = {"read_long": dict(z=lambda: z, rest=lambda: rest)}
    ensures = lambda self, result: (
        result is None and self._block_count == S.unzigzag(z) and self.fo.rem == rest
        and self.fo.pos == old.self.fo.pos + len(S.varint(z))
        and self.fo.data == old.self.fo.data and self.fo.eof_hit == old.self.fo.eof_hit)


@target(M, "BinaryDecoder.read_map_start", behavior="short")
class read_map_start_short:
    types = dict(self="BinaryDecoder")
    modifies = ["self"]
    raises = [R("EOFError", must=False), R("TypeError", must=False)]
    ensures = lambda self, result: self.fo.eof_hit == old.self.fo.eof_hit and self.fo.data == old.self.fo.data


@target(M, "BinaryDecoder.read_array_end")
class read_array_end:
    types = dict(self="BinaryDecoder")
    modifies = []
    ensures = lambda self, result: result is None


@target(M, "BinaryDecoder.read_map_end")
class read_map_end:
    types = dict(self="BinaryDecoder")
    modifies = []
    ensures = lambda self, result: result is None
