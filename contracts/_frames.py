"""Frame declarations for the provenance pass (C17, C18).

MODIFIES: (module, function) -> parameters the function is allowed to write through
(in/out parameters).  Everything not listed may only write fresh objects, `self`, and
caller-supplied streams.  RETURNS: what a repo function returns, for `x = f(...)`:
"fresh" or "arg<i>" (may alias its i-th positional argument).  SELF_ALIASES: instance
attributes that (by design) keep a reference to a constructor argument and are written
later.  Every entry is a declared effect visible in evidence -- not a suppression:
writing a schema or datum parameter is never declared here.
"""
S = "fastavro/_schema_py.py"
MODIFIES = {
    # the caller-supplied named-schema dictionary is the documented in/out parameter
    (S, "parse_schema"): ["named_schemas"],
    (S, "_parse_schema"): ["named_schemas", "names"],       # `names`: per-parse set created by parse_schema
    (S, "parse_field"): ["named_schemas", "names"],
    # load_schema and its helpers: the named-schema dictionary and the per-load set; `schema` here is the
    # object freshly loaded from the repository (json.load), which injection rewrites in place
    (S, "_parse_schema_with_repo"): ["injected_schemas", "named_schemas", "schema"],
    (S, "_load_schema"): ["injected_schemas", "named_schemas"],
    (S, "load_schema"): ["named_schemas", "_injected_schemas"],
    # injection rewrites the schema object freshly loaded from the repository (never a user schema)
    (S, "_inject_schema"): ["outer_schema"],
}
RETURNS = {
    "reader": "fresh", "block_reader": "fresh", "file_reader": "fresh",
    "_default_named_schemas": "fresh",
    # parse_schema returns its argument itself when that is already parsed
    "parse_schema": "arg0",
    # Parser.parse / _parse build the grammar (lists of fresh Symbol objects) from the schema
    "parse": "fresh", "_parse": "fresh",
}
SELF_ALIASES = {
    # grammar productions are lists created by Parser._parse for the symbol that owns them
    "Symbol.production": "production list built by the grammar compiler for this symbol",
    # GenericWriter keeps the caller's metadata dict and adds avro.schema / avro.codec to it
    "GenericWriter.metadata": "metadata dict passed to writer()/Writer() is extended in place",
}
