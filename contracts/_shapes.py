"""Field structure of the repo classes and model streams used in `types` clauses.
A shape name used as a type allocates one object with fresh symbolic fields."""
SHAPES = {
    # file-like objects handed to the library (trusted functional model, DESIGN 2.3)
    "OutStream": {"__class__": "Stream", "data": "bytes", "pos": "int", "eof_hit": "bool",
                  "seekable": "bool", "readable": "bool"},
    # `rem` is the ghost "what is still to be read" (data[pos:]), maintained by the model
    "InStream": {"__class__": "Stream", "data": "bytes", "pos": "int", "rem": "bytes",
                 "eof_hit": "bool", "seekable": "bool", "readable": "bool"},
    "BinaryEncoder": {"_fo": "OutStream"},
    "BinaryDecoder": {"fo": "InStream", "_block_count": "int"},
}
