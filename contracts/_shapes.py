"""Field structure of the repo classes and model streams used in `types` clauses.
A shape name used as a type allocates one object with fresh symbolic fields."""
SHAPES = {
    # file-like objects handed to the library (trusted functional model, DESIGN 2.3)
    "OutStream": {"__class__": "Stream", "data": "bytes", "pos": "int", "eof_hit": "bool",
                  "seekable": "bool", "readable": "bool"},
    # `rem` is the ghost "what is still to be read" (data[pos:]), maintained by the model
    "InStream": {"__class__": "Stream", "data": "bytes", "pos": "int", "rem": "bytes",
                 "eof_hit": "bool", "seekable": "bool", "readable": "bool"},
    # io.StringIO handed to the canonical-form writer
    "TextOutStream": {"__class__": "TextStream", "data": "str", "pos": "int", "eof_hit": "bool",
                      "seekable": "bool", "readable": "bool"},
    "BinaryEncoder": {"_fo": "OutStream"},
    # the Writer's in-memory block buffer (BinaryEncoder over a BytesIO)
    "BufferEncoder": {"__class__": "BinaryEncoder", "_fo": "OutStream"},
    "Block": {"bytes_": "OutStream", "num_records": "int"},
    # Writer: validate_fn is None here (validator off); block_writer is an entry of BLOCK_WRITERS
    "Writer": {"encoder": "BinaryEncoder", "io": "BufferEncoder", "block_count": "int", "sync_interval": "int",
               "compression_level": "py", "sync_marker": "bytes", "schema": "py", "_named_schemas": "dict",
               "options": "dict", "validate_fn": "none", "metadata": "dict",
               "block_writer": "tablefn:fastavro/_write_py.py:BLOCK_WRITERS"},
    "WriterV": {"__class__": "Writer", "encoder": "BinaryEncoder", "io": "BufferEncoder", "block_count": "int", "sync_interval": "int",
                "compression_level": "py", "sync_marker": "bytes", "schema": "py", "_named_schemas": "dict",
                "options": "dict", "validate_fn": "fn:fastavro/_validation_py.py:_validate", "metadata": "dict",
                "block_writer": "tablefn:fastavro/_write_py.py:BLOCK_WRITERS"},
    "BinaryDecoder": {"fo": "InStream", "_block_count": "int"},
    # a block handed out by block_reader (fastavro/_read_py.py: class Block)
    "ReadBlock": {"__class__": "Block", "bytes_": "InStream", "num_records": "int", "codec": "py", "reader_schema": "py",
                  "writer_schema": "py", "_named_schemas": "dict", "offset": "int", "size": "int", "options": "dict"},
}
