"""Contracts for fastavro/utils.py (C20): the leaf part of gen_data.

For schemas built from primitives, fixed, enum, non-empty unions and references to these, the value
generated validates against the schema (VALID) whatever the random source returns within its
documented ranges.  Arrays, maps and records (dictionary / list building with fresh random keys) are
not under contract; the whole property is exercised by the bounded stand-in."""
from pyvc.contracts import target, R, implies
import spec.core as S
import spec.avro as A
import contracts.lemmas as L

U = "fastavro/utils.py"


@target(U, "_randbytes")
class _randbytes:
    types = dict(num="int")
    returns = "bytes"
    modifies = []
    requires = lambda num: num >= 0
    ensures = lambda num, result: len(result) == num


@target(U, "_gen_utf8")
class _gen_utf8:
    types = dict()
    returns = "str"
    modifies = []
    ensures = lambda result: True


@target(U, "gen_data", behavior="leafy")
class gen_data_leafy:
    types = dict(schema="py", named_schemas="dict")
    modifies = []
    requires = lambda schema, named_schemas: (
        A.WF(schema, named_schemas) and implies(isinstance(schema, dict), "logicalType" not in schema)
        and A.LEAFY(schema, named_schemas)
        # (consequences of LEAFY, stated so that the array / map / record paths are seen to be unreachable)
        and implies(isinstance(schema, dict), schema["type"] != "array" and schema["type"] != "map"
                    and schema["type"] != "record" and schema["type"] != "error")
        and implies(isinstance(schema, dict), schema["type"] != "union" and schema["type"] != "error_union")
        and schema != "array" and schema != "map" and schema != "record" and schema != "error"
        and schema != "union" and schema != "error_union")
    ensures = lambda schema, named_schemas, result: (
        A.VALID(result, schema, named_schemas, {}) and not isinstance(result, tuple))
    uses_locals = ["real_index"]
    unfold_here = ["NS_CLEAN"]
    call_hints = {"gen_data#2": [
        lambda: L.wf_branch_at(schema, named_schemas, 0, real_index),
        lambda: L.leafy_at(schema, named_schemas, 0, real_index)]}
    return_hints = [
        lambda: L.any_valid_at(result, schema, named_schemas, {}, 0, real_index),
        lambda: L.wf_branch_at(schema, named_schemas, 0, real_index),
        lambda: L.all_str_at(schema["symbols"], 0, real_index),
    ]
