"""Contracts for fastavro/utils.py (C20): gen_data.

For every parsed schema without logical types (unions non-empty, field names of a record pairwise distinct --
GENOK) the value generated validates against the schema (VALID), whatever the random source returns within
its documented ranges: primitives, fixed, enum, unions, references, arrays and maps of ten generated
items / entries (random keys may repeat), records with every field generated.  The list / dictionary
building is handled by right-unfolded invariants and small lemmas about `d[k] = v` (contracts/lemmas.py).
Logical types, the counts of generate_many and the writers' acceptance are exercised by the bounded stand-in."""
from pyvc.contracts import target, R, implies
import spec.core as S
import spec.avro as A
import contracts.lemmas as L

U = "fastavro/utils.py"


@target(U, "_randbytes")
class _randbytes:
    types = dict(num="int")
    returns = "bytes"
    modifies = []
    requires = lambda num: num >= 0
    ensures = lambda num, result: len(result) == num


@target(U, "_gen_utf8")
class _gen_utf8:
    types = dict()
    returns = "str"
    modifies = []
    ensures = lambda result: True


@target(U, "gen_data")
class gen_data:
    """every schema without logical types (non-empty unions, distinct field names): arrays and maps of ten generated
    items / entries, records with every field generated -- and the value validates"""
    types = dict(schema="py", named_schemas="dict")
    modifies = []
    requires = lambda schema, named_schemas: (
        A.WF(schema, named_schemas) and implies(isinstance(schema, dict), "logicalType" not in schema)
        and A.GENOK(schema, named_schemas)
        and implies(isinstance(schema, dict), schema["type"] != "error"
                    and schema["type"] != "union" and schema["type"] != "error_union")
        and schema != "array" and schema != "map" and schema != "record" and schema != "error"
        and schema != "union" and schema != "error_union")
    ensures = lambda schema, named_schemas, result: (
        A.VALID(result, schema, named_schemas, {}) and not isinstance(result, tuple))
    uses_locals = ["real_index"]
    unfold_here = ["NS_CLEAN"]
    loops = {
        # the array under construction: the items generated so far all validate
        "comp0": lambda schema, named_schemas: (
            len(_acc) == _i and A.ALL_VALID_R(_acc, schema["items"], named_schemas, {}, _i)),
        # the map under construction: string keys, valid values (keys may repeat: a later value overwrites)
        "comp1": lambda schema, named_schemas: (
            A.ALL_STR_R(list(_acc), len(_acc))
            and A.ALL_VALID_R(list(_acc.values()), schema["values"], named_schemas, {}, len(_acc))),
        # the record under construction: the first _i fields are present with valid values, no "-type" key;
        # what is still needed of the remaining fields (well-formed, generatable, names not used before)
        "comp2": lambda schema, named_schemas: (
            A.REC_R(schema["fields"], _acc, named_schemas, {}, _i) and "-type" not in _acc
            and A.WF_FIELDS(schema["fields"], named_schemas, _i) and A.GENOK_FIELDS(schema["fields"], named_schemas, _i)
            and A.DISTINCT_FROM(schema["fields"], _i)
            and A.NOT_AMONG(schema["fields"], "-type", len(schema["fields"]))),
    }
    loop_hints = {
        "comp0": [lambda: L.allvalid_r_append(_acc, _new, schema["items"], named_schemas, {}, _i)],
        "comp1": [lambda: L.map_step(_acc, _newkey, _newval, schema["values"], named_schemas, {})],
        "comp2": [lambda: L.rec_frame(schema["fields"], _acc, _newkey, _newval, named_schemas, {}, _i),
                  lambda: L.dset_same(_acc, _newkey, _newval),
                  lambda: L.not_among_at(schema["fields"], "-type", len(schema["fields"]), _i)],
    }
    exit_hints = {
        "comp0": [lambda: L.allvalid_bridge(_acc, schema["items"], named_schemas, {}, len(_acc))],
        "comp1": [lambda: L.allstr_bridge(list(_acc), len(_acc)),
                  lambda: L.allvalid_bridge(list(_acc.values()), schema["values"], named_schemas, {}, len(_acc))],
        "comp2": [lambda: L.rec_bridge(schema["fields"], _acc, named_schemas, {}, len(schema["fields"]))],
    }
    call_hints = {"gen_data#2": [
        lambda: L.wf_branch_at(schema, named_schemas, 0, real_index),
        lambda: L.genok_at(schema, named_schemas, 0, real_index)]}
    return_hints = [
        lambda: L.any_valid_at(result, schema, named_schemas, {}, 0, real_index),
        lambda: L.wf_branch_at(schema, named_schemas, 0, real_index),
        lambda: L.all_str_at(schema["symbols"], 0, real_index),
    ]
