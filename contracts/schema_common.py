"""Contracts for fastavro/_schema_common.py and the fingerprint dispatch (C14).

rabin_fingerprint is verified over 64-bit vectors: the table is built by executing
the real construction loops (concrete bounds), the main loop's invariant relates the
running value to the specification's bit-by-bit polynomial division RABIN."""
from pyvc.contracts import target, R, implies
import spec.core as S

SC = "fastavro/_schema_common.py"


@target(SC, "rabin_fingerprint")
class rabin_fingerprint:
    types = dict(data="bytes")
    returns = "str"
    bv_locals = ["result"]
    timeout = 30
    modifies = []
    loops = {2: lambda data, result: result == S.RABIN(data, _i)}
    ensures = lambda data, result: result == S.HEX_LE8(S.RABIN(data, len(data)))
    uses_locals = ["result", "fp_table"]


@target("fastavro/_schema_py.py", "fingerprint")
class fingerprint:
    """dispatch: unknown names raise ValueError; CRC-64-AVRO goes to rabin_fingerprint; the
    Java spellings are mapped; everything else is the hashlib digest"""
    types = dict(parsing_canonical_form="str", algorithm="str")
    returns = "str"
    modifies = []
    raises = [R("ValueError", when=lambda algorithm: not S.ADVERTISED(algorithm))]
    ensures = lambda parsing_canonical_form, algorithm, result: result == S.FINGERPRINT(parsing_canonical_form, algorithm)
