"""Contract of `_inject_schema` (C19): the per-file loader's "inline the loaded type at its first use"."""
from pyvc.contracts import target, R, implies, same
import spec.inject as J

SP = "fastavro/_schema_py.py"


@target(SP, "_inject_schema")
class _inject_schema:
    """returns (INJ(outer, inner, ns), whether a reference was found); a dict `outer` is the object that is returned
    (the caller `_parse_schema_with_repo` relies on that for dict schemas); once something has been injected
    (is_injected) nothing is touched.
    Data model: values, not objects -- two sub-schemas that are the same object are not distinguished from equal ones."""
    types = dict(outer_schema="py", inner_schema="dict", ns="str", is_injected="bool")
    requires = lambda outer_schema, inner_schema, ns, is_injected: (
        J.INJ_WF(outer_schema) and "name" in inner_schema and isinstance(inner_schema["name"], str))
    modifies = ["outer_schema"]
    returns = "tuple"
    call_behaviors = dict(schema_name="default")
    uses_locals = ["union", "fields", "is_injected", "namespace", "outer_schema"]
    loops = {
        0: lambda outer_schema, inner_schema, ns, union, is_injected: (
            J.INJ_WF_ALL(outer_schema, _i)
            and same(union, J.INJ_PRE(outer_schema, _i, inner_schema, ns))
            and is_injected == J.REFS_PRE(outer_schema, _i, inner_schema["name"], ns)),
        1: lambda outer_schema, inner_schema, ns, fields, is_injected, namespace: (
            J.INJ_WF_FIELDS(old.outer_schema.get("fields", []), _i)
            and same(outer_schema, old.outer_schema)
            and namespace == J.NSOF(old.outer_schema, ns)
            and same(fields, J.INJF_PRE(old.outer_schema.get("fields", []), _i, inner_schema, namespace))
            and is_injected == J.REFSF_PRE(old.outer_schema.get("fields", []), _i, inner_schema["name"], namespace)),
    }
    ensures = lambda outer_schema, inner_schema, ns, is_injected, result: (
        len(result) == 2
        and implies(old.is_injected, same(result[0], old.outer_schema) and same(result[1], True))
        and implies(not old.is_injected,
                    same(result[0], J.INJ(old.outer_schema, inner_schema, ns))
                    and same(result[1], J.REFS(old.outer_schema, inner_schema["name"], ns)))
        and implies(isinstance(old.outer_schema, dict), same(outer_schema, result[0])))
