"""Contracts for helper functions of fastavro/_schema_py.py used by the validators and writers."""
from pyvc.contracts import target, R, implies, same
import spec.core as S
import spec.avro as A

SP = "fastavro/_schema_py.py"


@target(SP, "schema_name")
class schema_name:
    """C11 ("Names"): (namespace, full name) of a named schema -- a dotted name is already full and its
    namespace is the part before the last dot; otherwise the schema's own namespace, else the enclosing
    one, qualifies it; without any namespace the name stands alone"""
    types = dict(schema="dict", parent_ns="py")
    returns = "tuple"
    modifies = []
    requires = lambda schema, parent_ns: (
        "name" in schema and isinstance(schema["name"], str)
        and isinstance(schema.get("namespace", parent_ns), str))
    ensures = lambda schema, parent_ns, result: (
        len(result) == 2
        and implies("." in schema["name"],
                    result[1] == schema["name"] and result[0] == S.str_rsplit(schema["name"], ".", 1)[0])
        and implies("." not in schema["name"] and schema.get("namespace", parent_ns) != "",
                    result[0] == schema.get("namespace", parent_ns)
                    and result[1] == schema.get("namespace", parent_ns) + "." + schema["name"])
        and implies("." not in schema["name"] and schema.get("namespace", parent_ns) == "",
                    result[0] == "" and result[1] == schema["name"]))


@target(SP, "schema_name", behavior="anyns")
class schema_name_anyns:
    """with an arbitrary second argument (the validators pass the path of the field being validated): a pair"""
    types = dict(schema="dict", parent_ns="py")
    returns = "tuple"
    modifies = []
    requires = lambda schema: "name" in schema and isinstance(schema["name"], str)
    ensures = lambda result: len(result) == 2


import spec.canon as K


@target(SP, "_to_parsing_canonical_form")
class to_pcf:
    """C13: the text appended is exactly the Parsing Canonical Form of the (parsed) schema"""
    types = dict(schema="py", fo="TextOutStream")
    requires = lambda schema, fo: K.CANON_WF(schema) and fo.pos == len(fo.data)
    modifies = ["fo"]
    ensures = lambda schema, fo, result: fo.data == old.fo.data + K.PCF(schema) and fo.pos == len(fo.data)
    loops = {
        0: lambda schema, fo: (
            K.CANON_WF_ALL(schema, _i) and fo.pos == len(fo.data)
            and fo.data == old.fo.data + "[" + K.PCF_BRANCHES(schema, _i)),
        1: lambda schema, fo: (
            K.STRS(schema["symbols"], _i) and fo.pos == len(fo.data)
            and fo.data == old.fo.data + '{"name":"' + schema["name"] + '","type":"enum","symbols":['
            + K.PCF_SYMBOLS(schema["symbols"], _i)),
        2: lambda schema, fo: (
            K.CANON_WF_FIELDS(schema["fields"], _i) and fo.pos == len(fo.data)
            and fo.data == old.fo.data + '{"name":"' + schema["name"] + '","type":"record","fields":['
            + K.PCF_FIELDS(schema["fields"], _i)),
    }


@target(SP, "parse_schema", behavior="parsed")
class parse_schema_parsed:
    """C12: parsing an already parsed schema returns it unchanged and merges the name table it carries into the
    caller's, entry by entry.  (Data values have no object identity in the logic: 'unchanged' is equality of
    value here; that the very same object comes back is checked by the bounded stand-in.)"""
    types = dict(schema="dict", named_schemas="dict", expand="bool", _write_hint="bool", _force="bool",
                 _ignore_default_error="bool")
    requires = lambda schema, named_schemas, expand, _force: (
        "__fastavro_parsed" in schema and "__named_schemas" in schema and isinstance(schema["__named_schemas"], dict)
        and not _force and not expand)
    modifies = ["named_schemas"]
    ensures = lambda schema, named_schemas, result: (
        same(result, schema)
        and named_schemas == K.MERGED(old.named_schemas, schema["__named_schemas"], len(schema["__named_schemas"])))
    loops = {0: lambda schema, named_schemas: (
        named_schemas == K.MERGED(old.named_schemas, schema["__named_schemas"], _i))}


@target(SP, "_default_matches_schema")
class default_matches_schema:
    """C11 (defaults): a field default is accepted exactly when it has the JSON kind the field's type expects"""
    types = dict(default="py", schema="py")
    returns = "bool"
    modifies = []
    requires = lambda default, schema: (
        # the default is a JSON value (no bytes, tuples, sets)
        (default is None or isinstance(default, (bool, int, float, str, list, dict)))
        and not isinstance(schema, list)
        and implies(isinstance(schema, dict), "type" in schema and not isinstance(schema["type"], (list, dict))))
    ensures = lambda default, schema, result: result == K.DEFAULT_MATCHES(default, schema)


@target(SP, "_maybe_float")
class maybe_float:
    """float(value) where float() accepts it, the value itself otherwise"""
    types = dict(value="py")
    modifies = []
    requires = lambda value: value is None or isinstance(value, (bool, int, float, str, list, dict))
    ensures = lambda value, result: (
        implies(isinstance(value, (bool, int, float)) or (isinstance(value, str) and S.f_str_parses(value)),
                isinstance(result, float))
        and implies(not (isinstance(value, (bool, int, float)) or (isinstance(value, str) and S.f_str_parses(value))),
                    same(result, value)))
