"""Contracts for helper functions of fastavro/_schema_py.py used by the validators and writers."""
from pyvc.contracts import target, R, implies
import spec.core as S
import spec.avro as A

SP = "fastavro/_schema_py.py"


@target(SP, "schema_name")
class schema_name:
    """(namespace, full name) of a named schema: a dotted name is already full; otherwise the
    schema's own namespace, else the enclosing one, qualifies it"""
    types = dict(schema="dict", parent_ns="py")
    returns = "tuple"
    modifies = []
    requires = lambda schema: "name" in schema and isinstance(schema["name"], str)
    ensures = lambda schema, parent_ns, result: len(result) == 2
