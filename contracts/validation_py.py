"""Contracts for fastavro/_validation_py.py (C10, and the '-type' / tuple clauses of C09).

Every validator returns exactly `VALID(datum, schema, names, options)` -- the property's
predicate, spec/avro.py -- in the non-raising mode; in the raising mode it raises
ValidationError exactly when VALID is false (behaviour "raising").

Domain: parsed schemas without logical types (`WF`) whose field defaults are valid Python data
for their type (`DEFAULTS_DATA`): validate checks an absent field's default as data, which is
known finding KF12 and is reported by the bounded stand-in; on `DEFAULTS_DATA` schemas the check
is invisible and `VALID` is what the statement says.
"""
from pyvc.contracts import target, R, implies
from pyvc.dsl import seq_items
import spec.core as S
import spec.avro as A

VP = "fastavro/_validation_py.py"


@target(VP, "_validate_null")
class _validate_null:
    types = dict(datum="py")
    returns = "bool"
    modifies = []
    ensures = lambda datum, result: result == A.VALID(datum, "null", {}, {})


@target(VP, "_validate_boolean")
class _validate_boolean:
    types = dict(datum="py")
    returns = "bool"
    modifies = []
    ensures = lambda datum, result: result == A.VALID(datum, "boolean", {}, {})


@target(VP, "_validate_string")
class _validate_string:
    types = dict(datum="py")
    returns = "bool"
    modifies = []
    ensures = lambda datum, result: result == A.VALID(datum, "string", {}, {})


@target(VP, "_validate_bytes")
class _validate_bytes:
    types = dict(datum="py")
    returns = "bool"
    modifies = []
    ensures = lambda datum, result: result == A.VALID(datum, "bytes", {}, {})


@target(VP, "_validate_int")
class _validate_int:
    types = dict(datum="py")
    returns = "bool"
    modifies = []
    ensures = lambda datum, result: result == A.VALID(datum, "int", {}, {})


@target(VP, "_validate_long")
class _validate_long:
    types = dict(datum="py")
    returns = "bool"
    modifies = []
    ensures = lambda datum, result: result == A.VALID(datum, "long", {}, {})


@target(VP, "_validate_float")
class _validate_float:
    types = dict(datum="py")
    returns = "bool"
    modifies = []
    ensures = lambda datum, result: result == A.VALID(datum, "float", {}, {}) and result == A.VALID(datum, "double", {}, {})


@target(VP, "_validate_fixed")
class _validate_fixed:
    types = dict(datum="py", schema="dict")
    returns = "bool"
    modifies = []
    requires = lambda schema: A.TYPE(schema) == "fixed" and A.WF(schema, {})
    ensures = lambda datum, schema, result: result == A.VALID(datum, schema, {}, {})


@target(VP, "_validate_enum")
class _validate_enum:
    types = dict(datum="py", schema="dict")
    returns = "bool"
    modifies = []
    requires = lambda schema: A.TYPE(schema) == "enum" and A.WF(schema, {})
    ensures = lambda datum, schema, result: result == A.VALID(datum, schema, {}, {})


@target(VP, "_validate_array")
class _validate_array:
    types = dict(datum="py", schema="dict", named_schemas="dict", parent_ns="py", raise_errors="bool", options="dict")
    returns = "bool"
    modifies = []
    requires = lambda schema, named_schemas, raise_errors, options: (
        A.TYPE(schema) == "array" and A.WF(schema, named_schemas) and A.DEFAULTS_DATA(schema, named_schemas, options)
        and not raise_errors)
    ensures = lambda datum, schema, named_schemas, options, result: result == A.VALID(datum, schema, named_schemas, options)
    loops = {"comp0": lambda datum, schema, named_schemas, options: (
        _acc and A.ALL_VALID(seq_items(datum), schema["items"], named_schemas, options, 0)
        == A.ALL_VALID(seq_items(datum), schema["items"], named_schemas, options, _i))}


@target(VP, "_validate_map")
class _validate_map:
    types = dict(datum="py", schema="dict", named_schemas="dict", parent_ns="py", raise_errors="bool", options="dict")
    returns = "bool"
    modifies = []
    requires = lambda schema, named_schemas, raise_errors, options: (
        A.TYPE(schema) == "map" and A.WF(schema, named_schemas) and A.DEFAULTS_DATA(schema, named_schemas, options)
        and not raise_errors)
    ensures = lambda datum, schema, named_schemas, options, result: result == A.VALID(datum, schema, named_schemas, options)
    loops = {
        "comp0": lambda datum: _acc and A.ALL_STR(list(datum), 0) == A.ALL_STR(list(datum), _i),
        "comp1": lambda datum, schema, named_schemas, options: (
            _acc and A.ALL_VALID(list(datum.values()), schema["values"], named_schemas, options, 0)
            == A.ALL_VALID(list(datum.values()), schema["values"], named_schemas, options, _i))}


@target(VP, "_validate_record")
class _validate_record:
    call_behaviors = dict(schema_name="anyns")
    types = dict(datum="py", schema="dict", named_schemas="dict", parent_ns="py", raise_errors="bool", options="dict")
    returns = "bool"
    modifies = []
    requires = lambda schema, named_schemas, raise_errors, options: (
        (A.TYPE(schema) == "record" or A.TYPE(schema) == "error") and A.WF(schema, named_schemas)
        and A.DEFAULTS_DATA(schema, named_schemas, options) and not raise_errors)
    ensures = lambda datum, schema, named_schemas, options, result: result == A.VALID(datum, schema, named_schemas, options)
    loops = {"comp0": lambda datum, schema, named_schemas, options: (
        _acc and A.WF_FIELDS(schema["fields"], named_schemas, _i)
        and A.DEFAULTS_DATA_FIELDS(schema["fields"], named_schemas, options, _i)
        and A.FIELDS_VALID(schema["fields"], datum, named_schemas, options, 0)
        == A.FIELDS_VALID(schema["fields"], datum, named_schemas, options, _i))}


@target(VP, "_validate_union")
class _validate_union:
    types = dict(datum="py", schema="list", named_schemas="dict", parent_ns="py", raise_errors="bool", options="dict")
    returns = "bool"
    modifies = []
    requires = lambda datum, schema, named_schemas, raise_errors, options: (
        datum is not NoValue
        and A.WF(schema, named_schemas) and A.DEFAULTS_DATA(schema, named_schemas, options) and not raise_errors)
    ensures = lambda datum, schema, named_schemas, options, result: result == A.VALID(datum, schema, named_schemas, options)
    uses_locals = ["name"]
    loops = {
        # the (name, value) search: no branch before _i carries the name
        0: lambda schema, named_schemas, options, name: (
            A.WF_BRANCHES(schema, named_schemas, _i) and A.DEFAULTS_DATA_BRANCHES(schema, named_schemas, options, _i)
            and A.HINTED(schema, name, 0) == A.HINTED(schema, name, _i)),
        # first passing branch: none of the branches before _i accepts the datum
        1: lambda datum, schema, named_schemas, options: (
            A.WF_BRANCHES(schema, named_schemas, _i) and A.DEFAULTS_DATA_BRANCHES(schema, named_schemas, options, _i)
            and A.ANY_VALID(datum, schema, named_schemas, options, 0) == A.ANY_VALID(datum, schema, named_schemas, options, _i))}


@target(VP, "_validate")
class _validate:
    """dispatcher: NoValue (an absent field without default) stands for None, and is rejected in strict mode"""
    unfold_here = ["NS_CLEAN"]     # WF(schema, {}) of the fixed / enum validators: NS_CLEAN({})
    types = dict(datum="py", schema="py", named_schemas="dict", field="py", raise_errors="bool", options="dict")
    returns = "bool"
    modifies = []
    requires = lambda schema, named_schemas, raise_errors, options: (
        A.WF(schema, named_schemas) and implies(isinstance(schema, dict), "logicalType" not in schema)
        and A.DEFAULTS_DATA(schema, named_schemas, options) and not raise_errors)
    ensures = lambda datum, schema, named_schemas, options, result: (
        implies(datum is not NoValue, result == A.VALID(datum, schema, named_schemas, options))
        and implies(datum is NoValue, result == ((not options.get("strict")) and A.VALID(None, schema, named_schemas, options))))


# ------------------------------------------------------------------ raising mode
# raise_errors=True: ValidationError is raised only for data that is not VALID, and `_validate`
# (the dispatcher every caller goes through) raises for every such datum: "raising ValidationError
# in precisely the False cases when asked to raise".

@target(VP, "_validate_array", behavior="raising")
class _validate_array_raising:
    types = dict(datum="py", schema="dict", named_schemas="dict", parent_ns="py", raise_errors="bool", options="dict")
    returns = "bool"
    modifies = []
    requires = lambda datum, schema, named_schemas, raise_errors, options: (
        datum is not NoValue and A.TYPE(schema) == "array" and A.WF(schema, named_schemas)
        and A.DEFAULTS_DATA(schema, named_schemas, options) and raise_errors)
    raises = [R("ValidationError", must=False,
                when=lambda datum, schema, named_schemas, options: not A.VALID(datum, schema, named_schemas, options))]
    ensures = lambda datum, schema, named_schemas, options, result: result == A.VALID(datum, schema, named_schemas, options)
    loops = {"comp0": lambda datum, schema, named_schemas, options: (
        _acc and A.ALL_VALID(seq_items(datum), schema["items"], named_schemas, options, 0)
        == A.ALL_VALID(seq_items(datum), schema["items"], named_schemas, options, _i))}


@target(VP, "_validate_map", behavior="raising")
class _validate_map_raising:
    types = dict(datum="py", schema="dict", named_schemas="dict", parent_ns="py", raise_errors="bool", options="dict")
    returns = "bool"
    modifies = []
    requires = lambda datum, schema, named_schemas, raise_errors, options: (
        datum is not NoValue and A.TYPE(schema) == "map" and A.WF(schema, named_schemas)
        and A.DEFAULTS_DATA(schema, named_schemas, options) and raise_errors)
    raises = [R("ValidationError", must=False,
                when=lambda datum, schema, named_schemas, options: not A.VALID(datum, schema, named_schemas, options))]
    ensures = lambda datum, schema, named_schemas, options, result: result == A.VALID(datum, schema, named_schemas, options)
    loops = {
        "comp0": lambda datum: _acc and A.ALL_STR(list(datum), 0) == A.ALL_STR(list(datum), _i),
        "comp1": lambda datum, schema, named_schemas, options: (
            _acc and A.ALL_VALID(list(datum.values()), schema["values"], named_schemas, options, 0)
            == A.ALL_VALID(list(datum.values()), schema["values"], named_schemas, options, _i))}


@target(VP, "_validate_record", behavior="raising")
class _validate_record_raising:
    call_behaviors = dict(schema_name="anyns")
    types = dict(datum="py", schema="dict", named_schemas="dict", parent_ns="py", raise_errors="bool", options="dict")
    returns = "bool"
    modifies = []
    requires = lambda datum, schema, named_schemas, raise_errors, options: (
        datum is not NoValue
        and (A.TYPE(schema) == "record" or A.TYPE(schema) == "error") and A.WF(schema, named_schemas)
        and A.DEFAULTS_DATA(schema, named_schemas, options) and raise_errors)
    raises = [R("ValidationError", must=False,
                when=lambda datum, schema, named_schemas, options: not A.VALID(datum, schema, named_schemas, options))]
    ensures = lambda datum, schema, named_schemas, options, result: result == A.VALID(datum, schema, named_schemas, options)
    loops = {"comp0": lambda datum, schema, named_schemas, options: (
        _acc and A.WF_FIELDS(schema["fields"], named_schemas, _i)
        and A.DEFAULTS_DATA_FIELDS(schema["fields"], named_schemas, options, _i)
        and A.FIELDS_VALID(schema["fields"], datum, named_schemas, options, 0)
        == A.FIELDS_VALID(schema["fields"], datum, named_schemas, options, _i))}


@target(VP, "_validate_union", behavior="raising")
class _validate_union_raising:
    types = dict(datum="py", schema="list", named_schemas="dict", parent_ns="py", raise_errors="bool", options="dict")
    returns = "bool"
    modifies = []
    requires = lambda datum, schema, named_schemas, raise_errors, options: (
        datum is not NoValue
        and A.WF(schema, named_schemas) and A.DEFAULTS_DATA(schema, named_schemas, options) and raise_errors)
    raises = [R("ValidationError", must=False,
                when=lambda datum, schema, named_schemas, options: not A.VALID(datum, schema, named_schemas, options))]
    ensures = lambda datum, schema, named_schemas, options, result: result == A.VALID(datum, schema, named_schemas, options)
    uses_locals = ["name"]
    loops = {
        0: lambda schema, named_schemas, options, name: (
            A.WF_BRANCHES(schema, named_schemas, _i) and A.DEFAULTS_DATA_BRANCHES(schema, named_schemas, options, _i)
            and A.HINTED(schema, name, 0) == A.HINTED(schema, name, _i)),
        1: lambda datum, schema, named_schemas, options: (
            A.WF_BRANCHES(schema, named_schemas, _i) and A.DEFAULTS_DATA_BRANCHES(schema, named_schemas, options, _i)
            and A.ANY_VALID(datum, schema, named_schemas, options, 0) == A.ANY_VALID(datum, schema, named_schemas, options, _i))}


@target(VP, "_validate", behavior="raising")
class _validate_raising:
    """raises ValidationError exactly for data that is not VALID; returns True otherwise"""
    unfold_here = ["NS_CLEAN"]     # WF(schema, {}) of the fixed / enum validators: NS_CLEAN({})
    types = dict(datum="py", schema="py", named_schemas="dict", field="py", raise_errors="bool", options="dict")
    returns = "bool"
    modifies = []
    requires = lambda schema, named_schemas, raise_errors, options: (
        A.WF(schema, named_schemas) and implies(isinstance(schema, dict), "logicalType" not in schema)
        and A.DEFAULTS_DATA(schema, named_schemas, options) and raise_errors)
    raises = [R("ValidationError", when=lambda datum, schema, named_schemas, options: (
        (datum is not NoValue and not A.VALID(datum, schema, named_schemas, options))
        or (datum is NoValue and not ((not options.get("strict")) and A.VALID(None, schema, named_schemas, options)))))]
    ensures = lambda result: result == True
