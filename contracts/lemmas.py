"""Lemmas: inductions the SMT solver does not do unprompted, written as ghost
recursive functions with a `decreases` measure and verified by the same executor
(the lemma's own contract is the induction hypothesis at the recursive call)."""
from pyvc.contracts import lemma, implies, same
from pyvc.dsl import dset
import spec.core as S
import spec.avro as A


@lemma("wf_branch_at")
class wf_branch_at:
    """every branch of a well-formed union is a well-formed non-union schema"""
    types = dict(u="list", ns="dict", k="int", i="int")
    requires = lambda u, ns, k, i: A.WF_BRANCHES(u, ns, k) and 0 <= k and k <= i and i < len(u)
    ensures = lambda u, ns, k, i: A.WF(u[i], ns) and not isinstance(u[i], list)
    decreases = lambda u, ns, k, i: i - k

    def body(u, ns, k, i):
        if k < i:
            wf_branch_at(u, ns, k + 1, i)


@lemma("rec_branch_shape")
class rec_branch_shape:
    """a well-formed union branch that is a record (inline or by name) denotes a record definition:
    a dict without logical type whose "fields" is a well-formed field list"""
    types = dict(b="py", ns="dict")
    unfold_here = ["NS_CLEAN"]
    requires = lambda b, ns: A.WF(b, ns) and not isinstance(b, list) and A.IS_REC(b, ns)
    ensures = lambda b, ns: (
        isinstance(A.BDEF(b, ns), dict) and A.TYPE(A.BDEF(b, ns)) == "record"
        and "logicalType" not in A.BDEF(b, ns)
        and "fields" in A.BDEF(b, ns) and isinstance(A.BDEF(b, ns)["fields"], list)
        and A.WF_FIELDS(A.BDEF(b, ns)["fields"], ns, 0))

    def body(b, ns):
        pass


@lemma("valid_rec_is_dict")
class valid_rec_is_dict:
    """only mappings validate against a record branch"""
    types = dict(d="py", b="py", ns="dict", o="dict")
    unfold_here = ["NS_CLEAN"]
    requires = lambda d, b, ns, o: (
        A.WF(b, ns) and not isinstance(b, list) and A.IS_REC(b, ns) and A.VALID(d, b, ns, o))
    ensures = lambda d, b, ns, o: isinstance(d, dict)

    def body(d, b, ns, o):
        pass


@lemma("dd_branch_at")
class dd_branch_at:
    """every branch of a union whose defaults are data has defaults that are data"""
    types = dict(u="list", ns="dict", o="dict", k="int", i="int")
    requires = lambda u, ns, o, k, i: A.DEFAULTS_DATA_BRANCHES(u, ns, o, k) and 0 <= k and k <= i and i < len(u)
    ensures = lambda u, ns, o, k, i: A.DEFAULTS_DATA(u[i], ns, o)
    decreases = lambda u, ns, o, k, i: i - k

    def body(u, ns, o, k, i):
        if k < i:
            dd_branch_at(u, ns, o, k + 1, i)


@lemma("any_valid_at")
class any_valid_at:
    """a datum that validates against branch i validates against the union (searching from k <= i)"""
    types = dict(d="py", u="list", ns="dict", o="dict", k="int", i="int")
    requires = lambda d, u, ns, o, k, i: 0 <= k and k <= i and i < len(u) and A.VALID(d, u[i], ns, o)
    ensures = lambda d, u, ns, o, k, i: A.ANY_VALID(d, u, ns, o, k)
    decreases = lambda d, u, ns, o, k, i: i - k

    def body(d, u, ns, o, k, i):
        if k < i:
            any_valid_at(d, u, ns, o, k + 1, i)


@lemma("all_str_at")
class all_str_at:
    """every element of a list of strings is a string"""
    types = dict(xs="list", k="int", i="int")
    requires = lambda xs, k, i: A.ALL_STR(xs, k) and 0 <= k and k <= i and i < len(xs)
    ensures = lambda xs, k, i: isinstance(xs[i], str)
    decreases = lambda xs, k, i: i - k

    def body(xs, k, i):
        if k < i:
            all_str_at(xs, k + 1, i)


@lemma("genok_at")
class genok_at:
    types = dict(u="list", ns="dict", k="int", i="int")
    requires = lambda u, ns, k, i: A.GENOK_ALL(u, ns, k) and 0 <= k and k <= i and i < len(u)
    ensures = lambda u, ns, k, i: A.GENOK(u[i], ns)
    decreases = lambda u, ns, k, i: i - k

    def body(u, ns, k, i):
        if k < i:
            genok_at(u, ns, k + 1, i)


@lemma("allvalid_r_append")
class allvalid_r_append:
    """appending an element does not disturb what is known about the elements before it"""
    types = dict(xs="list", x="py", s="py", ns="dict", o="dict", hi="int")
    opaque_here = ["VALID"]
    requires = lambda xs, x, s, ns, o, hi: 0 <= hi and hi <= len(xs) and A.ALL_VALID_R(xs, s, ns, o, hi)
    ensures = lambda xs, x, s, ns, o, hi: A.ALL_VALID_R(xs + [x], s, ns, o, hi)
    decreases = lambda xs, x, s, ns, o, hi: hi

    def body(xs, x, s, ns, o, hi):
        if hi > 0:
            allvalid_r_append(xs, x, s, ns, o, hi - 1)
            nth_concat_left(xs, [x], hi - 1)


@lemma("allvalid_bridge")
class allvalid_bridge:
    """'the first hi validate' and 'those from hi on validate' give 'all validate'"""
    types = dict(xs="list", s="py", ns="dict", o="dict", hi="int")
    opaque_here = ["VALID"]
    requires = lambda xs, s, ns, o, hi: (
        0 <= hi and hi <= len(xs) and A.ALL_VALID_R(xs, s, ns, o, hi) and A.ALL_VALID(xs, s, ns, o, hi))
    ensures = lambda xs, s, ns, o, hi: A.ALL_VALID(xs, s, ns, o, 0)
    decreases = lambda xs, s, ns, o, hi: hi

    def body(xs, s, ns, o, hi):
        if hi > 0:
            allvalid_bridge(xs, s, ns, o, hi - 1)


@lemma("allstr_r_append")
class allstr_r_append:
    types = dict(xs="list", x="py", hi="int")
    requires = lambda xs, x, hi: 0 <= hi and hi <= len(xs) and A.ALL_STR_R(xs, hi)
    ensures = lambda xs, x, hi: A.ALL_STR_R(xs + [x], hi)
    decreases = lambda xs, x, hi: hi

    def body(xs, x, hi):
        if hi > 0:
            allstr_r_append(xs, x, hi - 1)
            nth_concat_left(xs, [x], hi - 1)


@lemma("allstr_bridge")
class allstr_bridge:
    types = dict(xs="list", hi="int")
    requires = lambda xs, hi: 0 <= hi and hi <= len(xs) and A.ALL_STR_R(xs, hi) and A.ALL_STR(xs, hi)
    ensures = lambda xs, hi: A.ALL_STR(xs, 0)
    decreases = lambda xs, hi: hi

    def body(xs, hi):
        if hi > 0:
            allstr_bridge(xs, hi - 1)


# ---- three primitive facts about sequences, over plain variables (the sequence solver decides these at once);
# ---- everything below about slices, updates and dictionaries is obtained from instances of them
@lemma("nth_concat_left")
class nth_concat_left:
    types = dict(a="list", b="list", i="int")
    requires = lambda a, b, i: 0 <= i and i < len(a)
    ensures = lambda a, b, i: same((a + b)[i], a[i])

    def body(a, b, i):
        pass


@lemma("nth_concat_right")
class nth_concat_right:
    types = dict(a="list", b="list", i="int")
    requires = lambda a, b, i: len(a) <= i and i < len(a) + len(b)
    ensures = lambda a, b, i: same((a + b)[i], b[i - len(a)])

    def body(a, b, i):
        pass


@lemma("split_at")
class split_at:
    """a list is its first j elements followed by the rest"""
    types = dict(xs="list", j="int")
    requires = lambda xs, j: 0 <= j and j <= len(xs)
    ensures = lambda xs, j: same(xs, xs[:j] + xs[j:]) and len(xs[:j]) == j and len(xs[j:]) == len(xs) - j

    def body(xs, j):
        pass


@lemma("nth_at_update")
class nth_at_update:
    """overwriting position j puts the new value at position j"""
    types = dict(xs="list", j="int", v="py")
    requires = lambda xs, j, v: 0 <= j and j < len(xs)
    ensures = lambda xs, j, v: same((xs[:j] + [v] + xs[j + 1:])[j], v)

    def body(xs, j, v):
        split_at(xs, j)
        nth_concat_left(xs[:j] + [v], xs[j + 1:], j)
        nth_concat_right(xs[:j], [v], j)


@lemma("allvalid_r_replace")
class allvalid_r_replace:
    """overwriting one element by a valid one keeps 'the first hi validate'"""
    types = dict(xs="list", idx="int", v="py", s="py", ns="dict", o="dict", hi="int")
    opaque_here = ["VALID"]
    requires = lambda xs, idx, v, s, ns, o, hi: (
        0 <= idx and idx < len(xs) and 0 <= hi and hi <= len(xs)
        and A.ALL_VALID_R(xs, s, ns, o, hi) and A.VALID(v, s, ns, o))
    ensures = lambda xs, idx, v, s, ns, o, hi: A.ALL_VALID_R(xs[:idx] + [v] + xs[idx + 1:], s, ns, o, hi)
    decreases = lambda xs, idx, v, s, ns, o, hi: hi

    def body(xs, idx, v, s, ns, o, hi):
        if hi > 0:
            allvalid_r_replace(xs, idx, v, s, ns, o, hi - 1)
            # which element sits at position hi - 1 of the updated list
            if hi - 1 == idx:
                nth_at_update(xs, idx, v)
            else:
                nth_of_update(xs, idx, v, hi - 1)


@lemma("map_step")
class map_step:
    """one `d[k] = v` of a map under construction: string keys and valid values stay string keys and valid values"""
    types = dict(d="dict", k="py", v="py", s="py", ns="dict", o="dict")
    opaque_here = ["VALID"]
    requires = lambda d, k, v, s, ns, o: (
        isinstance(k, str) and A.VALID(v, s, ns, o)
        and A.ALL_STR_R(list(d), len(d)) and A.ALL_VALID_R(list(d.values()), s, ns, o, len(d)))
    ensures = lambda d, k, v, s, ns, o: (
        A.ALL_STR_R(list(dset(d, k, v)), len(dset(d, k, v)))
        and A.ALL_VALID_R(list(dset(d, k, v).values()), s, ns, o, len(dset(d, k, v))))

    def body(d, k, v, s, ns, o):
        if k in d:
            allvalid_r_replace(list(d.values()), list(d).index(k), v, s, ns, o, len(d))
        else:
            allstr_r_append(list(d), k, len(d))
            allvalid_r_append(list(d.values()), v, s, ns, o, len(d))
            assert same(list(dset(d, k, v)), list(d) + [k])
            nth_concat_right(list(d), [k], len(d))
            nth_concat_right(list(d.values()), [v], len(d))
            assert same(list(dset(d, k, v).values()), list(d.values()) + [v])


@lemma("nth_of_update")
class nth_of_update:
    """overwriting position j leaves every other position as it is"""
    types = dict(xs="list", j="int", v="py", i="int")
    requires = lambda xs, j, v, i: 0 <= j and j < len(xs) and 0 <= i and i < len(xs) and i != j
    ensures = lambda xs, j, v, i: same((xs[:j] + [v] + xs[j + 1:])[i], xs[i])

    def body(xs, j, v, i):
        split_at(xs, j)
        split_at(xs, j + 1)
        if i < j:
            nth_concat_left(xs[:j] + [v], xs[j + 1:], i)
            nth_concat_left(xs[:j], [v], i)
            nth_concat_left(xs[:j], xs[j:], i)
        else:
            nth_concat_right(xs[:j] + [v], xs[j + 1:], i)
            nth_concat_right(xs[:j + 1], xs[j + 1:], i)


@lemma("dset_other")
class dset_other:
    """d[x] = v leaves every other entry where it is and as it is"""
    types = dict(d="dict", x="py", v="py", k="py")
    requires = lambda d, x, v, k: k in d and not same(k, x)
    ensures = lambda d, x, v, k: k in dset(d, x, v) and same(A.DVAL(dset(d, x, v), k), A.DVAL(d, k))

    def body(d, x, v, k):
        i = list(d).index(k)
        assert same(list(d)[i], k)
        if x in d:
            j = list(d).index(x)
            assert same(list(d)[j], x)
            assert i != j
            assert same(list(dset(d, x, v)), list(d))
            assert same(list(dset(d, x, v).values()), list(d.values())[:j] + [v] + list(d.values())[j + 1:])
            nth_of_update(list(d.values()), j, v, i)
        else:
            assert same(list(dset(d, x, v)), list(d) + [x])
            assert same(list(dset(d, x, v).values()), list(d.values()) + [v])
            assert (list(d) + [x]).index(k) == i
            nth_concat_left(list(d.values()), [v], i)


@lemma("dset_same")
class dset_same:
    """after d[k] = v, k is present and d[k] is v"""
    types = dict(d="dict", k="py", v="py")
    ensures = lambda d, k, v: k in dset(d, k, v) and same(A.DVAL(dset(d, k, v), k), v)

    def body(d, k, v):
        if k in d:
            j = list(d).index(k)
            assert same(list(d)[j], k)
            assert same(list(dset(d, k, v)), list(d))
            assert same(list(dset(d, k, v).values()), list(d.values())[:j] + [v] + list(d.values())[j + 1:])
            nth_at_update(list(d.values()), j, v)
        else:
            assert same(list(dset(d, k, v)), list(d) + [k])
            assert same(list(dset(d, k, v).values()), list(d.values()) + [v])
            assert (list(d) + [k]).index(k) == len(d)
            nth_concat_right(list(d.values()), [v], len(d))


@lemma("rec_frame")
class rec_frame:
    """storing a value under a name that none of the first hi fields has leaves those fields as they are"""
    types = dict(fs="list", d="dict", x="py", v="py", ns="dict", o="dict", hi="int")
    opaque_here = ["VALID"]
    requires = lambda fs, d, x, v, ns, o, hi: (
        0 <= hi and hi <= len(fs) and A.REC_R(fs, d, ns, o, hi) and A.NOT_AMONG(fs, x, hi))
    ensures = lambda fs, d, x, v, ns, o, hi: A.REC_R(fs, dset(d, x, v), ns, o, hi)
    decreases = lambda fs, d, x, v, ns, o, hi: hi

    def body(fs, d, x, v, ns, o, hi):
        if hi > 0:
            rec_frame(fs, d, x, v, ns, o, hi - 1)
            dset_other(d, x, v, A.FNAME(fs, hi - 1))


@lemma("rec_bridge")
class rec_bridge:
    """'the first hi fields are present and valid' and 'the fields from hi on are valid' give 'all fields are valid'"""
    types = dict(fs="list", d="dict", ns="dict", o="dict", hi="int")
    opaque_here = ["VALID"]
    requires = lambda fs, d, ns, o, hi: (
        0 <= hi and hi <= len(fs) and A.REC_R(fs, d, ns, o, hi) and A.FIELDS_VALID(fs, d, ns, o, hi))
    ensures = lambda fs, d, ns, o, hi: A.FIELDS_VALID(fs, d, ns, o, 0)
    decreases = lambda fs, d, ns, o, hi: hi

    def body(fs, d, ns, o, hi):
        if hi > 0:
            rec_bridge(fs, d, ns, o, hi - 1)


@lemma("not_among_at")
class not_among_at:
    """a name that none of the first hi fields has is not the name of field i < hi"""
    types = dict(fs="list", x="py", hi="int", i="int")
    requires = lambda fs, x, hi, i: A.NOT_AMONG(fs, x, hi) and 0 <= i and i < hi
    ensures = lambda fs, x, hi, i: not same(A.FNAME(fs, i), x)
    decreases = lambda fs, x, hi, i: hi - i

    def body(fs, x, hi, i):
        if i < hi - 1:
            not_among_at(fs, x, hi - 1, i)


@lemma("pow2_step")
class pow2_step:
    """2**(k+1) == 2 * 2**k (pow2 unfolds seven bits at a time, so this is an induction with step 7)"""
    types = dict(k="int")
    fuel = 8
    requires = lambda k: 0 <= k
    ensures = lambda k: S.pow2(k + 1) == 2 * S.pow2(k) and S.pow2(k) >= 1
    decreases = lambda k: k

    def body(k):
        if k >= 7:
            pow2_step(k - 7)


@lemma("pow2_mono")
class pow2_mono:
    """2**a <= 2**b for a <= b"""
    types = dict(a="int", b="int")
    requires = lambda a, b: 0 <= a and a <= b
    ensures = lambda a, b: S.pow2(a) <= S.pow2(b) and S.pow2(a) >= 1
    decreases = lambda a, b: b - a

    def body(a, b):
        pow2_step(a)
        if a < b:
            pow2_mono(a, b - 1)
            pow2_step(b - 1)


@lemma("digit_at")
class digit_at:
    """every one of the first hi elements of a digit tuple is an int between 0 and 9"""
    types = dict(ds="tuple", hi="int", j="int")
    requires = lambda ds, hi, j: S.DIGITS_OK(ds, hi) and 0 <= j and j < hi
    ensures = lambda ds, hi, j: isinstance(ds[j], int) and not isinstance(ds[j], bool) and 0 <= ds[j] and ds[j] <= 9
    decreases = lambda ds, hi, j: hi

    def body(ds, hi, j):
        if j < hi - 1:
            digit_at(ds, hi - 1, j)


@lemma("pow10_pos")
class pow10_pos:
    types = dict(k="int")
    requires = lambda k: k >= 0
    ensures = lambda k: S.pow10(k) >= 1
    decreases = lambda k: k

    def body(k):
        if k > 0:
            pow10_pos(k - 1)


# ---- digit tuples extended by zeros (prepare_fixed_decimal pads the digits with exponent + scale zeros)
@lemma("tnth_left")
class tnth_left:
    types = dict(a="tuple", b="tuple", i="int")
    requires = lambda a, b, i: 0 <= i and i < len(a)
    ensures = lambda a, b, i: same((a + b)[i], a[i])

    def body(a, b, i):
        pass


@lemma("digits_prefix")
class digits_prefix:
    """DIGITS_OK / DIGVAL of the first hi elements do not depend on what follows them"""
    types = dict(a="tuple", b="tuple", hi="int")
    requires = lambda a, b, hi: 0 <= hi and hi <= len(a)
    ensures = lambda a, b, hi: S.DIGITS_OK(a + b, hi) == S.DIGITS_OK(a, hi) and S.DIGVAL(a + b, hi) == S.DIGVAL(a, hi)
    decreases = lambda a, b, hi: hi

    def body(a, b, hi):
        if hi > 0:
            digits_prefix(a, b, hi - 1)
            tnth_left(a, b, hi - 1)


@lemma("zeros_len")
class zeros_len:
    types = dict(k="int")
    requires = lambda k: k >= 0
    ensures = lambda k: len(S.repeat_tuple((0,), k)) == k
    decreases = lambda k: k

    def body(k):
        if k > 0:
            zeros_len(k - 1)


@lemma("digits_zeros")
class digits_zeros:
    """digits followed by k zeros are digits, and they write the number times 10**k"""
    types = dict(ds="tuple", k="int")
    requires = lambda ds, k: k >= 0 and S.DIGITS_OK(ds, len(ds))
    ensures = lambda ds, k: (
        len(S.repeat_tuple((0,), k)) == k
        and S.DIGITS_OK(ds + S.repeat_tuple((0,), k), len(ds) + k)
        and S.DIGVAL(ds + S.repeat_tuple((0,), k), len(ds) + k) == S.DIGVAL(ds, len(ds)) * S.pow10(k))
    decreases = lambda ds, k: k

    def body(ds, k):
        zeros_len(k)
        if k > 0:
            digits_zeros(ds, k - 1)
            zeros_len(k - 1)
            # ds + zeros(k) == (ds + zeros(k-1)) + (0,): same first len+k-1 elements, last element 0
            digits_prefix(ds + S.repeat_tuple((0,), k - 1), (0,), len(ds) + k - 1)
        else:
            digits_prefix(ds, (), len(ds))


import spec.container as C


@lemma("header_schema_ok")
class header_schema_ok:
    """the container header's schema (a literal) is well-formed and has no field defaults"""
    types = dict(o="dict")
    fuel = 8
    timeout = 60
    opaque_here = ["VALID", "SEL", "STRIP", "DEFER_DOUBLE", "FIRST_NONREC", "BEST_REC", "ENC", "CONFORMS"]
    unfold_here = ["NS_CLEAN"]
    ensures = lambda o: A.WF(C.HEADER_SCHEMA, {}) and A.DEFAULTS_DATA(C.HEADER_SCHEMA, {}, o)

    def body(o):
        pass


@lemma("bytes_valid_conform")
class bytes_valid_conform:
    """values that validate as `bytes` conform to `bytes` (two spellings of 'is a bytes object')"""
    types = dict(xs="list", k="int")
    requires = lambda xs, k: 0 <= k and A.ALL_VALID(xs, "bytes", {}, {}, k)
    ensures = lambda xs, k: A.ALL_CONFORM(xs, "bytes", {}, {}, k)
    decreases = lambda xs, k: len(xs) - k if k <= len(xs) else 0

    def body(xs, k):
        if k < len(xs):
            bytes_valid_conform(xs, k + 1)


@lemma("header_conforms")
class header_conforms:
    """a header record with a string-keyed map of bytes and a 16-byte marker conforms to the header schema"""
    types = dict(d="dict", sync="bytes")
    fuel = 8
    timeout = 60
    opaque_here = ["ALL_STR", "ALL_CONFORM", "VALID", "SEL", "STRIP", "DEFER_DOUBLE", "FIRST_NONREC", "BEST_REC", "ENC"]
    requires = lambda d, sync: (
        len(sync) == 16 and A.ALL_STR(list(d), 0) and A.ALL_CONFORM(list(d.values()), "bytes", {}, {}, 0))
    ensures = lambda d, sync: A.CONFORMS({"magic": b"Obj\x01", "meta": d, "sync": sync}, C.HEADER_SCHEMA, {}, {})

    def body(d, sync):
        pass
