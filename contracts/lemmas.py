"""Lemmas: inductions the SMT solver does not do unprompted, written as ghost
recursive functions with a `decreases` measure and verified by the same executor
(the lemma's own contract is the induction hypothesis at the recursive call)."""
from pyvc.contracts import lemma, implies
import spec.core as S
import spec.avro as A


@lemma("wf_branch_at")
class wf_branch_at:
    """every branch of a well-formed union is a well-formed non-union schema"""
    types = dict(u="list", ns="dict", k="int", i="int")
    requires = lambda u, ns, k, i: A.WF_BRANCHES(u, ns, k) and 0 <= k and k <= i and i < len(u)
    ensures = lambda u, ns, k, i: A.WF(u[i], ns) and not isinstance(u[i], list)
    decreases = lambda u, ns, k, i: i - k

    def body(u, ns, k, i):
        if k < i:
            wf_branch_at(u, ns, k + 1, i)


@lemma("rec_branch_shape")
class rec_branch_shape:
    """a well-formed union branch that is a record (inline or by name) denotes a record definition:
    a dict without logical type whose "fields" is a well-formed field list"""
    types = dict(b="py", ns="dict")
    unfold_here = ["NS_CLEAN"]
    requires = lambda b, ns: A.WF(b, ns) and not isinstance(b, list) and A.IS_REC(b, ns)
    ensures = lambda b, ns: (
        isinstance(A.BDEF(b, ns), dict) and A.TYPE(A.BDEF(b, ns)) == "record"
        and "logicalType" not in A.BDEF(b, ns)
        and "fields" in A.BDEF(b, ns) and isinstance(A.BDEF(b, ns)["fields"], list)
        and A.WF_FIELDS(A.BDEF(b, ns)["fields"], ns, 0))

    def body(b, ns):
        pass


@lemma("valid_rec_is_dict")
class valid_rec_is_dict:
    """only mappings validate against a record branch"""
    types = dict(d="py", b="py", ns="dict", o="dict")
    unfold_here = ["NS_CLEAN"]
    requires = lambda d, b, ns, o: (
        A.WF(b, ns) and not isinstance(b, list) and A.IS_REC(b, ns) and A.VALID(d, b, ns, o))
    ensures = lambda d, b, ns, o: isinstance(d, dict)

    def body(d, b, ns, o):
        pass


@lemma("dd_branch_at")
class dd_branch_at:
    """every branch of a union whose defaults are data has defaults that are data"""
    types = dict(u="list", ns="dict", o="dict", k="int", i="int")
    requires = lambda u, ns, o, k, i: A.DEFAULTS_DATA_BRANCHES(u, ns, o, k) and 0 <= k and k <= i and i < len(u)
    ensures = lambda u, ns, o, k, i: A.DEFAULTS_DATA(u[i], ns, o)
    decreases = lambda u, ns, o, k, i: i - k

    def body(u, ns, o, k, i):
        if k < i:
            dd_branch_at(u, ns, o, k + 1, i)


@lemma("any_valid_at")
class any_valid_at:
    """a datum that validates against branch i validates against the union (searching from k <= i)"""
    types = dict(d="py", u="list", ns="dict", o="dict", k="int", i="int")
    requires = lambda d, u, ns, o, k, i: 0 <= k and k <= i and i < len(u) and A.VALID(d, u[i], ns, o)
    ensures = lambda d, u, ns, o, k, i: A.ANY_VALID(d, u, ns, o, k)
    decreases = lambda d, u, ns, o, k, i: i - k

    def body(d, u, ns, o, k, i):
        if k < i:
            any_valid_at(d, u, ns, o, k + 1, i)


@lemma("leafy_at")
class leafy_at:
    types = dict(u="list", ns="dict", k="int", i="int")
    requires = lambda u, ns, k, i: A.LEAFY_ALL(u, ns, k) and 0 <= k and k <= i and i < len(u)
    ensures = lambda u, ns, k, i: A.LEAFY(u[i], ns)
    decreases = lambda u, ns, k, i: i - k

    def body(u, ns, k, i):
        if k < i:
            leafy_at(u, ns, k + 1, i)


@lemma("all_str_at")
class all_str_at:
    """every element of a list of strings is a string"""
    types = dict(xs="list", k="int", i="int")
    requires = lambda xs, k, i: A.ALL_STR(xs, k) and 0 <= k and k <= i and i < len(xs)
    ensures = lambda xs, k, i: isinstance(xs[i], str)
    decreases = lambda xs, k, i: i - k

    def body(xs, k, i):
        if k < i:
            all_str_at(xs, k + 1, i)
