"""Lemmas: inductions the SMT solver does not do unprompted, written as ghost
recursive functions with a `decreases` measure and verified by the same executor
(the lemma's own contract is the induction hypothesis at the recursive call)."""
from pyvc.contracts import lemma, implies
import spec.core as S
import spec.avro as A


@lemma("wf_branch_at")
class wf_branch_at:
    """every branch of a well-formed union is a well-formed non-union schema"""
    types = dict(u="list", ns="dict", k="int", i="int")
    requires = lambda u, ns, k, i: A.WF_BRANCHES(u, ns, k) and 0 <= k and k <= i and i < len(u)
    ensures = lambda u, ns, k, i: A.WF(u[i], ns) and not isinstance(u[i], list)
    decreases = lambda u, ns, k, i: i - k

    def body(u, ns, k, i):
        if k < i:
            wf_branch_at(u, ns, k + 1, i)
