"""Contracts for the container writer (C04, C05, C07): codec block writers and the
Writer's operations.  Each operation is specified by what it appends to the user's stream
(always at the append position -- the header is never touched) and by what it leaves in
the pending-block buffer; a failed write leaves both exactly as they were."""
from pyvc.dsl import is_data
from pyvc.contracts import target, external, R, implies, table_key
import spec.core as S
import spec.avro as A
import spec.container as C
import contracts.lemmas as L
from pyvc.contracts import same

W = "fastavro/_write_py.py"


@external("zlib.compress")
class zlib_compress:
    params = ["data", "level"]
    types = dict(data="bytes", level="py")
    returns = "bytes"
    ensures = lambda data, level, result: result == C.ZLIB(data, level)


@external("bz2.compress")
class bz2_compress:
    params = ["data"]
    types = dict(data="bytes")
    returns = "bytes"
    ensures = lambda data, result: result == C.BZ2(data)


@external("lzma.compress")
class lzma_compress:
    params = ["data"]
    types = dict(data="bytes")
    returns = "bytes"
    ensures = lambda data, result: result == C.XZ(data)


@target(W, "null_write_block")
class null_write_block:
    types = dict(encoder="BinaryEncoder", block_bytes="bytes", compression_level="py")
    requires = lambda encoder: encoder._fo.pos == len(encoder._fo.data)
    modifies = ["encoder._fo"]
    ensures = lambda encoder, block_bytes, compression_level, result: (
        encoder._fo.data == old.encoder._fo.data + C.BLOCK_PAYLOAD("null", block_bytes, compression_level)
        and encoder._fo.pos == len(encoder._fo.data))


@target(W, "deflate_write_block")
class deflate_write_block:
    types = dict(encoder="BinaryEncoder", block_bytes="bytes", compression_level="py")
    requires = lambda encoder, compression_level: (
        encoder._fo.pos == len(encoder._fo.data)
        and (compression_level is None or isinstance(compression_level, int)))
    modifies = ["encoder._fo"]
    ensures = lambda encoder, block_bytes, compression_level, result: (
        encoder._fo.data == old.encoder._fo.data + C.BLOCK_PAYLOAD("deflate", block_bytes, compression_level)
        and encoder._fo.pos == len(encoder._fo.data))


@target(W, "bzip2_write_block")
class bzip2_write_block:
    types = dict(encoder="BinaryEncoder", block_bytes="bytes", compression_level="py")
    requires = lambda encoder: encoder._fo.pos == len(encoder._fo.data)
    modifies = ["encoder._fo"]
    ensures = lambda encoder, block_bytes, compression_level, result: (
        encoder._fo.data == old.encoder._fo.data + C.BLOCK_PAYLOAD("bzip2", block_bytes, compression_level)
        and encoder._fo.pos == len(encoder._fo.data))


@target(W, "xz_write_block")
class xz_write_block:
    types = dict(encoder="BinaryEncoder", block_bytes="bytes", compression_level="py")
    requires = lambda encoder: encoder._fo.pos == len(encoder._fo.data)
    modifies = ["encoder._fo"]
    ensures = lambda encoder, block_bytes, compression_level, result: (
        encoder._fo.data == old.encoder._fo.data + C.BLOCK_PAYLOAD("xz", block_bytes, compression_level)
        and encoder._fo.pos == len(encoder._fo.data))


@target(W, "Writer.dump")
class dump:
    """emit the pending block: count, codec payload of the buffer, sync marker; empty the buffer"""
    types = dict(self="Writer")
    requires = lambda self: (
        self.encoder._fo.pos == len(self.encoder._fo.data)
        and 0 <= self.block_count and self.block_count <= S.LONG_MAX
        and (self.compression_level is None or isinstance(self.compression_level, int)))
    modifies = ["self"]
    ensures = lambda self, result: (
        self.encoder._fo.data == old.self.encoder._fo.data
        + C.BLOCK_BYTES(table_key(self.block_writer), old.self.block_count, old.self.io._fo.data,
                        self.compression_level, self.sync_marker)
        and self.encoder._fo.pos == len(self.encoder._fo.data)
        and self.io._fo.data == b"" and self.io._fo.pos == 0 and self.block_count == 0
        and self.sync_marker == old.self.sync_marker and self.sync_interval == old.self.sync_interval
        and self.compression_level == old.self.compression_level and self.schema == old.self.schema
        and self._named_schemas == old.self._named_schemas and self.options == old.self.options)


# write_data[anydatum] -- "whatever the datum, only appends, also when it raises" -- was an ASSUMED contract here; it is
# now generated together with the anydatum behaviour of every writer and encoder method and VERIFIED
# (contracts/write_anydatum.py, tools_gen_anydatum.py).


@target(W, "Writer.write")
class write:
    """a conforming record is appended to the pending block; the block is emitted when the
    buffer reaches the sync interval"""
    types = dict(self="Writer", record="py")
    requires = lambda self, record: (
        self.encoder._fo.pos == len(self.encoder._fo.data)
        and self.io._fo.pos == len(self.io._fo.data)
        and 0 <= self.block_count and self.block_count < S.LONG_MAX
        and isinstance(self.sync_interval, int)
        and (self.compression_level is None or isinstance(self.compression_level, int))
        and A.WF(self.schema, self._named_schemas)
        and implies(isinstance(self.schema, dict), "logicalType" not in self.schema)
        and A.DEFAULTS_DATA(self.schema, self._named_schemas, self.options) and is_data(record)
        and A.CONFORMS(record, self.schema, self._named_schemas, self.options)
        and not self.options.get("strict") and not self.options.get("strict_allow_default"))
    modifies = ["self"]
    raises = [R("OverflowError", must=False,
                ensures=lambda self: (self.io._fo.data == old.self.io._fo.data and self.io._fo.pos == old.self.io._fo.pos
                                      and self.block_count == old.self.block_count
                                      and self.encoder._fo.data == old.self.encoder._fo.data))]
    ensures = lambda self, record, result: (
        implies(len(old.self.io._fo.data) + len(A.ENC(self.schema, self._named_schemas, record, self.options)) >= self.sync_interval,
                self.encoder._fo.data == old.self.encoder._fo.data
                + C.BLOCK_BYTES(table_key(self.block_writer), old.self.block_count + 1,
                                old.self.io._fo.data + A.ENC(self.schema, self._named_schemas, record, self.options),
                                self.compression_level, self.sync_marker)
                and self.io._fo.data == b"" and self.io._fo.pos == 0 and self.block_count == 0)
        and implies(len(old.self.io._fo.data) + len(A.ENC(self.schema, self._named_schemas, record, self.options)) < self.sync_interval,
                    self.encoder._fo.data == old.self.encoder._fo.data
                    and self.io._fo.data == old.self.io._fo.data + A.ENC(self.schema, self._named_schemas, record, self.options)
                    and self.io._fo.pos == len(self.io._fo.data)
                    and self.block_count == old.self.block_count + 1)
        and self.encoder._fo.pos == len(self.encoder._fo.data)
        and self.sync_marker == old.self.sync_marker and self.sync_interval == old.self.sync_interval
        and self.compression_level == old.self.compression_level and self.schema == old.self.schema
        and self._named_schemas == old.self._named_schemas and self.options == old.self.options)


@target(W, "Writer.write", behavior="anydatum")
class write_anydatum:
    """C07: a write that fails contributes nothing -- buffer, count and file are as before -- whatever the record
    (any Python value); the schema is well-formed, without logical types"""
    types = dict(self="Writer", record="py")
    requires = lambda self, record: (
        is_data(record)
        and self.encoder._fo.pos == len(self.encoder._fo.data)
        and self.io._fo.pos == len(self.io._fo.data)
        and 0 <= self.block_count and self.block_count < S.LONG_MAX
        and isinstance(self.sync_interval, int)
        and (self.compression_level is None or isinstance(self.compression_level, int))
        and A.WF(self.schema, self._named_schemas)
        and implies(isinstance(self.schema, dict), "logicalType" not in self.schema)
        and A.DEFAULTS_DATA(self.schema, self._named_schemas, self.options))
    modifies = ["self"]
    call_behaviors = dict(write_data="anydatum", dump="default")
    raises = [R("Exception", must=False,
                ensures=lambda self: (self.io._fo.data == old.self.io._fo.data and self.io._fo.pos == old.self.io._fo.pos
                                      and self.block_count == old.self.block_count
                                      and self.encoder._fo.data == old.self.encoder._fo.data
                                      and self.encoder._fo.pos == old.self.encoder._fo.pos))]
    ensures = lambda self, result: self.encoder._fo.data.startswith(old.self.encoder._fo.data)


@target(W, "Writer.write", behavior="validating")
class write_validating:
    """C10: a writer with validation enabled rejects everything validate rejects (ValidationError)
    before any byte of that record is buffered or emitted; C07: nor does any other failure leave a trace"""
    types = dict(self="WriterV", record="py")
    requires = lambda self, record: (
        is_data(record)
        and self.encoder._fo.pos == len(self.encoder._fo.data)
        and self.io._fo.pos == len(self.io._fo.data)
        and 0 <= self.block_count and self.block_count < S.LONG_MAX
        and isinstance(self.sync_interval, int)
        and (self.compression_level is None or isinstance(self.compression_level, int))
        and A.WF(self.schema, self._named_schemas)
        and implies(isinstance(self.schema, dict), "logicalType" not in self.schema)
        and A.DEFAULTS_DATA(self.schema, self._named_schemas, self.options))
    modifies = ["self"]
    call_behaviors = dict(_validate="raising", write_data="anydatum", dump="default")
    raises = [R("ValidationError",
                when=lambda self, record: not A.VALID(record, self.schema, self._named_schemas, self.options),
                ensures=lambda self: (self.io._fo.data == old.self.io._fo.data and self.io._fo.pos == old.self.io._fo.pos
                                      and self.block_count == old.self.block_count
                                      and self.encoder._fo.data == old.self.encoder._fo.data
                                      and self.encoder._fo.pos == old.self.encoder._fo.pos)),
              R("Exception", must=False,
                ensures=lambda self: (self.io._fo.data == old.self.io._fo.data and self.io._fo.pos == old.self.io._fo.pos
                                      and self.block_count == old.self.block_count
                                      and self.encoder._fo.data == old.self.encoder._fo.data
                                      and self.encoder._fo.pos == old.self.encoder._fo.pos))]
    ensures = lambda self, result: self.encoder._fo.data.startswith(old.self.encoder._fo.data)


@target(W, "Writer.flush")
class flush:
    """the pending block is emitted iff it holds bytes or records (zero-byte records count)"""
    types = dict(self="Writer")
    requires = lambda self: (
        self.encoder._fo.pos == len(self.encoder._fo.data)
        and self.io._fo.pos == len(self.io._fo.data)
        and 0 <= self.block_count and self.block_count <= S.LONG_MAX
        and (self.compression_level is None or isinstance(self.compression_level, int)))
    modifies = ["self"]
    ensures = lambda self, result: (
        implies(len(old.self.io._fo.data) > 0 or old.self.block_count > 0,
                self.encoder._fo.data == old.self.encoder._fo.data
                + C.BLOCK_BYTES(table_key(self.block_writer), old.self.block_count, old.self.io._fo.data,
                                self.compression_level, self.sync_marker))
        and implies(len(old.self.io._fo.data) == 0 and old.self.block_count == 0,
                    self.encoder._fo.data == old.self.encoder._fo.data)
        and self.encoder._fo.pos == len(self.encoder._fo.data)
        and self.io._fo.data == b"" and self.block_count == 0
        and self.sync_marker == old.self.sync_marker and self.schema == old.self.schema)


@target(W, "Writer.write_block")
class write_block:
    """pending records first, then the donor block re-encoded with this file's codec and sync"""
    types = dict(self="Writer", block="Block")
    requires = lambda self, block: (
        self.encoder._fo.pos == len(self.encoder._fo.data)
        and self.io._fo.pos == len(self.io._fo.data)
        and 0 <= self.block_count and self.block_count <= S.LONG_MAX
        and S.LONG_MIN <= block.num_records and block.num_records <= S.LONG_MAX
        and (self.compression_level is None or isinstance(self.compression_level, int)))
    modifies = ["self"]
    ensures = lambda self, block, result: (
        implies(len(old.self.io._fo.data) > 0 or old.self.block_count > 0,
                self.encoder._fo.data == old.self.encoder._fo.data
                + C.BLOCK_BYTES(table_key(self.block_writer), old.self.block_count, old.self.io._fo.data,
                                self.compression_level, self.sync_marker)
                + C.BLOCK_BYTES(table_key(self.block_writer), block.num_records, block.bytes_.data,
                                self.compression_level, self.sync_marker))
        and implies(len(old.self.io._fo.data) == 0 and old.self.block_count == 0,
                    self.encoder._fo.data == old.self.encoder._fo.data
                    + C.BLOCK_BYTES(table_key(self.block_writer), block.num_records, block.bytes_.data,
                                    self.compression_level, self.sync_marker))
        and self.encoder._fo.pos == len(self.encoder._fo.data)
        and self.io._fo.data == b"" and self.block_count == 0
        and block.bytes_.data == old.block.bytes_.data)


@target(W, "write_header")
class write_header:
    """C04/C05: the header is the specification's: magic, the metadata map (values UTF-8 encoded), the sync marker, in the
    binary encoding of the header record"""
    types = dict(encoder="BinaryEncoder", metadata="dict", sync_marker="bytes")
    requires = lambda encoder, metadata, sync_marker: (
        encoder._fo.pos == len(encoder._fo.data) and len(sync_marker) == 16
        and A.ALL_STR(list(metadata), 0) and A.ALL_STR(list(metadata.values()), 0))
    modifies = ["encoder._fo"]
    opaque_here = ["SEL", "STRIP", "DEFER_DOUBLE", "FIRST_NONREC", "BEST_REC", "CONFORMS", "WF", "DEFAULTS_DATA", "ENC"]
    hints = [lambda: L.header_schema_ok({})]
    call_behaviors = dict(write_data="default")
    raises = [R("OverflowError", must=False, ensures=lambda encoder: encoder._fo.data.startswith(old.encoder._fo.data))]
    loops = {"comp0": lambda metadata: (
        same(_acc, C.META_ENC(metadata, _i))
        and A.ALL_STR(list(metadata), _i) and A.ALL_STR(list(metadata.values()), _i)
        and A.ALL_STR_R(list(_acc), len(_acc))
        and A.ALL_VALID_R(list(_acc.values()), "bytes", {}, {}, len(_acc)))}
    loop_hints = {"comp0": [lambda: L.map_step(_acc, _newkey, _newval, "bytes", {}, {})]}
    exit_hints = {"comp0": [lambda: L.allstr_bridge(list(_acc), len(_acc)),
                            lambda: L.allvalid_bridge(list(_acc.values()), "bytes", {}, {}, len(_acc)),
                            lambda: L.bytes_valid_conform(list(_acc.values()), 0),
                            lambda: L.header_conforms(_acc, sync_marker)]}
    ensures = lambda encoder, metadata, sync_marker, result: (
        encoder._fo.data == old.encoder._fo.data + C.HEADER_BYTES(metadata, sync_marker)
        and encoder._fo.pos == len(encoder._fo.data))
