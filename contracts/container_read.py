"""Contracts for the container reader (C05, C06): sync check and codec block readers.

Block readers are specified against the layout specification (spec/container.py): when what is
left of the file starts with BLOCK_PAYLOAD(codec, b, level) the reader returns an in-memory
stream holding exactly b and leaves the file at the sync marker.  skip_sync consumes the
marker or raises -- any alteration of a block's trailing marker is an error (C06)."""
from pyvc.contracts import target, external, R, implies, same
import spec.avro as A
import spec.core as S
import spec.container as C

RP = "fastavro/_read_py.py"


@external("zlib.decompressobj(-15).decompress")
class raw_inflate:
    params = ["data"]
    types = dict(data="bytes")
    returns = "bytes"
    ensures = lambda data, result: result == C.RAW_INFLATE(data)


@external("bz2.decompress")
class bz2_decompress:
    params = ["data"]
    types = dict(data="bytes")
    returns = "bytes"
    ensures = lambda data, result: result == C.BZ2_D(data)


@external("lzma.decompress")
class lzma_decompress:
    params = ["data"]
    types = dict(data="bytes")
    returns = "bytes"
    ensures = lambda data, result: result == C.XZ_D(data)


@target(RP, "skip_sync")
class skip_sync:
    """the next 16 bytes are the sync marker and are consumed; anything else (a different
    marker, a truncated one, end of file) raises ValueError"""
    types = dict(fo="InStream", sync_marker="bytes")
    requires = lambda fo, sync_marker: len(sync_marker) == 16
    modifies = ["fo"]
    raises = [R("ValueError", when=lambda fo, sync_marker: not fo.rem.startswith(sync_marker))]
    ensures = lambda fo, sync_marker, result: (
        old.fo.rem == sync_marker + fo.rem and fo.pos == old.fo.pos + 16
        and fo.data == old.fo.data and fo.eof_hit == old.fo.eof_hit and result is None)


@target(RP, "null_read_block")
class null_read_block:
    types = dict(decoder="BinaryDecoder")
    ghosts = dict(b="bytes", level="py", rest="bytes")
    requires = lambda decoder: decoder.fo.rem == C.BLOCK_PAYLOAD("null", b, level) + rest
    modifies = ["decoder.fo"]
    fresh_result = "InStream"
    call_ghosts = {"read_bytes": dict(b=lambda: C.COMP("null", b, level), rest=lambda: rest)}
    ensures = lambda decoder, result: (
        result.data == b and result.pos == 0 and result.rem == b and decoder.fo.rem == rest
        and decoder.fo.pos == old.decoder.fo.pos + len(C.BLOCK_PAYLOAD("null", b, level))
        and decoder.fo.data == old.decoder.fo.data)


@target(RP, "deflate_read_block")
class deflate_read_block:
    types = dict(decoder="BinaryDecoder")
    ghosts = dict(b="bytes", level="py", rest="bytes")
    requires = lambda decoder: decoder.fo.rem == C.BLOCK_PAYLOAD("deflate", b, level) + rest
    modifies = ["decoder.fo"]
    fresh_result = "InStream"
    call_ghosts = {"read_bytes": dict(b=lambda: C.COMP("deflate", b, level), rest=lambda: rest)}
    ensures = lambda decoder, result: (
        result.data == b and result.pos == 0 and result.rem == b and decoder.fo.rem == rest
        and decoder.fo.pos == old.decoder.fo.pos + len(C.BLOCK_PAYLOAD("deflate", b, level))
        and decoder.fo.data == old.decoder.fo.data)


@target(RP, "bzip2_read_block")
class bzip2_read_block:
    types = dict(decoder="BinaryDecoder")
    ghosts = dict(b="bytes", level="py", rest="bytes")
    requires = lambda decoder: decoder.fo.rem == C.BLOCK_PAYLOAD("bzip2", b, level) + rest
    modifies = ["decoder.fo"]
    fresh_result = "InStream"
    call_ghosts = {"read_bytes": dict(b=lambda: C.COMP("bzip2", b, level), rest=lambda: rest)}
    ensures = lambda decoder, result: (
        result.data == b and result.pos == 0 and result.rem == b and decoder.fo.rem == rest
        and decoder.fo.pos == old.decoder.fo.pos + len(C.BLOCK_PAYLOAD("bzip2", b, level))
        and decoder.fo.data == old.decoder.fo.data)


@target(RP, "xz_read_block")
class xz_read_block:
    types = dict(decoder="BinaryDecoder")
    ghosts = dict(b="bytes", level="py", rest="bytes")
    requires = lambda decoder: decoder.fo.rem == C.BLOCK_PAYLOAD("xz", b, level) + rest
    modifies = ["decoder.fo"]
    fresh_result = "InStream"
    call_behaviors = dict(read_long="bare", read_fixed="default")
    call_ghosts = {"read_long": dict(z=lambda: S.zigzag(len(C.COMP("xz", b, level))), rest=lambda: C.COMP("xz", b, level) + rest),
                   "read_fixed": dict(b=lambda: C.COMP("xz", b, level), rest=lambda: rest)}
    ensures = lambda decoder, result: (
        result.data == b and result.pos == 0 and result.rem == b and decoder.fo.rem == rest
        and decoder.fo.pos == old.decoder.fo.pos + len(C.BLOCK_PAYLOAD("xz", b, level))
        and decoder.fo.data == old.decoder.fo.data)


@target(RP, "_iter_avro_records")
class _iter_avro_records:
    """C04/C05 (reader side): for EVERY layout-valid sequence of data blocks -- any number of blocks,
    any record counts including 0, any block partition inside the records -- the iterator yields
    exactly the records the blocks denote, in file order, and stops at the end of the file."""
    types = dict(decoder="BinaryDecoder", header="dict", codec="str", writer_schema="py",
                 named_schemas="dict", reader_schema="py", options="dict")
    ghosts = dict(bl="list", level="py", sync="bytes")
    requires = lambda decoder, header, codec, writer_schema, named_schemas, reader_schema, options: (
        "sync" in header and same(header["sync"], sync) and len(sync) == 16
        and (codec == "null" or codec == "deflate" or codec == "bzip2" or codec == "xz")
        and "writer" in named_schemas and isinstance(named_schemas["writer"], dict) and reader_schema is None
        and "reader" in named_schemas and isinstance(named_schemas["reader"], dict)
        and None not in named_schemas["reader"]
        and A.WF(writer_schema, named_schemas["writer"])
        and implies(isinstance(writer_schema, dict), "logicalType" not in writer_schema)
        and A.READ_OPTS_PLAIN(options)
        and C.BLOCKS_OK(writer_schema, named_schemas["writer"], bl, 0)
        and decoder.fo.rem == C.FILE_BLOCKS(codec, writer_schema, named_schemas["writer"], bl, level, sync, 0))
    modifies = ["decoder"]
    # the argument never looks inside a record's encoding, value or schema: those go to read_data as they are
    opaque_here = ["WFW", "VALUE", "BYTES", "WF", "COMP", "DECOMP", "READ_OPTS_PLAIN"]
    call_behaviors = dict(read_long="blockstart")
    loop_ghosts = {0: dict(k=(lambda: 0, lambda: k + 1))}
    call_ghosts = {
        "read_long": dict(z=lambda: S.zigzag(bl[k][0]) if k < len(bl) else 0,
                          rest=lambda: (C.BLOCK_PAYLOAD(codec, A.ITEMS_REM(writer_schema, named_schemas["writer"], bl[k][1], 0, False), level)
                                        + sync + C.FILE_BLOCKS(codec, writer_schema, named_schemas["writer"], bl, level, sync, k + 1))
                          if k < len(bl) else b""),
        "*": dict(b=lambda: A.ITEMS_REM(writer_schema, named_schemas["writer"], bl[k][1], 0, False), level=lambda: level,
                  rest=lambda: sync + C.FILE_BLOCKS(codec, writer_schema, named_schemas["writer"], bl, level, sync, k + 1)),
        "read_data": dict(w=lambda: bl[k][1][_i],
                          rest=lambda: A.ITEMS_REM(writer_schema, named_schemas["writer"], bl[k][1], _i + 1, False)),
    }
    uses_locals = ["block_count", "block_fo"]
    loops = {
        0: lambda decoder, codec, writer_schema, named_schemas: (
            0 <= k and k <= len(bl)
            and C.BLOCKS_OK(writer_schema, named_schemas["writer"], bl, k)
            and decoder.fo.rem == C.FILE_BLOCKS(codec, writer_schema, named_schemas["writer"], bl, level, sync, k)
                and yielded == C.FILE_VALS(writer_schema, named_schemas["writer"], bl, k)),
        1: lambda decoder, codec, writer_schema, named_schemas, block_fo, block_count: (
            0 <= k and k < len(bl) and block_count == bl[k][0] and block_count == len(bl[k][1])
            and C.BLOCKS_OK(writer_schema, named_schemas["writer"], bl, k + 1)
            and A.ITEMS_WF(writer_schema, named_schemas["writer"], bl[k][1], _i, False)
            and block_fo.rem == A.ITEMS_REM(writer_schema, named_schemas["writer"], bl[k][1], _i, False)
            and decoder.fo.rem == sync + C.FILE_BLOCKS(codec, writer_schema, named_schemas["writer"], bl, level, sync, k + 1)
                and yielded == A.ITEM_VALS(C.FILE_VALS(writer_schema, named_schemas["writer"], bl, k),
                                       writer_schema, named_schemas["writer"], bl[k][1], _i)),
    }
    ensures = lambda decoder, writer_schema, named_schemas, yielded: (
        yielded == C.FILE_VALS(writer_schema, named_schemas["writer"], bl, len(bl)) and decoder.fo.rem == b"")


@target(RP, "_iter_avro_blocks")
class _iter_avro_blocks:
    """C05 (block reader): one Block per data block, carrying the block's record count and payload, and the
    reported offsets and sizes tile the file: each block starts where the previous one ended, the first at
    the end of the header, the last ends at the end of the file."""
    types = dict(decoder="BinaryDecoder", header="dict", codec="str", writer_schema="py",
                 named_schemas="dict", reader_schema="py", options="dict")
    ghosts = dict(bl="list", level="py", sync="bytes")
    requires = lambda decoder, header, codec, writer_schema, named_schemas: (
        "sync" in header and same(header["sync"], sync) and len(sync) == 16
        and (codec == "null" or codec == "deflate" or codec == "bzip2" or codec == "xz")
        and decoder.fo.pos + len(decoder.fo.rem) == len(decoder.fo.data)
        and "writer" in named_schemas and isinstance(named_schemas["writer"], dict)
        and C.BLOCKS_OK(writer_schema, named_schemas["writer"], bl, 0)
        and decoder.fo.rem == C.FILE_BLOCKS(codec, writer_schema, named_schemas["writer"], bl, level, sync, 0))
    modifies = ["decoder"]
    opaque_here = ["WFW", "VALUE", "BYTES", "WF", "COMP", "DECOMP", "ITEMS_WF", "ITEMS_REM"]
    yield_view = lambda y: (y.num_records, y.offset, y.size, y.bytes_.data)
    call_behaviors = dict(read_long="blockstart")
    loop_ghosts = {0: dict(k=(lambda: 0, lambda: k + 1))}
    call_ghosts = {
        "read_long": dict(z=lambda: S.zigzag(bl[k][0]) if k < len(bl) else 0,
                          rest=lambda: (C.BLOCK_PAYLOAD(codec, A.ITEMS_REM(writer_schema, named_schemas["writer"], bl[k][1], 0, False), level)
                                        + sync + C.FILE_BLOCKS(codec, writer_schema, named_schemas["writer"], bl, level, sync, k + 1))
                          if k < len(bl) else b""),
        "*": dict(b=lambda: A.ITEMS_REM(writer_schema, named_schemas["writer"], bl[k][1], 0, False), level=lambda: level,
                  rest=lambda: sync + C.FILE_BLOCKS(codec, writer_schema, named_schemas["writer"], bl, level, sync, k + 1)),
    }
    loops = {
        0: lambda decoder, codec, writer_schema, named_schemas: (
            0 <= k and k <= len(bl)
            and C.BLOCKS_OK(writer_schema, named_schemas["writer"], bl, k)
            and decoder.fo.data == old.decoder.fo.data
            and decoder.fo.pos + len(decoder.fo.rem) == len(decoder.fo.data)
            and decoder.fo.rem == C.FILE_BLOCKS(codec, writer_schema, named_schemas["writer"], bl, level, sync, k)
            and decoder.fo.pos == C.BLOCK_OFF(codec, writer_schema, named_schemas["writer"], bl, level, old.decoder.fo.pos, k)
            and yielded == C.BLOCK_VIEWS(codec, writer_schema, named_schemas["writer"], bl, level, old.decoder.fo.pos, k)),
    }
    ensures = lambda decoder, codec, writer_schema, named_schemas, yielded: (
        yielded == C.BLOCK_VIEWS(codec, writer_schema, named_schemas["writer"], bl, level, old.decoder.fo.pos, len(bl))
        and decoder.fo.rem == b""
        and decoder.fo.pos == C.BLOCK_OFF(codec, writer_schema, named_schemas["writer"], bl, level, old.decoder.fo.pos, len(bl))
        and decoder.fo.pos == len(decoder.fo.data))


@target(RP, "Block.__iter__")
class block_iter:
    """the records of one block, in order"""
    types = dict(self="ReadBlock")
    ghosts = dict(ws="list")
    requires = lambda self: (
        self.num_records == len(ws)
        and "writer" in self._named_schemas and isinstance(self._named_schemas["writer"], dict) and self.reader_schema is None
        and "reader" in self._named_schemas and isinstance(self._named_schemas["reader"], dict)
        and None not in self._named_schemas["reader"]
        and A.WF(self.writer_schema, self._named_schemas["writer"])
        and implies(isinstance(self.writer_schema, dict), "logicalType" not in self.writer_schema)
        and A.READ_OPTS_PLAIN(self.options)
        and A.ITEMS_WF(self.writer_schema, self._named_schemas["writer"], ws, 0, False)
        and self.bytes_.rem == A.ITEMS_REM(self.writer_schema, self._named_schemas["writer"], ws, 0, False))
    modifies = ["self.bytes_"]
    opaque_here = ["WFW", "VALUE", "BYTES", "WF", "READ_OPTS_PLAIN"]
    call_ghosts = {"read_data": dict(w=lambda: ws[_i],
                                     rest=lambda: A.ITEMS_REM(self.writer_schema, self._named_schemas["writer"], ws, _i + 1, False))}
    loops = {0: lambda self: (
        A.ITEMS_WF(self.writer_schema, self._named_schemas["writer"], ws, _i, False)
        and self.bytes_.rem == A.ITEMS_REM(self.writer_schema, self._named_schemas["writer"], ws, _i, False)
        and yielded == A.ITEM_VALS([], self.writer_schema, self._named_schemas["writer"], ws, _i))}
    ensures = lambda self, yielded: (
        yielded == A.ITEM_VALS([], self.writer_schema, self._named_schemas["writer"], ws, len(ws)) and self.bytes_.rem == b"")


@target(RP, "is_avro")
class is_avro:
    """C05: true exactly for inputs that begin with the four magic bytes 'Obj' 0x01 (buffer argument)"""
    types = dict(path_or_buffer="InStream")
    returns = "bool"
    modifies = ["path_or_buffer"]
    ensures = lambda path_or_buffer, result: result == old.path_or_buffer.rem.startswith(b"Obj\x01")


# ------------------------------------------------------------------ C06: truncated / corrupted input
# Behaviour `short`: NO assumption about the bytes still to be read.  A call that returns has not had a read come back
# short; the iterators end normally only through the one place where end-of-input is the regular way to stop: the
# read of a block's record count finding nothing at all to read (read_long[short]: EOFError exactly then).  Everything
# else -- a cut inside the count, the length, the payload, the marker, a marker that differs -- propagates.


@target(RP, "null_read_block", behavior="short")
class null_read_block_short:
    types = dict(decoder="BinaryDecoder")
    modifies = ["decoder.fo"]
    fresh_result = "InStream"
    raises = [R("Exception", must=False)]
    call_behaviors = {"BinaryDecoder.*": "short"}
    ensures = lambda decoder, result: decoder.fo.data == old.decoder.fo.data and decoder.fo.eof_hit == old.decoder.fo.eof_hit


@target(RP, "deflate_read_block", behavior="short")
class deflate_read_block_short:
    types = dict(decoder="BinaryDecoder")
    modifies = ["decoder.fo"]
    fresh_result = "InStream"
    raises = [R("Exception", must=False)]
    call_behaviors = {"BinaryDecoder.*": "short"}
    ensures = lambda decoder, result: decoder.fo.data == old.decoder.fo.data and decoder.fo.eof_hit == old.decoder.fo.eof_hit


@target(RP, "bzip2_read_block", behavior="short")
class bzip2_read_block_short:
    types = dict(decoder="BinaryDecoder")
    modifies = ["decoder.fo"]
    fresh_result = "InStream"
    raises = [R("Exception", must=False)]
    call_behaviors = {"BinaryDecoder.*": "short"}
    ensures = lambda decoder, result: decoder.fo.data == old.decoder.fo.data and decoder.fo.eof_hit == old.decoder.fo.eof_hit


@target(RP, "xz_read_block", behavior="short")
class xz_read_block_short:
    types = dict(decoder="BinaryDecoder")
    modifies = ["decoder.fo"]
    fresh_result = "InStream"
    raises = [R("Exception", must=False)]
    call_behaviors = {"BinaryDecoder.*": "short", "read_long": "bareshort"}
    ensures = lambda decoder, result: decoder.fo.data == old.decoder.fo.data and decoder.fo.eof_hit == old.decoder.fo.eof_hit


@target(RP, "_iter_avro_records", behavior="short")
class _iter_avro_records_short:
    """a file cut or damaged anywhere: the iterator ends normally only when the input is exhausted exactly where a
    block would start, and until then no read has come back short (every block consumed so far was complete and its
    marker matched -- skip_sync raises otherwise)"""
    types = dict(decoder="BinaryDecoder", header="dict", codec="str", writer_schema="py",
                 named_schemas="dict", reader_schema="py", options="dict")
    ghosts = dict(sync="bytes")
    requires = lambda decoder, header, codec, writer_schema, named_schemas, reader_schema, options: (
        "sync" in header and same(header["sync"], sync) and len(sync) == 16
        and (codec == "null" or codec == "deflate" or codec == "bzip2" or codec == "xz")
        and "writer" in named_schemas and isinstance(named_schemas["writer"], dict) and reader_schema is None
        and "reader" in named_schemas and isinstance(named_schemas["reader"], dict)
        and None not in named_schemas["reader"]
        and A.WF(writer_schema, named_schemas["writer"])
        and implies(isinstance(writer_schema, dict), "logicalType" not in writer_schema)
        and A.READ_OPTS_PLAIN(options))
    modifies = ["decoder"]
    opaque_here = ["WFW", "VALUE", "BYTES", "WF", "COMP", "DECOMP", "READ_OPTS_PLAIN"]
    raises = [R("Exception", must=False)]
    call_behaviors = {"BinaryDecoder.*": "short", "read_data": "short", "skip_sync": "default",
                      "null_read_block": "short", "deflate_read_block": "short", "bzip2_read_block": "short", "xz_read_block": "short"}
    loops = {
        0: lambda decoder: decoder.fo.data == old.decoder.fo.data and decoder.fo.eof_hit == old.decoder.fo.eof_hit,
        1: lambda decoder: decoder.fo.data == old.decoder.fo.data and decoder.fo.eof_hit == old.decoder.fo.eof_hit,
    }
    ensures = lambda decoder: decoder.fo.rem == b"" and decoder.fo.data == old.decoder.fo.data


@target(RP, "_iter_avro_blocks", behavior="short")
class _iter_avro_blocks_short:
    types = dict(decoder="BinaryDecoder", header="dict", codec="str", writer_schema="py",
                 named_schemas="dict", reader_schema="py", options="dict")
    ghosts = dict(sync="bytes")
    requires = lambda decoder, header, codec, writer_schema, named_schemas: (
        "sync" in header and same(header["sync"], sync) and len(sync) == 16
        and (codec == "null" or codec == "deflate" or codec == "bzip2" or codec == "xz")
        and "writer" in named_schemas and isinstance(named_schemas["writer"], dict))
    modifies = ["decoder"]
    raises = [R("Exception", must=False)]
    yield_view = lambda y: (y.num_records, y.offset, y.size)
    call_behaviors = {"BinaryDecoder.*": "short", "skip_sync": "default",
                      "null_read_block": "short", "deflate_read_block": "short", "bzip2_read_block": "short", "xz_read_block": "short"}
    loops = {0: lambda decoder: decoder.fo.data == old.decoder.fo.data and decoder.fo.eof_hit == old.decoder.fo.eof_hit}
    ensures = lambda decoder: decoder.fo.rem == b"" and decoder.fo.data == old.decoder.fo.data


@target(RP, "Block.__iter__", behavior="short")
class block_iter_short:
    types = dict(self="ReadBlock")
    requires = lambda self: (
        "writer" in self._named_schemas and isinstance(self._named_schemas["writer"], dict) and self.reader_schema is None
        and "reader" in self._named_schemas and isinstance(self._named_schemas["reader"], dict)
        and None not in self._named_schemas["reader"]
        and A.WF(self.writer_schema, self._named_schemas["writer"])
        and implies(isinstance(self.writer_schema, dict), "logicalType" not in self.writer_schema)
        and A.READ_OPTS_PLAIN(self.options))
    modifies = ["self.bytes_"]
    opaque_here = ["WFW", "VALUE", "BYTES", "WF", "READ_OPTS_PLAIN"]
    raises = [R("Exception", must=False)]
    call_behaviors = {"read_data": "short"}
    loops = {0: lambda self: self.bytes_.data == old.self.bytes_.data and self.bytes_.eof_hit == old.self.bytes_.eof_hit}
    ensures = lambda self: self.bytes_.data == old.self.bytes_.data and self.bytes_.eof_hit == old.self.bytes_.eof_hit
