"""Contracts for fastavro/_read_py.py, reading without a reader schema (C01, C03).

Every reader is specified over *all* specification-valid encodings: the ghost `w` is
an arbitrary well-formed encoding derivation for the writer schema (DESIGN 3.3),
the remaining input starts with `BYTES(schema, w)`, the result is `VALUE(schema, w)`
and exactly those bytes are consumed.  The skip functions have the same
precondition and consume the same bytes.
"""
from pyvc.contracts import target, R, implies, same
import spec.core as S
import spec.avro as A
import contracts.lemmas as L

RD = "fastavro/_read_py.py"


@target(RD, "read_null")
class read_null:
    types = dict(decoder="BinaryDecoder", writer_schema="py", named_schemas="dict", reader_schema="py", options="dict")
    ghosts = dict(w="py", rest="bytes")
    requires = lambda decoder, writer_schema, named_schemas, reader_schema, options: (
        "writer" in named_schemas and isinstance(named_schemas["writer"], dict) and reader_schema is None
        and A.TYPE(writer_schema) == "null"
        and A.WFW(writer_schema, named_schemas["writer"], w)
        and decoder.fo.rem == A.BYTES(writer_schema, named_schemas["writer"], w) + rest)
    modifies = []
    ensures = lambda decoder, writer_schema, named_schemas, result: (
        result == A.VALUE(writer_schema, named_schemas["writer"], w) and decoder.fo.rem == rest
        and decoder.fo.pos == old.decoder.fo.pos + len(A.BYTES(writer_schema, named_schemas["writer"], w))
        and decoder.fo.data == old.decoder.fo.data and decoder.fo.eof_hit == old.decoder.fo.eof_hit)


@target(RD, "skip_null")
class skip_null:
    types = dict(decoder="BinaryDecoder", writer_schema="py", named_schemas="dict")
    ghosts = dict(w="py", rest="bytes")
    requires = lambda decoder, writer_schema, named_schemas: (
        "writer" in named_schemas and isinstance(named_schemas["writer"], dict)
        and A.TYPE(writer_schema) == "null"
        and A.WFW(writer_schema, named_schemas["writer"], w)
        and decoder.fo.rem == A.BYTES(writer_schema, named_schemas["writer"], w) + rest)
    modifies = []
    ensures = lambda decoder, writer_schema, named_schemas, result: (
        decoder.fo.rem == rest
        and decoder.fo.pos == old.decoder.fo.pos + len(A.BYTES(writer_schema, named_schemas["writer"], w))
        and decoder.fo.data == old.decoder.fo.data and decoder.fo.eof_hit == old.decoder.fo.eof_hit)


@target(RD, "read_boolean")
class read_boolean:
    types = dict(decoder="BinaryDecoder", writer_schema="py", named_schemas="dict", reader_schema="py", options="dict")
    ghosts = dict(w="py", rest="bytes")
    requires = lambda decoder, writer_schema, named_schemas, reader_schema, options: (
        "writer" in named_schemas and isinstance(named_schemas["writer"], dict) and reader_schema is None
        and A.TYPE(writer_schema) == "boolean"
        and A.WFW(writer_schema, named_schemas["writer"], w)
        and decoder.fo.rem == A.BYTES(writer_schema, named_schemas["writer"], w) + rest)
    modifies = ["decoder.fo"]
    call_ghosts = {"read_boolean": dict(k=lambda: w, rest=lambda: rest)}
    ensures = lambda decoder, writer_schema, named_schemas, result: (
        result == A.VALUE(writer_schema, named_schemas["writer"], w) and decoder.fo.rem == rest
        and decoder.fo.pos == old.decoder.fo.pos + len(A.BYTES(writer_schema, named_schemas["writer"], w))
        and decoder.fo.data == old.decoder.fo.data and decoder.fo.eof_hit == old.decoder.fo.eof_hit)


@target(RD, "skip_boolean")
class skip_boolean:
    types = dict(decoder="BinaryDecoder", writer_schema="py", named_schemas="dict")
    ghosts = dict(w="py", rest="bytes")
    requires = lambda decoder, writer_schema, named_schemas: (
        "writer" in named_schemas and isinstance(named_schemas["writer"], dict)
        and A.TYPE(writer_schema) == "boolean"
        and A.WFW(writer_schema, named_schemas["writer"], w)
        and decoder.fo.rem == A.BYTES(writer_schema, named_schemas["writer"], w) + rest)
    modifies = ["decoder.fo"]
    call_ghosts = {"read_boolean": dict(k=lambda: w, rest=lambda: rest)}
    ensures = lambda decoder, writer_schema, named_schemas, result: (
        decoder.fo.rem == rest
        and decoder.fo.pos == old.decoder.fo.pos + len(A.BYTES(writer_schema, named_schemas["writer"], w))
        and decoder.fo.data == old.decoder.fo.data and decoder.fo.eof_hit == old.decoder.fo.eof_hit)


@target(RD, "read_int")
class read_int:
    types = dict(decoder="BinaryDecoder", writer_schema="py", named_schemas="dict", reader_schema="py", options="dict")
    ghosts = dict(w="py", rest="bytes")
    requires = lambda decoder, writer_schema, named_schemas, reader_schema, options: (
        "writer" in named_schemas and isinstance(named_schemas["writer"], dict) and reader_schema is None
        and A.TYPE(writer_schema) == "int"
        and A.WFW(writer_schema, named_schemas["writer"], w)
        and decoder.fo.rem == A.BYTES(writer_schema, named_schemas["writer"], w) + rest)
    modifies = ["decoder.fo"]
    call_ghosts = {"read_long": dict(z=lambda: S.zigzag(w), rest=lambda: rest)}
    ensures = lambda decoder, writer_schema, named_schemas, result: (
        result == A.VALUE(writer_schema, named_schemas["writer"], w) and decoder.fo.rem == rest
        and decoder.fo.pos == old.decoder.fo.pos + len(A.BYTES(writer_schema, named_schemas["writer"], w))
        and decoder.fo.data == old.decoder.fo.data and decoder.fo.eof_hit == old.decoder.fo.eof_hit)


@target(RD, "skip_int")
class skip_int:
    types = dict(decoder="BinaryDecoder", writer_schema="py", named_schemas="dict")
    ghosts = dict(w="py", rest="bytes")
    requires = lambda decoder, writer_schema, named_schemas: (
        "writer" in named_schemas and isinstance(named_schemas["writer"], dict)
        and A.TYPE(writer_schema) == "int"
        and A.WFW(writer_schema, named_schemas["writer"], w)
        and decoder.fo.rem == A.BYTES(writer_schema, named_schemas["writer"], w) + rest)
    modifies = ["decoder.fo"]
    call_ghosts = {"read_long": dict(z=lambda: S.zigzag(w), rest=lambda: rest)}
    ensures = lambda decoder, writer_schema, named_schemas, result: (
        decoder.fo.rem == rest
        and decoder.fo.pos == old.decoder.fo.pos + len(A.BYTES(writer_schema, named_schemas["writer"], w))
        and decoder.fo.data == old.decoder.fo.data and decoder.fo.eof_hit == old.decoder.fo.eof_hit)


@target(RD, "read_long")
class read_long:
    types = dict(decoder="BinaryDecoder", writer_schema="py", named_schemas="dict", reader_schema="py", options="dict")
    ghosts = dict(w="py", rest="bytes")
    requires = lambda decoder, writer_schema, named_schemas, reader_schema, options: (
        "writer" in named_schemas and isinstance(named_schemas["writer"], dict) and reader_schema is None
        and A.TYPE(writer_schema) == "long"
        and A.WFW(writer_schema, named_schemas["writer"], w)
        and decoder.fo.rem == A.BYTES(writer_schema, named_schemas["writer"], w) + rest)
    modifies = ["decoder.fo"]
    call_ghosts = {"read_long": dict(z=lambda: S.zigzag(w), rest=lambda: rest)}
    ensures = lambda decoder, writer_schema, named_schemas, result: (
        result == A.VALUE(writer_schema, named_schemas["writer"], w) and decoder.fo.rem == rest
        and decoder.fo.pos == old.decoder.fo.pos + len(A.BYTES(writer_schema, named_schemas["writer"], w))
        and decoder.fo.data == old.decoder.fo.data and decoder.fo.eof_hit == old.decoder.fo.eof_hit)


@target(RD, "read_long", behavior="bare")
class read_long_bare:
    """called without a schema (the codec block readers read a length with it)"""
    types = dict(decoder="BinaryDecoder", writer_schema="py", named_schemas="py", reader_schema="py", options="dict")
    ghosts = dict(z="int", rest="bytes")
    requires = lambda decoder: z >= 0 and decoder.fo.rem == S.varint(z) + rest
    modifies = ["decoder.fo"]
    returns = "int"
    call_behaviors = dict(read_long="default")
    call_ghosts = {"read_long": dict(z=lambda: z, rest=lambda: rest)}
    ensures = lambda decoder, result: (
        result == S.unzigzag(z) and decoder.fo.rem == rest
        and decoder.fo.pos == old.decoder.fo.pos + len(S.varint(z))
        and decoder.fo.data == old.decoder.fo.data and decoder.fo.eof_hit == old.decoder.fo.eof_hit)


@target(RD, "skip_long")
class skip_long:
    types = dict(decoder="BinaryDecoder", writer_schema="py", named_schemas="dict")
    ghosts = dict(w="py", rest="bytes")
    requires = lambda decoder, writer_schema, named_schemas: (
        "writer" in named_schemas and isinstance(named_schemas["writer"], dict)
        and A.TYPE(writer_schema) == "long"
        and A.WFW(writer_schema, named_schemas["writer"], w)
        and decoder.fo.rem == A.BYTES(writer_schema, named_schemas["writer"], w) + rest)
    modifies = ["decoder.fo"]
    call_ghosts = {"read_long": dict(z=lambda: S.zigzag(w), rest=lambda: rest)}
    ensures = lambda decoder, writer_schema, named_schemas, result: (
        decoder.fo.rem == rest
        and decoder.fo.pos == old.decoder.fo.pos + len(A.BYTES(writer_schema, named_schemas["writer"], w))
        and decoder.fo.data == old.decoder.fo.data and decoder.fo.eof_hit == old.decoder.fo.eof_hit)


@target(RD, "read_float")
class read_float:
    types = dict(decoder="BinaryDecoder", writer_schema="py", named_schemas="dict", reader_schema="py", options="dict")
    ghosts = dict(w="py", rest="bytes")
    requires = lambda decoder, writer_schema, named_schemas, reader_schema, options: (
        "writer" in named_schemas and isinstance(named_schemas["writer"], dict) and reader_schema is None
        and A.TYPE(writer_schema) == "float"
        and A.WFW(writer_schema, named_schemas["writer"], w)
        and decoder.fo.rem == A.BYTES(writer_schema, named_schemas["writer"], w) + rest)
    modifies = ["decoder.fo"]
    call_ghosts = {"read_float": dict(b32=lambda: w, rest=lambda: rest)}
    ensures = lambda decoder, writer_schema, named_schemas, result: (
        result == A.VALUE(writer_schema, named_schemas["writer"], w) and decoder.fo.rem == rest
        and decoder.fo.pos == old.decoder.fo.pos + len(A.BYTES(writer_schema, named_schemas["writer"], w))
        and decoder.fo.data == old.decoder.fo.data and decoder.fo.eof_hit == old.decoder.fo.eof_hit)


@target(RD, "skip_float")
class skip_float:
    types = dict(decoder="BinaryDecoder", writer_schema="py", named_schemas="dict")
    ghosts = dict(w="py", rest="bytes")
    requires = lambda decoder, writer_schema, named_schemas: (
        "writer" in named_schemas and isinstance(named_schemas["writer"], dict)
        and A.TYPE(writer_schema) == "float"
        and A.WFW(writer_schema, named_schemas["writer"], w)
        and decoder.fo.rem == A.BYTES(writer_schema, named_schemas["writer"], w) + rest)
    modifies = ["decoder.fo"]
    call_ghosts = {"read_float": dict(b32=lambda: w, rest=lambda: rest)}
    ensures = lambda decoder, writer_schema, named_schemas, result: (
        decoder.fo.rem == rest
        and decoder.fo.pos == old.decoder.fo.pos + len(A.BYTES(writer_schema, named_schemas["writer"], w))
        and decoder.fo.data == old.decoder.fo.data and decoder.fo.eof_hit == old.decoder.fo.eof_hit)


@target(RD, "read_double")
class read_double:
    types = dict(decoder="BinaryDecoder", writer_schema="py", named_schemas="dict", reader_schema="py", options="dict")
    ghosts = dict(w="py", rest="bytes")
    requires = lambda decoder, writer_schema, named_schemas, reader_schema, options: (
        "writer" in named_schemas and isinstance(named_schemas["writer"], dict) and reader_schema is None
        and A.TYPE(writer_schema) == "double"
        and A.WFW(writer_schema, named_schemas["writer"], w)
        and decoder.fo.rem == A.BYTES(writer_schema, named_schemas["writer"], w) + rest)
    modifies = ["decoder.fo"]
    call_ghosts = {"read_double": dict(b64=lambda: w, rest=lambda: rest)}
    ensures = lambda decoder, writer_schema, named_schemas, result: (
        result == A.VALUE(writer_schema, named_schemas["writer"], w) and decoder.fo.rem == rest
        and decoder.fo.pos == old.decoder.fo.pos + len(A.BYTES(writer_schema, named_schemas["writer"], w))
        and decoder.fo.data == old.decoder.fo.data and decoder.fo.eof_hit == old.decoder.fo.eof_hit)


@target(RD, "skip_double")
class skip_double:
    types = dict(decoder="BinaryDecoder", writer_schema="py", named_schemas="dict")
    ghosts = dict(w="py", rest="bytes")
    requires = lambda decoder, writer_schema, named_schemas: (
        "writer" in named_schemas and isinstance(named_schemas["writer"], dict)
        and A.TYPE(writer_schema) == "double"
        and A.WFW(writer_schema, named_schemas["writer"], w)
        and decoder.fo.rem == A.BYTES(writer_schema, named_schemas["writer"], w) + rest)
    modifies = ["decoder.fo"]
    call_ghosts = {"read_double": dict(b64=lambda: w, rest=lambda: rest)}
    ensures = lambda decoder, writer_schema, named_schemas, result: (
        decoder.fo.rem == rest
        and decoder.fo.pos == old.decoder.fo.pos + len(A.BYTES(writer_schema, named_schemas["writer"], w))
        and decoder.fo.data == old.decoder.fo.data and decoder.fo.eof_hit == old.decoder.fo.eof_hit)


@target(RD, "read_bytes")
class read_bytes:
    types = dict(decoder="BinaryDecoder", writer_schema="py", named_schemas="dict", reader_schema="py", options="dict")
    ghosts = dict(w="py", rest="bytes")
    requires = lambda decoder, writer_schema, named_schemas, reader_schema, options: (
        "writer" in named_schemas and isinstance(named_schemas["writer"], dict) and reader_schema is None
        and A.TYPE(writer_schema) == "bytes"
        and A.WFW(writer_schema, named_schemas["writer"], w)
        and decoder.fo.rem == A.BYTES(writer_schema, named_schemas["writer"], w) + rest)
    modifies = ["decoder.fo"]
    call_ghosts = {"read_bytes": dict(b=lambda: w, rest=lambda: rest)}
    ensures = lambda decoder, writer_schema, named_schemas, result: (
        result == A.VALUE(writer_schema, named_schemas["writer"], w) and decoder.fo.rem == rest
        and decoder.fo.pos == old.decoder.fo.pos + len(A.BYTES(writer_schema, named_schemas["writer"], w))
        and decoder.fo.data == old.decoder.fo.data and decoder.fo.eof_hit == old.decoder.fo.eof_hit)


@target(RD, "skip_bytes")
class skip_bytes:
    types = dict(decoder="BinaryDecoder", writer_schema="py", named_schemas="dict")
    ghosts = dict(w="py", rest="bytes")
    requires = lambda decoder, writer_schema, named_schemas: (
        "writer" in named_schemas and isinstance(named_schemas["writer"], dict)
        and A.TYPE(writer_schema) == "bytes"
        and A.WFW(writer_schema, named_schemas["writer"], w)
        and decoder.fo.rem == A.BYTES(writer_schema, named_schemas["writer"], w) + rest)
    modifies = ["decoder.fo"]
    call_ghosts = {"read_bytes": dict(b=lambda: w, rest=lambda: rest)}
    ensures = lambda decoder, writer_schema, named_schemas, result: (
        decoder.fo.rem == rest
        and decoder.fo.pos == old.decoder.fo.pos + len(A.BYTES(writer_schema, named_schemas["writer"], w))
        and decoder.fo.data == old.decoder.fo.data and decoder.fo.eof_hit == old.decoder.fo.eof_hit)


@target(RD, "read_utf8")
class read_utf8:
    types = dict(decoder="BinaryDecoder", writer_schema="py", named_schemas="dict", reader_schema="py", options="dict")
    ghosts = dict(w="py", rest="bytes")
    requires = lambda decoder, writer_schema, named_schemas, reader_schema, options: (
        "writer" in named_schemas and isinstance(named_schemas["writer"], dict) and reader_schema is None
        and A.TYPE(writer_schema) == "string"
        and isinstance(options.get("handle_unicode_errors", "strict"), str)
        and A.WFW(writer_schema, named_schemas["writer"], w)
        and decoder.fo.rem == A.BYTES(writer_schema, named_schemas["writer"], w) + rest)
    modifies = ["decoder.fo"]
    call_ghosts = {"read_utf8": dict(b=lambda: w, rest=lambda: rest)}
    ensures = lambda decoder, writer_schema, named_schemas, result: (
        result == A.VALUE(writer_schema, named_schemas["writer"], w) and decoder.fo.rem == rest
        and decoder.fo.pos == old.decoder.fo.pos + len(A.BYTES(writer_schema, named_schemas["writer"], w))
        and decoder.fo.data == old.decoder.fo.data and decoder.fo.eof_hit == old.decoder.fo.eof_hit)


@target(RD, "skip_utf8")
class skip_utf8:
    types = dict(decoder="BinaryDecoder", writer_schema="py", named_schemas="dict")
    ghosts = dict(w="py", rest="bytes")
    requires = lambda decoder, writer_schema, named_schemas: (
        "writer" in named_schemas and isinstance(named_schemas["writer"], dict)
        and A.TYPE(writer_schema) == "string"
        and A.WFW(writer_schema, named_schemas["writer"], w)
        and decoder.fo.rem == A.BYTES(writer_schema, named_schemas["writer"], w) + rest)
    modifies = ["decoder.fo"]
    call_ghosts = {"read_utf8": dict(b=lambda: w, rest=lambda: rest)}
    ensures = lambda decoder, writer_schema, named_schemas, result: (
        decoder.fo.rem == rest
        and decoder.fo.pos == old.decoder.fo.pos + len(A.BYTES(writer_schema, named_schemas["writer"], w))
        and decoder.fo.data == old.decoder.fo.data and decoder.fo.eof_hit == old.decoder.fo.eof_hit)


@target(RD, "read_fixed")
class read_fixed:
    types = dict(decoder="BinaryDecoder", writer_schema="py", named_schemas="dict", reader_schema="py", options="dict")
    ghosts = dict(w="py", rest="bytes")
    requires = lambda decoder, writer_schema, named_schemas, reader_schema, options: (
        "writer" in named_schemas and isinstance(named_schemas["writer"], dict) and reader_schema is None
        and A.TYPE(writer_schema) == "fixed" and A.WF(writer_schema, named_schemas["writer"])
        and A.WFW(writer_schema, named_schemas["writer"], w)
        and decoder.fo.rem == A.BYTES(writer_schema, named_schemas["writer"], w) + rest)
    modifies = ["decoder.fo"]
    call_ghosts = {"read_fixed": dict(b=lambda: w, rest=lambda: rest)}
    ensures = lambda decoder, writer_schema, named_schemas, result: (
        result == A.VALUE(writer_schema, named_schemas["writer"], w) and decoder.fo.rem == rest
        and decoder.fo.pos == old.decoder.fo.pos + len(A.BYTES(writer_schema, named_schemas["writer"], w))
        and decoder.fo.data == old.decoder.fo.data and decoder.fo.eof_hit == old.decoder.fo.eof_hit)


@target(RD, "skip_fixed")
class skip_fixed:
    types = dict(decoder="BinaryDecoder", writer_schema="py", named_schemas="dict")
    ghosts = dict(w="py", rest="bytes")
    requires = lambda decoder, writer_schema, named_schemas: (
        "writer" in named_schemas and isinstance(named_schemas["writer"], dict)
        and A.TYPE(writer_schema) == "fixed" and A.WF(writer_schema, named_schemas["writer"])
        and A.WFW(writer_schema, named_schemas["writer"], w)
        and decoder.fo.rem == A.BYTES(writer_schema, named_schemas["writer"], w) + rest)
    modifies = ["decoder.fo"]
    call_ghosts = {"read_fixed": dict(b=lambda: w, rest=lambda: rest)}
    ensures = lambda decoder, writer_schema, named_schemas, result: (
        decoder.fo.rem == rest
        and decoder.fo.pos == old.decoder.fo.pos + len(A.BYTES(writer_schema, named_schemas["writer"], w))
        and decoder.fo.data == old.decoder.fo.data and decoder.fo.eof_hit == old.decoder.fo.eof_hit)


@target(RD, "read_enum")
class read_enum:
    types = dict(decoder="BinaryDecoder", writer_schema="py", named_schemas="dict", reader_schema="py", options="dict")
    ghosts = dict(w="py", rest="bytes")
    requires = lambda decoder, writer_schema, named_schemas, reader_schema, options: (
        "writer" in named_schemas and isinstance(named_schemas["writer"], dict) and reader_schema is None
        and A.TYPE(writer_schema) == "enum" and A.WF(writer_schema, named_schemas["writer"])
        and A.WFW(writer_schema, named_schemas["writer"], w)
        and decoder.fo.rem == A.BYTES(writer_schema, named_schemas["writer"], w) + rest)
    modifies = ["decoder.fo"]
    call_ghosts = {"read_enum": dict(z=lambda: S.zigzag(w), rest=lambda: rest)}
    ensures = lambda decoder, writer_schema, named_schemas, result: (
        result == A.VALUE(writer_schema, named_schemas["writer"], w) and decoder.fo.rem == rest
        and decoder.fo.pos == old.decoder.fo.pos + len(A.BYTES(writer_schema, named_schemas["writer"], w))
        and decoder.fo.data == old.decoder.fo.data and decoder.fo.eof_hit == old.decoder.fo.eof_hit)


@target(RD, "skip_enum")
class skip_enum:
    types = dict(decoder="BinaryDecoder", writer_schema="py", named_schemas="dict")
    ghosts = dict(w="py", rest="bytes")
    requires = lambda decoder, writer_schema, named_schemas: (
        "writer" in named_schemas and isinstance(named_schemas["writer"], dict)
        and A.TYPE(writer_schema) == "enum" and A.WF(writer_schema, named_schemas["writer"])
        and A.WFW(writer_schema, named_schemas["writer"], w)
        and decoder.fo.rem == A.BYTES(writer_schema, named_schemas["writer"], w) + rest)
    modifies = ["decoder.fo"]
    call_ghosts = {"read_enum": dict(z=lambda: S.zigzag(w), rest=lambda: rest)}
    ensures = lambda decoder, writer_schema, named_schemas, result: (
        decoder.fo.rem == rest
        and decoder.fo.pos == old.decoder.fo.pos + len(A.BYTES(writer_schema, named_schemas["writer"], w))
        and decoder.fo.data == old.decoder.fo.data and decoder.fo.eof_hit == old.decoder.fo.eof_hit)


# ------------------------------------------------------------------ composites



@target(RD, "read_array")
class read_array:
    """any number of blocks, each in the positive-count or negative-count-plus-size form"""
    types = dict(decoder="BinaryDecoder", writer_schema="py", named_schemas="dict", reader_schema="py", options="dict")
    ghosts = dict(w="py", rest="bytes")
    requires = lambda decoder, writer_schema, named_schemas, reader_schema, options: (
        "writer" in named_schemas and isinstance(named_schemas["writer"], dict) and reader_schema is None
        and "reader" in named_schemas and isinstance(named_schemas["reader"], dict)
        and None not in named_schemas["reader"]
        and A.TYPE(writer_schema) == "array" and A.WF(writer_schema, named_schemas["writer"])
        and A.READ_OPTS_PLAIN(options)
        and A.WFW(writer_schema, named_schemas["writer"], w)
        and decoder.fo.rem == A.BYTES(writer_schema, named_schemas["writer"], w) + rest)
    modifies = ["decoder"]
    call_ghosts = {
        "read_array_start": dict(z=lambda: S.zigzag(A.CNT(w, 0)),
                                 rest=lambda: A.AFTER(writer_schema["items"], named_schemas["writer"], w, 0, False) + rest),
        "read_long#0": dict(z=lambda: S.zigzag(w[k][1]),
                            rest=lambda: A.ITEMS_REM(writer_schema["items"], named_schemas["writer"], w[k][2], 0, False)
                            + A.TAIL(writer_schema["items"], named_schemas["writer"], w, k + 1, False) + rest),
        "read_long#1": dict(z=lambda: S.zigzag(A.CNT(w, k + 1)),
                            rest=lambda: A.AFTER(writer_schema["items"], named_schemas["writer"], w, k + 1, False) + rest),
        "read_data": dict(w=lambda: w[k][2][_i],
                          rest=lambda: A.ITEMS_REM(writer_schema["items"], named_schemas["writer"], w[k][2], _i + 1, False)
                          + A.TAIL(writer_schema["items"], named_schemas["writer"], w, k + 1, False) + rest),
    }
    loop_ghosts = {"_iter_array_or_map.0": dict(k=(lambda: 0, lambda: k + 1))}
    loops = {
        "_iter_array_or_map.0": lambda decoder, writer_schema, named_schemas, read_items: (
            0 <= k and k <= len(w) and decoder._block_count == A.CNT(w, k)
            and A.BLOCKS_WF(writer_schema["items"], named_schemas["writer"], w, k, False)
            and decoder.fo.rem == A.AFTER(writer_schema["items"], named_schemas["writer"], w, k, False) + rest
            and read_items == A.ARR_VALS(writer_schema["items"], named_schemas["writer"], w, k)
            and decoder.fo.data == old.decoder.fo.data and decoder.fo.eof_hit == old.decoder.fo.eof_hit
            and decoder.fo.pos + len(decoder.fo.rem) == old.decoder.fo.pos + len(old.decoder.fo.rem)),
        "_iter_array_or_map.1": lambda decoder, writer_schema, named_schemas, read_items: (
            0 <= k and k < len(w)
            and A.BLOCKS_WF(writer_schema["items"], named_schemas["writer"], w, k + 1, False)
            and A.ITEMS_WF(writer_schema["items"], named_schemas["writer"], w[k][2], _i, False)
            and decoder.fo.rem == A.ITEMS_REM(writer_schema["items"], named_schemas["writer"], w[k][2], _i, False)
            + A.TAIL(writer_schema["items"], named_schemas["writer"], w, k + 1, False) + rest
            and read_items == A.ITEM_VALS(A.ARR_VALS(writer_schema["items"], named_schemas["writer"], w, k),
                                          writer_schema["items"], named_schemas["writer"], w[k][2], _i)
            and decoder.fo.data == old.decoder.fo.data and decoder.fo.eof_hit == old.decoder.fo.eof_hit
            and decoder.fo.pos + len(decoder.fo.rem) == old.decoder.fo.pos + len(old.decoder.fo.rem)),
    }
    ensures = lambda decoder, writer_schema, named_schemas, result: (
        result == A.VALUE(writer_schema, named_schemas["writer"], w) and decoder.fo.rem == rest
        and decoder.fo.pos == old.decoder.fo.pos + len(A.BYTES(writer_schema, named_schemas["writer"], w))
        and decoder.fo.data == old.decoder.fo.data and decoder.fo.eof_hit == old.decoder.fo.eof_hit)


@target(RD, "skip_array")
class skip_array:
    types = dict(decoder="BinaryDecoder", writer_schema="py", named_schemas="dict")
    ghosts = dict(w="py", rest="bytes")
    requires = lambda decoder, writer_schema, named_schemas: (
        "writer" in named_schemas and isinstance(named_schemas["writer"], dict)
        and A.TYPE(writer_schema) == "array" and A.WF(writer_schema, named_schemas["writer"])
        and A.WFW(writer_schema, named_schemas["writer"], w)
        and decoder.fo.rem == A.BYTES(writer_schema, named_schemas["writer"], w) + rest)
    modifies = ["decoder"]
    call_ghosts = {
        "read_array_start": dict(z=lambda: S.zigzag(A.CNT(w, 0)),
                                 rest=lambda: A.AFTER(writer_schema["items"], named_schemas["writer"], w, 0, False) + rest),
        "read_long#0": dict(z=lambda: S.zigzag(w[k][1]),
                            rest=lambda: A.ITEMS_REM(writer_schema["items"], named_schemas["writer"], w[k][2], 0, False)
                            + A.TAIL(writer_schema["items"], named_schemas["writer"], w, k + 1, False) + rest),
        "read_long#1": dict(z=lambda: S.zigzag(A.CNT(w, k + 1)),
                            rest=lambda: A.AFTER(writer_schema["items"], named_schemas["writer"], w, k + 1, False) + rest),
        "skip_data": dict(w=lambda: w[k][2][_i],
                          rest=lambda: A.ITEMS_REM(writer_schema["items"], named_schemas["writer"], w[k][2], _i + 1, False)
                          + A.TAIL(writer_schema["items"], named_schemas["writer"], w, k + 1, False) + rest),
    }
    loop_ghosts = {"_iter_array_or_map.0": dict(k=(lambda: 0, lambda: k + 1))}
    loops = {
        "_iter_array_or_map.0": lambda decoder, writer_schema, named_schemas: (
            0 <= k and k <= len(w) and decoder._block_count == A.CNT(w, k)
            and A.BLOCKS_WF(writer_schema["items"], named_schemas["writer"], w, k, False)
            and decoder.fo.rem == A.AFTER(writer_schema["items"], named_schemas["writer"], w, k, False) + rest
            and decoder.fo.data == old.decoder.fo.data and decoder.fo.eof_hit == old.decoder.fo.eof_hit
            and decoder.fo.pos + len(decoder.fo.rem) == old.decoder.fo.pos + len(old.decoder.fo.rem)),
        "_iter_array_or_map.1": lambda decoder, writer_schema, named_schemas: (
            0 <= k and k < len(w)
            and A.BLOCKS_WF(writer_schema["items"], named_schemas["writer"], w, k + 1, False)
            and A.ITEMS_WF(writer_schema["items"], named_schemas["writer"], w[k][2], _i, False)
            and decoder.fo.rem == A.ITEMS_REM(writer_schema["items"], named_schemas["writer"], w[k][2], _i, False)
            + A.TAIL(writer_schema["items"], named_schemas["writer"], w, k + 1, False) + rest
            and decoder.fo.data == old.decoder.fo.data and decoder.fo.eof_hit == old.decoder.fo.eof_hit
            and decoder.fo.pos + len(decoder.fo.rem) == old.decoder.fo.pos + len(old.decoder.fo.rem)),
    }
    ensures = lambda decoder, writer_schema, named_schemas, result: (
        decoder.fo.rem == rest
        and decoder.fo.pos == old.decoder.fo.pos + len(A.BYTES(writer_schema, named_schemas["writer"], w))
        and decoder.fo.data == old.decoder.fo.data and decoder.fo.eof_hit == old.decoder.fo.eof_hit)


@target(RD, "read_map")
class read_map:
    types = dict(decoder="BinaryDecoder", writer_schema="py", named_schemas="dict", reader_schema="py", options="dict")
    ghosts = dict(w="py", rest="bytes")
    requires = lambda decoder, writer_schema, named_schemas, reader_schema, options: (
        "writer" in named_schemas and isinstance(named_schemas["writer"], dict) and reader_schema is None
        and "reader" in named_schemas and isinstance(named_schemas["reader"], dict)
        and None not in named_schemas["reader"]
        and A.TYPE(writer_schema) == "map" and A.WF(writer_schema, named_schemas["writer"])
        and A.READ_OPTS_PLAIN(options)
        and A.WFW(writer_schema, named_schemas["writer"], w)
        and decoder.fo.rem == A.BYTES(writer_schema, named_schemas["writer"], w) + rest)
    modifies = ["decoder"]
    call_ghosts = {
        "read_map_start": dict(z=lambda: S.zigzag(A.CNT(w, 0)),
                               rest=lambda: A.AFTER(writer_schema["values"], named_schemas["writer"], w, 0, True) + rest),
        "read_long#0": dict(z=lambda: S.zigzag(w[k][1]),
                            rest=lambda: A.ITEMS_REM(writer_schema["values"], named_schemas["writer"], w[k][2], 0, True)
                            + A.TAIL(writer_schema["values"], named_schemas["writer"], w, k + 1, True) + rest),
        "read_long#1": dict(z=lambda: S.zigzag(A.CNT(w, k + 1)),
                            rest=lambda: A.AFTER(writer_schema["values"], named_schemas["writer"], w, k + 1, True) + rest),
        "read_utf8": dict(b=lambda: w[k][2][_i][0],
                          rest=lambda: A.BYTES(writer_schema["values"], named_schemas["writer"], w[k][2][_i][1])
                          + A.ITEMS_REM(writer_schema["values"], named_schemas["writer"], w[k][2], _i + 1, True)
                          + A.TAIL(writer_schema["values"], named_schemas["writer"], w, k + 1, True) + rest),
        "read_data": dict(w=lambda: w[k][2][_i][1],
                          rest=lambda: A.ITEMS_REM(writer_schema["values"], named_schemas["writer"], w[k][2], _i + 1, True)
                          + A.TAIL(writer_schema["values"], named_schemas["writer"], w, k + 1, True) + rest),
    }
    loop_ghosts = {"_iter_array_or_map.0": dict(k=(lambda: 0, lambda: k + 1))}
    loops = {
        "_iter_array_or_map.0": lambda decoder, writer_schema, named_schemas, read_items: (
            0 <= k and k <= len(w) and decoder._block_count == A.CNT(w, k)
            and A.BLOCKS_WF(writer_schema["values"], named_schemas["writer"], w, k, True)
            and decoder.fo.rem == A.AFTER(writer_schema["values"], named_schemas["writer"], w, k, True) + rest
            and read_items == A.MAP_VALS(writer_schema["values"], named_schemas["writer"], w, k)
            and decoder.fo.data == old.decoder.fo.data and decoder.fo.eof_hit == old.decoder.fo.eof_hit
            and decoder.fo.pos + len(decoder.fo.rem) == old.decoder.fo.pos + len(old.decoder.fo.rem)),
        "_iter_array_or_map.1": lambda decoder, writer_schema, named_schemas, read_items: (
            0 <= k and k < len(w)
            and A.BLOCKS_WF(writer_schema["values"], named_schemas["writer"], w, k + 1, True)
            and A.ITEMS_WF(writer_schema["values"], named_schemas["writer"], w[k][2], _i, True)
            and decoder.fo.rem == A.ITEMS_REM(writer_schema["values"], named_schemas["writer"], w[k][2], _i, True)
            + A.TAIL(writer_schema["values"], named_schemas["writer"], w, k + 1, True) + rest
            and read_items == A.PAIR_VALS(A.MAP_VALS(writer_schema["values"], named_schemas["writer"], w, k),
                                          writer_schema["values"], named_schemas["writer"], w[k][2], _i)
            and decoder.fo.data == old.decoder.fo.data and decoder.fo.eof_hit == old.decoder.fo.eof_hit
            and decoder.fo.pos + len(decoder.fo.rem) == old.decoder.fo.pos + len(old.decoder.fo.rem)),
    }
    ensures = lambda decoder, writer_schema, named_schemas, result: (
        result == A.VALUE(writer_schema, named_schemas["writer"], w) and decoder.fo.rem == rest
        and decoder.fo.pos == old.decoder.fo.pos + len(A.BYTES(writer_schema, named_schemas["writer"], w))
        and decoder.fo.data == old.decoder.fo.data and decoder.fo.eof_hit == old.decoder.fo.eof_hit)


@target(RD, "skip_map")
class skip_map:
    types = dict(decoder="BinaryDecoder", writer_schema="py", named_schemas="dict")
    ghosts = dict(w="py", rest="bytes")
    requires = lambda decoder, writer_schema, named_schemas: (
        "writer" in named_schemas and isinstance(named_schemas["writer"], dict)
        and A.TYPE(writer_schema) == "map" and A.WF(writer_schema, named_schemas["writer"])
        and A.WFW(writer_schema, named_schemas["writer"], w)
        and decoder.fo.rem == A.BYTES(writer_schema, named_schemas["writer"], w) + rest)
    modifies = ["decoder"]
    call_ghosts = {
        "read_map_start": dict(z=lambda: S.zigzag(A.CNT(w, 0)),
                               rest=lambda: A.AFTER(writer_schema["values"], named_schemas["writer"], w, 0, True) + rest),
        "read_long#0": dict(z=lambda: S.zigzag(w[k][1]),
                            rest=lambda: A.ITEMS_REM(writer_schema["values"], named_schemas["writer"], w[k][2], 0, True)
                            + A.TAIL(writer_schema["values"], named_schemas["writer"], w, k + 1, True) + rest),
        "read_long#1": dict(z=lambda: S.zigzag(A.CNT(w, k + 1)),
                            rest=lambda: A.AFTER(writer_schema["values"], named_schemas["writer"], w, k + 1, True) + rest),
        "read_utf8": dict(b=lambda: w[k][2][_i][0],
                          rest=lambda: A.BYTES(writer_schema["values"], named_schemas["writer"], w[k][2][_i][1])
                          + A.ITEMS_REM(writer_schema["values"], named_schemas["writer"], w[k][2], _i + 1, True)
                          + A.TAIL(writer_schema["values"], named_schemas["writer"], w, k + 1, True) + rest),
        "skip_data": dict(w=lambda: w[k][2][_i][1],
                          rest=lambda: A.ITEMS_REM(writer_schema["values"], named_schemas["writer"], w[k][2], _i + 1, True)
                          + A.TAIL(writer_schema["values"], named_schemas["writer"], w, k + 1, True) + rest),
    }
    loop_ghosts = {"_iter_array_or_map.0": dict(k=(lambda: 0, lambda: k + 1))}
    loops = {
        "_iter_array_or_map.0": lambda decoder, writer_schema, named_schemas: (
            0 <= k and k <= len(w) and decoder._block_count == A.CNT(w, k)
            and A.BLOCKS_WF(writer_schema["values"], named_schemas["writer"], w, k, True)
            and decoder.fo.rem == A.AFTER(writer_schema["values"], named_schemas["writer"], w, k, True) + rest
            and decoder.fo.data == old.decoder.fo.data and decoder.fo.eof_hit == old.decoder.fo.eof_hit
            and decoder.fo.pos + len(decoder.fo.rem) == old.decoder.fo.pos + len(old.decoder.fo.rem)),
        "_iter_array_or_map.1": lambda decoder, writer_schema, named_schemas: (
            0 <= k and k < len(w)
            and A.BLOCKS_WF(writer_schema["values"], named_schemas["writer"], w, k + 1, True)
            and A.ITEMS_WF(writer_schema["values"], named_schemas["writer"], w[k][2], _i, True)
            and decoder.fo.rem == A.ITEMS_REM(writer_schema["values"], named_schemas["writer"], w[k][2], _i, True)
            + A.TAIL(writer_schema["values"], named_schemas["writer"], w, k + 1, True) + rest
            and decoder.fo.data == old.decoder.fo.data and decoder.fo.eof_hit == old.decoder.fo.eof_hit
            and decoder.fo.pos + len(decoder.fo.rem) == old.decoder.fo.pos + len(old.decoder.fo.rem)),
    }
    ensures = lambda decoder, writer_schema, named_schemas, result: (
        decoder.fo.rem == rest
        and decoder.fo.pos == old.decoder.fo.pos + len(A.BYTES(writer_schema, named_schemas["writer"], w))
        and decoder.fo.data == old.decoder.fo.data and decoder.fo.eof_hit == old.decoder.fo.eof_hit)


@target(RD, "read_union")
class read_union:
    """index in range (from the derivation), then the value of that branch"""
    types = dict(decoder="BinaryDecoder", writer_schema="py", named_schemas="dict", reader_schema="py", options="dict")
    ghosts = dict(w="py", rest="bytes")
    requires = lambda decoder, writer_schema, named_schemas, reader_schema, options: (
        "writer" in named_schemas and isinstance(named_schemas["writer"], dict) and reader_schema is None
        and "reader" in named_schemas and isinstance(named_schemas["reader"], dict)
        and None not in named_schemas["reader"]
        and isinstance(writer_schema, list) and A.WF(writer_schema, named_schemas["writer"])
        and not options.get("return_record_name") and not options.get("return_record_name_override")
        and not options.get("return_named_type") and not options.get("return_named_type_override")
        and A.READ_OPTS_PLAIN(options)
        and A.WFW(writer_schema, named_schemas["writer"], w)
        and decoder.fo.rem == A.BYTES(writer_schema, named_schemas["writer"], w) + rest)
    modifies = ["decoder"]
    hints = [lambda: L.wf_branch_at(writer_schema, named_schemas["writer"], 0, w[0])]
    call_ghosts = {
        "read_index": dict(z=lambda: S.zigzag(w[0]),
                           rest=lambda: A.BYTES(writer_schema[w[0]], named_schemas["writer"], w[1]) + rest),
        "read_data": dict(w=lambda: w[1], rest=lambda: rest),
    }
    ensures = lambda decoder, writer_schema, named_schemas, result: (
        result == A.VALUE(writer_schema, named_schemas["writer"], w) and decoder.fo.rem == rest
        and decoder.fo.pos == old.decoder.fo.pos + len(A.BYTES(writer_schema, named_schemas["writer"], w))
        and decoder.fo.data == old.decoder.fo.data and decoder.fo.eof_hit == old.decoder.fo.eof_hit)


@target(RD, "skip_union")
class skip_union:
    types = dict(decoder="BinaryDecoder", writer_schema="py", named_schemas="dict")
    ghosts = dict(w="py", rest="bytes")
    requires = lambda decoder, writer_schema, named_schemas: (
        "writer" in named_schemas and isinstance(named_schemas["writer"], dict)
        and isinstance(writer_schema, list) and A.WF(writer_schema, named_schemas["writer"])
        and A.WFW(writer_schema, named_schemas["writer"], w)
        and decoder.fo.rem == A.BYTES(writer_schema, named_schemas["writer"], w) + rest)
    modifies = ["decoder"]
    hints = [lambda: L.wf_branch_at(writer_schema, named_schemas["writer"], 0, w[0])]
    call_ghosts = {
        "read_index": dict(z=lambda: S.zigzag(w[0]),
                           rest=lambda: A.BYTES(writer_schema[w[0]], named_schemas["writer"], w[1]) + rest),
        "skip_data": dict(w=lambda: w[1], rest=lambda: rest),
    }
    ensures = lambda decoder, writer_schema, named_schemas, result: (
        decoder.fo.rem == rest
        and decoder.fo.pos == old.decoder.fo.pos + len(A.BYTES(writer_schema, named_schemas["writer"], w))
        and decoder.fo.data == old.decoder.fo.data and decoder.fo.eof_hit == old.decoder.fo.eof_hit)


@target(RD, "read_record")
class read_record:
    types = dict(decoder="BinaryDecoder", writer_schema="py", named_schemas="dict", reader_schema="py", options="dict")
    ghosts = dict(w="py", rest="bytes")
    requires = lambda decoder, writer_schema, named_schemas, reader_schema, options: (
        "writer" in named_schemas and isinstance(named_schemas["writer"], dict) and reader_schema is None
        and "reader" in named_schemas and isinstance(named_schemas["reader"], dict)
        and None not in named_schemas["reader"]
        and isinstance(writer_schema, dict)
        and (A.TYPE(writer_schema) == "record" or A.TYPE(writer_schema) == "error")
        and A.WF(writer_schema, named_schemas["writer"])
        and A.READ_OPTS_PLAIN(options)
        and A.WFW(writer_schema, named_schemas["writer"], w)
        and decoder.fo.rem == A.BYTES(writer_schema, named_schemas["writer"], w) + rest)
    modifies = ["decoder"]
    call_ghosts = {
        "read_data#0": dict(w=lambda: w[_i],
                            rest=lambda: A.FIELDS_REM(writer_schema["fields"], named_schemas["writer"], w, _i + 1) + rest),
    }
    loops = {0: lambda decoder, writer_schema, named_schemas, record: (
        len(w) == len(writer_schema["fields"])
        and A.WF_FIELDS(writer_schema["fields"], named_schemas["writer"], _i)
        and A.FIELDS_WF(writer_schema["fields"], named_schemas["writer"], w, _i)
        and decoder.fo.rem == A.FIELDS_REM(writer_schema["fields"], named_schemas["writer"], w, _i) + rest
        and record == A.REC_VALS(writer_schema["fields"], named_schemas["writer"], w, _i)
        and decoder.fo.data == old.decoder.fo.data and decoder.fo.eof_hit == old.decoder.fo.eof_hit
        and decoder.fo.pos + len(decoder.fo.rem) == old.decoder.fo.pos + len(old.decoder.fo.rem))}
    ensures = lambda decoder, writer_schema, named_schemas, result: (
        result == A.VALUE(writer_schema, named_schemas["writer"], w) and decoder.fo.rem == rest
        and decoder.fo.pos == old.decoder.fo.pos + len(A.BYTES(writer_schema, named_schemas["writer"], w))
        and decoder.fo.data == old.decoder.fo.data and decoder.fo.eof_hit == old.decoder.fo.eof_hit)


@target(RD, "skip_record")
class skip_record:
    types = dict(decoder="BinaryDecoder", writer_schema="py", named_schemas="dict")
    ghosts = dict(w="py", rest="bytes")
    requires = lambda decoder, writer_schema, named_schemas: (
        "writer" in named_schemas and isinstance(named_schemas["writer"], dict)
        and isinstance(writer_schema, dict)
        and (A.TYPE(writer_schema) == "record" or A.TYPE(writer_schema) == "error")
        and A.WF(writer_schema, named_schemas["writer"])
        and A.WFW(writer_schema, named_schemas["writer"], w)
        and decoder.fo.rem == A.BYTES(writer_schema, named_schemas["writer"], w) + rest)
    modifies = ["decoder"]
    call_ghosts = {
        "skip_data": dict(w=lambda: w[_i],
                          rest=lambda: A.FIELDS_REM(writer_schema["fields"], named_schemas["writer"], w, _i + 1) + rest),
    }
    loops = {0: lambda decoder, writer_schema, named_schemas: (
        len(w) == len(writer_schema["fields"])
        and A.WF_FIELDS(writer_schema["fields"], named_schemas["writer"], _i)
        and A.FIELDS_WF(writer_schema["fields"], named_schemas["writer"], w, _i)
        and decoder.fo.rem == A.FIELDS_REM(writer_schema["fields"], named_schemas["writer"], w, _i) + rest
        and decoder.fo.data == old.decoder.fo.data and decoder.fo.eof_hit == old.decoder.fo.eof_hit
        and decoder.fo.pos + len(decoder.fo.rem) == old.decoder.fo.pos + len(old.decoder.fo.rem))}
    ensures = lambda decoder, writer_schema, named_schemas, result: (
        decoder.fo.rem == rest
        and decoder.fo.pos == old.decoder.fo.pos + len(A.BYTES(writer_schema, named_schemas["writer"], w))
        and decoder.fo.data == old.decoder.fo.data and decoder.fo.eof_hit == old.decoder.fo.eof_hit)


@target(RD, "read_data")
class read_data:
    """dispatch over READERS and the by-name fallback through the writer's name table"""
    types = dict(decoder="BinaryDecoder", writer_schema="py", named_schemas="dict", reader_schema="py", options="dict")
    ghosts = dict(w="py", rest="bytes")
    requires = lambda decoder, writer_schema, named_schemas, reader_schema, options: (
        "writer" in named_schemas and isinstance(named_schemas["writer"], dict) and reader_schema is None
        and "reader" in named_schemas and isinstance(named_schemas["reader"], dict)
        and None not in named_schemas["reader"]
        and A.WF(writer_schema, named_schemas["writer"])
        and implies(isinstance(writer_schema, dict), "logicalType" not in writer_schema)
        and A.READ_OPTS_PLAIN(options)
        and A.WFW(writer_schema, named_schemas["writer"], w)
        and decoder.fo.rem == A.BYTES(writer_schema, named_schemas["writer"], w) + rest)
    modifies = ["decoder"]
    call_ghosts = {"*": dict(w=lambda: w, rest=lambda: rest)}
    ensures = lambda decoder, writer_schema, named_schemas, result: (
        result == A.VALUE(writer_schema, named_schemas["writer"], w) and decoder.fo.rem == rest
        and decoder.fo.pos == old.decoder.fo.pos + len(A.BYTES(writer_schema, named_schemas["writer"], w))
        and decoder.fo.data == old.decoder.fo.data and decoder.fo.eof_hit == old.decoder.fo.eof_hit)


@target(RD, "skip_data")
class skip_data:
    types = dict(decoder="BinaryDecoder", writer_schema="py", named_schemas="dict")
    ghosts = dict(w="py", rest="bytes")
    requires = lambda decoder, writer_schema, named_schemas: (
        "writer" in named_schemas and isinstance(named_schemas["writer"], dict)
        and A.WF(writer_schema, named_schemas["writer"])
        and A.WFW(writer_schema, named_schemas["writer"], w)
        and decoder.fo.rem == A.BYTES(writer_schema, named_schemas["writer"], w) + rest)
    modifies = ["decoder"]
    call_ghosts = {"*": dict(w=lambda: w, rest=lambda: rest)}
    ensures = lambda decoder, writer_schema, named_schemas, result: (
        decoder.fo.rem == rest
        and decoder.fo.pos == old.decoder.fo.pos + len(A.BYTES(writer_schema, named_schemas["writer"], w))
        and decoder.fo.data == old.decoder.fo.data and decoder.fo.eof_hit == old.decoder.fo.eof_hit)


# -------- C03: an index outside the schema's range raises instead of returning a value
@target(RD, "read_union", behavior="badindex")
class read_union_badindex:
    types = dict(decoder="BinaryDecoder", writer_schema="list", named_schemas="dict", reader_schema="py", options="dict")
    ghosts = dict(z="int", rest="bytes")
    requires = lambda decoder, writer_schema: (
        z >= 0 and decoder.fo.rem == S.varint(z) + rest
        and (S.unzigzag(z) < 0 or S.unzigzag(z) >= len(writer_schema)))
    modifies = ["decoder"]
    call_ghosts = {"read_index": dict(z=lambda: z, rest=lambda: rest)}
    raises = [R("IndexError", when=lambda: True)]
    ensures = lambda: False


@target(RD, "skip_union", behavior="badindex")
class skip_union_badindex:
    types = dict(decoder="BinaryDecoder", writer_schema="list", named_schemas="dict")
    ghosts = dict(z="int", rest="bytes")
    requires = lambda decoder, writer_schema: (
        z >= 0 and decoder.fo.rem == S.varint(z) + rest
        and (S.unzigzag(z) < 0 or S.unzigzag(z) >= len(writer_schema)))
    modifies = ["decoder"]
    call_ghosts = {"read_index": dict(z=lambda: z, rest=lambda: rest)}
    raises = [R("IndexError", when=lambda: True)]
    ensures = lambda: False


@target(RD, "read_enum", behavior="badindex")
class read_enum_badindex:
    types = dict(decoder="BinaryDecoder", writer_schema="dict", named_schemas="dict", reader_schema="py", options="dict")
    ghosts = dict(z="int", rest="bytes")
    requires = lambda decoder, writer_schema: (
        "symbols" in writer_schema and isinstance(writer_schema["symbols"], list)
        and z >= 0 and decoder.fo.rem == S.varint(z) + rest
        and (S.unzigzag(z) < 0 or S.unzigzag(z) >= len(writer_schema["symbols"])))
    modifies = ["decoder"]
    call_ghosts = {"read_enum": dict(z=lambda: z, rest=lambda: rest)}
    raises = [R("IndexError", when=lambda: True)]
    ensures = lambda: False


# ------------------------------------------------------------------ schema resolution pieces (C08)
import spec.canon as K


@target(RD, "maybe_promote")
class maybe_promote:
    """the decoded value as the reader's type sees it: ints become floats under float/double, text and
    bytes convert through UTF-8, everything else is unchanged (int -> long needs no conversion in Python)"""
    types = dict(data="py", writer_type="py", reader_type="py")
    modifies = []
    requires = lambda data, writer_type, reader_type: (
        implies(writer_type == "int" or writer_type == "long", isinstance(data, int) and not isinstance(data, bool))
        and implies(writer_type == "string", isinstance(data, str))
        and implies(writer_type == "bytes", isinstance(data, bytes)))
    raises = [R("UnicodeDecodeError", must=True,
                when=lambda data, writer_type, reader_type: (
                    writer_type == "bytes" and reader_type == "string" and not S.utf8_valid(data)))]
    ensures = lambda data, writer_type, reader_type, result: (
        implies((writer_type == "int" or writer_type == "long") and (reader_type == "float" or reader_type == "double"),
                isinstance(result, float) and same(result, S.f_of_int(data)))
        and implies(writer_type == "string" and reader_type == "bytes", result == S.utf8(data))
        and implies(writer_type == "bytes" and reader_type == "string", result == S.utf8_decode(data))
        and implies(not K.PROMOTABLE(writer_type, reader_type) or (writer_type == "int" and reader_type == "long")
                    or (writer_type == "float" and reader_type == "double"), same(result, data)))


@target(RD, "match_types", behavior="prims")
class match_types_prims:
    """two primitive type names match iff they are equal or the writer's promotes to the reader's"""
    types = dict(writer_type="str", reader_type="str", named_schemas="dict")
    returns = "bool"
    modifies = []
    unfold_here = ["NS_CLEAN"]
    requires = lambda writer_type, reader_type, named_schemas: (
        K.IS_PRIM(writer_type) and K.IS_PRIM(reader_type)
        and "writer" in named_schemas and isinstance(named_schemas["writer"], dict) and A.NS_CLEAN(named_schemas["writer"])
        and "reader" in named_schemas and isinstance(named_schemas["reader"], dict) and A.NS_CLEAN(named_schemas["reader"]))
    ensures = lambda writer_type, reader_type, result: (
        result == (writer_type == reader_type or K.PROMOTABLE(writer_type, reader_type)))


@target(RD, "read_enum", behavior="resolve")
class read_enum_resolve:
    """C08: with a reader enum, a symbol the reader does not know is replaced by the reader's default, and is a
    schema-resolution error when the reader declares none"""
    types = dict(decoder="BinaryDecoder", writer_schema="py", named_schemas="dict", reader_schema="dict", options="dict")
    ghosts = dict(w="py", rest="bytes")
    requires = lambda decoder, writer_schema, named_schemas, reader_schema, options: (
        "writer" in named_schemas and isinstance(named_schemas["writer"], dict)
        and A.TYPE(writer_schema) == "enum" and A.WF(writer_schema, named_schemas["writer"])
        and A.WFW(writer_schema, named_schemas["writer"], w)
        and "type" in reader_schema and "symbols" in reader_schema and isinstance(reader_schema["symbols"], list)
        and "name" in reader_schema
        and implies("default" in reader_schema, isinstance(reader_schema["default"], str) and reader_schema["default"] != "")
        and decoder.fo.rem == A.BYTES(writer_schema, named_schemas["writer"], w) + rest)
    modifies = ["decoder.fo"]
    call_behaviors = dict(read_enum="default")
    call_ghosts = {"read_enum": dict(z=lambda: S.zigzag(w), rest=lambda: rest)}
    raises = [R("SchemaResolutionError", when=lambda writer_schema, named_schemas, reader_schema: (
        A.VALUE(writer_schema, named_schemas["writer"], w) not in reader_schema["symbols"]
        and "default" not in reader_schema))]
    ensures = lambda decoder, writer_schema, named_schemas, reader_schema, result: (
        implies(A.VALUE(writer_schema, named_schemas["writer"], w) in reader_schema["symbols"],
                result == A.VALUE(writer_schema, named_schemas["writer"], w))
        and implies(A.VALUE(writer_schema, named_schemas["writer"], w) not in reader_schema["symbols"],
                    result == reader_schema["default"])
        and decoder.fo.rem == rest
        and decoder.fo.data == old.decoder.fo.data and decoder.fo.eof_hit == old.decoder.fo.eof_hit)
