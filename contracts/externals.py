"""Assumed contracts of standard-library functions (trusted base, DESIGN 3.5).
Each is executable and cross-checked against the real function by `vcheck axioms`."""
from pyvc.contracts import external, R, implies
import spec.core as S


@external("binascii.crc32")
class crc32:
    params = ["data"]
    types = dict(data="bytes")
    returns = "int"
    ensures = lambda data, result: result == S.crc32(data) and 0 <= result < 2 ** 32


# ---- random (utils.gen_data, C20): only ranges and kinds are assumed, nothing about the distribution
@external("random.randint")
class random_randint:
    params = ["a", "b"]
    types = dict(a="int", b="int")
    returns = "int"
    raises = [R("ValueError", when=lambda a, b: a > b)]
    ensures = lambda a, b, result: a <= result and result <= b


@external("random.random")
class random_random:
    params = []
    types = dict()
    returns = "float"
    ensures = lambda result: True


@external("random.getrandbits")
class random_getrandbits:
    params = ["k"]
    types = dict(k="int")
    returns = "int"
    requires = lambda k: k >= 0
    ensures = lambda k, result: 0 <= result and result < 2 ** k


@external("random.choices")
class random_choices:
    params = ["population", "k"]
    types = dict(population="str", k="int")
    returns = "list"
    requires = lambda population, k: k >= 0 and len(population) >= 1
    ensures = lambda population, k, result: len(result) == k and S.ALL_STRS(result, 0)


# ---- calendar constructors (C16): assumed contracts of the standard library, cross-checked by `vcheck axioms`
@external("datetime.time")
class datetime_time:
    """time(hour, minute, second, microsecond): a naive time of day with exactly these fields; out-of-range ⇒ ValueError"""
    params = ["hour", "minute", "second", "microsecond"]
    types = dict(hour="int", minute="int", second="int", microsecond="int")
    returns = "py"
    raises = [R("ValueError", when=lambda hour, minute, second, microsecond: not (
        0 <= hour and hour < 24 and 0 <= minute and minute < 60 and 0 <= second and second < 60
        and 0 <= microsecond and microsecond < 1000000))]
    ensures = lambda hour, minute, second, microsecond, result: (
        S.is_time(result) and S.tod_hour(result) == hour and S.tod_minute(result) == minute
        and S.tod_second(result) == second and S.tod_micro(result) == microsecond)


@external("datetime.date.fromordinal")
class date_fromordinal:
    params = ["n"]
    types = dict(n="int")
    returns = "py"
    raises = [R("ValueError", when=lambda n: not (1 <= n and n <= 3652059))]
    ensures = lambda n, result: S.is_date(result) and S.date_ordinal(result) == n
