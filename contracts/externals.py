"""Assumed contracts of standard-library functions (trusted base, DESIGN 3.5).
Each is executable and cross-checked against the real function by `vcheck axioms`."""
from pyvc.contracts import external, R, implies
import spec.core as S


@external("binascii.crc32")
class crc32:
    params = ["data"]
    types = dict(data="bytes")
    returns = "int"
    ensures = lambda data, result: result == S.crc32(data) and 0 <= result < 2 ** 32
