"""Assumed contracts of standard-library functions (trusted base, DESIGN 3.5).
Each is executable and cross-checked against the real function by `vcheck axioms`."""
from pyvc.contracts import external, R, implies
import spec.core as S


@external("binascii.crc32")
class crc32:
    params = ["data"]
    types = dict(data="bytes")
    returns = "int"
    ensures = lambda data, result: result == S.crc32(data) and 0 <= result < 2 ** 32


# ---- random (utils.gen_data, C20): only ranges and kinds are assumed, nothing about the distribution
@external("random.randint")
class random_randint:
    params = ["a", "b"]
    types = dict(a="int", b="int")
    returns = "int"
    raises = [R("ValueError", when=lambda a, b: a > b)]
    ensures = lambda a, b, result: a <= result and result <= b


@external("random.random")
class random_random:
    params = []
    types = dict()
    returns = "float"
    ensures = lambda result: True


@external("random.getrandbits")
class random_getrandbits:
    params = ["k"]
    types = dict(k="int")
    returns = "int"
    requires = lambda k: k >= 0
    ensures = lambda k, result: 0 <= result and result < 2 ** k


@external("random.choices")
class random_choices:
    params = ["population", "k"]
    types = dict(population="str", k="int")
    returns = "list"
    requires = lambda population, k: k >= 0 and len(population) >= 1
    ensures = lambda population, k, result: len(result) == k and S.ALL_STRS(result, 0)
