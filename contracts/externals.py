"""Assumed contracts of standard-library functions (trusted base, DESIGN 3.5).
Each is executable and cross-checked against the real function by `vcheck axioms`."""
from pyvc.contracts import external, R, implies
import spec.core as S


@external("binascii.crc32")
class crc32:
    params = ["data"]
    types = dict(data="bytes")
    returns = "int"
    ensures = lambda data, result: result == S.crc32(data) and 0 <= result < 2 ** 32


# ---- random (utils.gen_data, C20): only ranges and kinds are assumed, nothing about the distribution
@external("random.randint")
class random_randint:
    params = ["a", "b"]
    types = dict(a="int", b="int")
    returns = "int"
    raises = [R("ValueError", when=lambda a, b: a > b)]
    ensures = lambda a, b, result: a <= result and result <= b


@external("random.random")
class random_random:
    params = []
    types = dict()
    returns = "float"
    ensures = lambda result: True


@external("random.getrandbits")
class random_getrandbits:
    params = ["k"]
    types = dict(k="int")
    returns = "int"
    requires = lambda k: k >= 0
    ensures = lambda k, result: 0 <= result and result < 2 ** k


@external("random.choices")
class random_choices:
    params = ["population", "k"]
    types = dict(population="str", k="int")
    returns = "list"
    requires = lambda population, k: k >= 0 and len(population) >= 1
    ensures = lambda population, k, result: len(result) == k and S.ALL_STRS(result, 0)


# ---- calendar constructors (C16): assumed contracts of the standard library, cross-checked by `vcheck axioms`
@external("datetime.time")
class datetime_time:
    """time(hour, minute, second, microsecond): a naive time of day with exactly these fields; out-of-range ⇒ ValueError"""
    params = ["hour", "minute", "second", "microsecond"]
    types = dict(hour="int", minute="int", second="int", microsecond="int")
    returns = "py"
    raises = [R("ValueError", when=lambda hour, minute, second, microsecond: not (
        0 <= hour and hour < 24 and 0 <= minute and minute < 60 and 0 <= second and second < 60
        and 0 <= microsecond and microsecond < 1000000))]
    ensures = lambda hour, minute, second, microsecond, result: (
        S.is_time(result) and S.tod_hour(result) == hour and S.tod_minute(result) == minute
        and S.tod_second(result) == second and S.tod_micro(result) == microsecond)


@external("datetime.date.fromordinal")
class date_fromordinal:
    params = ["n"]
    types = dict(n="int")
    returns = "py"
    raises = [R("ValueError", when=lambda n: not (1 <= n and n <= 3652059))]
    ensures = lambda n, result: S.is_date(result) and S.date_ordinal(result) == n


# ---- datetime arithmetic (C16, timestamps): assumed contracts of the standard library, cross-checked by `vcheck axioms`.
# dt_us: microseconds from 0001-01-01T00:00 (UTC instant of an aware datetime, wall clock of a naive one)
@external("datetime.__sub__")
class datetime_sub:
    """datetime - datetime: the exact difference as a normalised timedelta; mixing aware and naive is a TypeError"""
    params = ["a", "b"]
    types = dict(a="py", b="py")
    requires = lambda a, b: S.is_datetime(a) and S.is_datetime(b)
    returns = "py"
    raises = [R("TypeError", when=lambda a, b: S.dt_aware(a) != S.dt_aware(b))]
    ensures = lambda a, b, result: (
        S.is_timedelta(result) and S.td_total_us(result) == S.dt_us(a) - S.dt_us(b)
        and 0 <= S.td_seconds(result) and S.td_seconds(result) < 86400
        and 0 <= S.td_micros(result) and S.td_micros(result) < 1000000)


@external("datetime.__add__")
class datetime_add:
    """datetime + timedelta: the instant moved by exactly the timedelta, same zone; outside years 1..9999 ⇒ OverflowError"""
    params = ["a", "b"]
    types = dict(a="py", b="py")
    requires = lambda a, b: S.is_datetime(a) and S.is_timedelta(b)
    returns = "py"
    raises = [R("OverflowError", when=lambda a, b: not (
        0 <= S.dt_us(a) + S.dt_offset_us(a) + S.td_total_us(b) and S.dt_us(a) + S.dt_offset_us(a) + S.td_total_us(b) <= S.MAX_DT_US))]
    ensures = lambda a, b, result: (
        S.is_datetime(result) and S.dt_us(result) == S.dt_us(a) + S.td_total_us(b)
        and S.dt_aware(result) == S.dt_aware(a) and S.dt_offset_us(result) == S.dt_offset_us(a))


@external("datetime.timedelta")
class datetime_timedelta:
    """timedelta(microseconds=n): exactly n microseconds (normalised); more than 999999999 days either way ⇒ OverflowError"""
    params = ["microseconds"]
    types = dict(microseconds="int")
    returns = "py"
    raises = [R("OverflowError", when=lambda microseconds: not (
        -86399999913600000000 <= microseconds and microseconds <= 86399999999999999999))]
    ensures = lambda microseconds, result: (
        S.is_timedelta(result) and S.td_total_us(result) == microseconds
        and 0 <= S.td_seconds(result) and S.td_seconds(result) < 86400
        and 0 <= S.td_micros(result) and S.td_micros(result) < 1000000)


@external("datetime.replace_tzinfo_utc")
class datetime_replace_tzinfo_utc:
    """naive.replace(tzinfo=timezone.utc): the same wall-clock reading, now as an instant in UTC"""
    params = ["x"]
    types = dict(x="py")
    requires = lambda x: S.is_datetime(x) and not S.dt_aware(x)
    returns = "py"
    ensures = lambda x, result: (
        S.is_datetime(result) and S.dt_aware(result) and S.dt_offset_us(result) == 0 and S.dt_us(result) == S.dt_us(x))
