"""Contracts of the public single-datum entry points on an already parsed schema (C01, C02, C03): what
`fastavro.schemaless_writer` / `fastavro.schemaless_reader` do is what the verified internals do, with the name table the
parsed schema carries (NT) and the options the keyword arguments spell."""
from pyvc.contracts import target, R, implies, same
from pyvc.dsl import is_data
import spec.core as S
import spec.avro as A
import spec.canon as K
import contracts.lemmas as L

W = "fastavro/_write_py.py"
RD = "fastavro/_read_py.py"


@target(W, "schemaless_writer")
class schemaless_writer:
    """appends exactly the specification's encoding of the record under the parsed schema"""
    types = dict(fo="OutStream", schema="dict", record="py", strict="bool", strict_allow_default="bool", disable_tuple_notation="bool")
    requires = lambda fo, schema, record, strict, strict_allow_default, disable_tuple_notation: (
        fo.pos == len(fo.data) and not strict and not strict_allow_default
        and "__fastavro_parsed" in schema and "__named_schemas" in schema and isinstance(schema["__named_schemas"], dict)
        and "logicalType" not in schema
        and A.WF(schema, K.NT(schema)) and is_data(record)
        and A.DEFAULTS_DATA(schema, K.NT(schema), {"strict": strict, "strict_allow_default": strict_allow_default,
                                                   "disable_tuple_notation": disable_tuple_notation})
        and A.CONFORMS(record, schema, K.NT(schema), {"strict": strict, "strict_allow_default": strict_allow_default,
                                                      "disable_tuple_notation": disable_tuple_notation}))
    modifies = ["fo"]
    opaque_here = ["VALID", "SEL", "STRIP", "DEFER_DOUBLE", "FIRST_NONREC", "BEST_REC", "WF", "DEFAULTS_DATA", "CONFORMS", "ENC", "MERGED"]
    call_behaviors = dict(parse_schema="parsed", write_data="default")
    raises = [R("OverflowError", must=False, ensures=lambda fo: fo.data.startswith(old.fo.data))]
    ensures = lambda fo, schema, record, strict, strict_allow_default, disable_tuple_notation, result: (
        fo.data == old.fo.data + A.ENC(schema, K.NT(schema), record,
                                       {"strict": strict, "strict_allow_default": strict_allow_default,
                                        "disable_tuple_notation": disable_tuple_notation})
        and fo.pos == len(fo.data))


@target(RD, "schemaless_reader")
class schemaless_reader:
    """reads back exactly one value of the parsed writer schema: for every encoding derivation w, the value it denotes,
    consuming exactly its bytes (no reader schema, plain options)"""
    types = dict(fo="InStream", writer_schema="dict", reader_schema="none", return_record_name="bool",
                 return_record_name_override="bool", handle_unicode_errors="str", return_named_type="bool",
                 return_named_type_override="bool")
    ghosts = dict(w="py", rest="bytes")
    requires = lambda fo, writer_schema, return_record_name, return_record_name_override, return_named_type, return_named_type_override: (
        not return_record_name and not return_record_name_override and not return_named_type and not return_named_type_override
        and "__fastavro_parsed" in writer_schema and "__named_schemas" in writer_schema
        and isinstance(writer_schema["__named_schemas"], dict) and "logicalType" not in writer_schema
        and A.WF(writer_schema, K.NT(writer_schema))
        and A.WFW(writer_schema, K.NT(writer_schema), w)
        and fo.rem == A.BYTES(writer_schema, K.NT(writer_schema), w) + rest)
    modifies = ["fo"]
    opaque_here = ["WF", "WFW", "BYTES", "VALUE", "MERGED"]
    unfold_here = []
    call_behaviors = dict(parse_schema="parsed", read_data="default", _default_named_schemas="default")
    call_ghosts = {"read_data": dict(w=lambda: w, rest=lambda: rest)}
    ensures = lambda fo, writer_schema, result: (
        result == A.VALUE(writer_schema, K.NT(writer_schema), w) and fo.rem == rest
        and fo.pos == old.fo.pos + len(A.BYTES(writer_schema, K.NT(writer_schema), w)) and fo.data == old.fo.data)


VP = "fastavro/_validation_py.py"


@target(VP, "validate")
class validate:
    """C10 at the public entry point (parsed schema, raise_errors=False): the answer is exactly VALID -- the statement's
    conformance predicate -- under the name table the schema carries and the options the keywords spell"""
    types = dict(datum="py", schema="dict", field="str", raise_errors="bool", strict="bool", disable_tuple_notation="bool")
    returns = "bool"
    requires = lambda datum, schema, raise_errors, strict, disable_tuple_notation: (
        not raise_errors and is_data(datum)
        and "__fastavro_parsed" in schema and "__named_schemas" in schema and isinstance(schema["__named_schemas"], dict)
        and "logicalType" not in schema and A.WF(schema, K.NT(schema))
        and A.DEFAULTS_DATA(schema, K.NT(schema), {"strict": strict, "disable_tuple_notation": disable_tuple_notation}))
    modifies = []
    opaque_here = ["VALID", "WF", "DEFAULTS_DATA", "MERGED"]
    call_behaviors = dict(parse_schema="parsed", _validate="default")
    ensures = lambda datum, schema, strict, disable_tuple_notation, result: (
        result == A.VALID(datum, schema, K.NT(schema), {"strict": strict, "disable_tuple_notation": disable_tuple_notation}))


@target(VP, "validate", behavior="raising")
class validate_raising:
    """raise_errors=True: ValidationError exactly when the datum is not VALID, True otherwise"""
    types = dict(datum="py", schema="dict", field="str", raise_errors="bool", strict="bool", disable_tuple_notation="bool")
    returns = "bool"
    requires = lambda datum, schema, raise_errors, strict, disable_tuple_notation: (
        raise_errors and is_data(datum)
        and "__fastavro_parsed" in schema and "__named_schemas" in schema and isinstance(schema["__named_schemas"], dict)
        and "logicalType" not in schema and A.WF(schema, K.NT(schema))
        and A.DEFAULTS_DATA(schema, K.NT(schema), {"strict": strict, "disable_tuple_notation": disable_tuple_notation}))
    modifies = []
    opaque_here = ["VALID", "WF", "DEFAULTS_DATA", "MERGED"]
    call_behaviors = dict(parse_schema="parsed", _validate="raising")
    raises = [R("ValidationError", when=lambda datum, schema, strict, disable_tuple_notation: not A.VALID(
        datum, schema, K.NT(schema), {"strict": strict, "disable_tuple_notation": disable_tuple_notation}))]
    ensures = lambda result: result == True


@target(VP, "validate_many")
class validate_many:
    """raise_errors=False: the conjunction of what VALID says about each record, in order"""
    types = dict(records="list", schema="dict", raise_errors="bool", strict="bool", disable_tuple_notation="bool")
    returns = "bool"
    requires = lambda records, schema, raise_errors, strict, disable_tuple_notation: (
        not raise_errors
        and "__fastavro_parsed" in schema and "__named_schemas" in schema and isinstance(schema["__named_schemas"], dict)
        and "logicalType" not in schema and A.WF(schema, K.NT(schema))
        and A.DEFAULTS_DATA(schema, K.NT(schema), {"strict": strict, "disable_tuple_notation": disable_tuple_notation}))
    modifies = []
    opaque_here = ["VALID", "WF", "DEFAULTS_DATA", "MERGED"]
    uses_locals = ["results", "errors", "parsed_schema", "named_schemas"]
    call_behaviors = dict(parse_schema="parsed", _validate="default")
    loops = {0: lambda records, schema, strict, disable_tuple_notation, results, errors, parsed_schema, named_schemas: (
        same(parsed_schema, schema) and same(named_schemas, K.NT(schema)) and len(errors) == 0
        and same(results, A.VALID_FLAGS(records, schema, K.NT(schema),
                                        {"strict": strict, "disable_tuple_notation": disable_tuple_notation}, _i)))}
    ensures = lambda records, schema, strict, disable_tuple_notation, result: (
        result == S.all_truthy(A.VALID_FLAGS(records, schema, K.NT(schema),
                                             {"strict": strict, "disable_tuple_notation": disable_tuple_notation}, len(records))))


U = "fastavro/utils.py"


@target(U, "generate_many")
class generate_many:
    """C20 at the public entry point (parsed schema): exactly `count` values come out and every one of them validates
    against the schema"""
    types = dict(schema="dict", count="int")
    requires = lambda schema, count: (
        count >= 0
        and "__fastavro_parsed" in schema and "__named_schemas" in schema and isinstance(schema["__named_schemas"], dict)
        and "logicalType" not in schema and A.WF(schema, K.NT(schema)) and A.GENOK(schema, K.NT(schema))
        and schema["type"] != "error" and schema["type"] != "union" and schema["type"] != "error_union")
    modifies = []
    opaque_here = ["VALID", "WF", "GENOK", "MERGED"]
    uses_locals = ["parsed_schema", "named_schemas"]
    call_behaviors = dict(parse_schema="parsed", gen_data="default")
    yield_hints = [lambda: L.allvalid_r_append(yielded, _y, schema, K.NT(schema), {}, len(yielded))]
    loops = {0: lambda schema, count, parsed_schema, named_schemas: (
        same(parsed_schema, schema) and same(named_schemas, K.NT(schema))
        and len(yielded) == _i and A.ALL_VALID_R(yielded, schema, K.NT(schema), {}, _i))}
    ensures = lambda schema, count, yielded: (
        len(yielded) == count and A.ALL_VALID_R(yielded, schema, K.NT(schema), {}, count))


SPM = "fastavro/_schema_py.py"


@target(SPM, "parse_schema", behavior="parsed0")
class parse_schema_parsed0:
    """an already parsed schema, no name table given: returned as it is"""
    types = dict(schema="dict", named_schemas="none", expand="bool", _write_hint="bool", _force="bool",
                 _ignore_default_error="bool")
    requires = lambda schema, expand, _force: (
        "__fastavro_parsed" in schema and "__named_schemas" in schema and isinstance(schema["__named_schemas"], dict)
        and not _force and not expand)
    modifies = []
    ensures = lambda schema, result: same(result, schema)
    loops = {0: lambda schema: True}


@target(SPM, "to_parsing_canonical_form")
class to_parsing_canonical_form:
    """C13 at the public entry point (parsed schema): the text returned is exactly the Parsing Canonical Form"""
    types = dict(schema="dict")
    returns = "str"
    requires = lambda schema: (
        "__fastavro_parsed" in schema and "__named_schemas" in schema and isinstance(schema["__named_schemas"], dict)
        and K.CANON_WF(schema))
    modifies = []
    opaque_here = ["PCF", "CANON_WF"]
    call_behaviors = dict(parse_schema="parsed0", _to_parsing_canonical_form="default")
    ensures = lambda schema, result: result == K.PCF(schema)
