"""Contracts for the logical-type converters (C16): time-millis, time-micros, date.

Calendar objects are opaque values; what the converters read from them are the observer spec functions
tod_hour / tod_minute / tod_second / tod_micro / date_ordinal (spec/core.py), and what the readers build goes
through the assumed constructor contracts datetime.time / date.fromordinal (contracts/externals.py)."""
from pyvc.contracts import target, lemma, R, implies, same
import spec.core as S
import spec.avro as A
from pyvc.dsl import is_lib

LW = "fastavro/_logical_writers_py.py"
LR = "fastavro/_logical_readers_py.py"


@target(LW, "prepare_time_millis")
class prepare_time_millis:
    """a time of day is stored as the number of milliseconds after midnight (microseconds truncated);
    anything that is not a datetime.time is passed on untouched"""
    types = dict(data="py", schema="py")
    modifies = []
    ensures = lambda data, result: (
        implies(S.is_time(data), same(result, ((S.tod_hour(data) * 60 + S.tod_minute(data)) * 60 + S.tod_second(data)) * 1000
                                      + S.tod_micro(data) // 1000)
                and 0 <= ((S.tod_hour(data) * 60 + S.tod_minute(data)) * 60 + S.tod_second(data)) * 1000 + S.tod_micro(data) // 1000
                and ((S.tod_hour(data) * 60 + S.tod_minute(data)) * 60 + S.tod_second(data)) * 1000 + S.tod_micro(data) // 1000 < 86400000)
        and implies(not S.is_time(data), same(result, data)))


@target(LW, "prepare_time_micros")
class prepare_time_micros:
    types = dict(data="py", schema="py")
    modifies = []
    ensures = lambda data, result: (
        implies(S.is_time(data), same(result, ((S.tod_hour(data) * 60 + S.tod_minute(data)) * 60 + S.tod_second(data)) * 1000000
                                      + S.tod_micro(data))
                and 0 <= ((S.tod_hour(data) * 60 + S.tod_minute(data)) * 60 + S.tod_second(data)) * 1000000 + S.tod_micro(data)
                and ((S.tod_hour(data) * 60 + S.tod_minute(data)) * 60 + S.tod_second(data)) * 1000000 + S.tod_micro(data) < 86400000000)
        and implies(not S.is_time(data), same(result, data)))


@target(LR, "read_time_millis")
class read_time_millis:
    """every stored value 0 <= n < 86 400 000 comes back as the time of day with that many milliseconds after midnight"""
    types = dict(data="int", writer_schema="py", reader_schema="py")
    requires = lambda data: 0 <= data and data < 86400000
    modifies = []
    returns = "py"
    ensures = lambda data, result: (
        S.is_time(result) and S.tod_hour(result) == data // 3600000 and S.tod_minute(result) == (data // 60000) % 60
        and S.tod_second(result) == (data // 1000) % 60 and S.tod_micro(result) == (data % 1000) * 1000)


@target(LR, "read_time_micros")
class read_time_micros:
    types = dict(data="int", writer_schema="py", reader_schema="py")
    requires = lambda data: 0 <= data and data < 86400000000
    modifies = []
    returns = "py"
    ensures = lambda data, result: (
        S.is_time(result) and S.tod_hour(result) == data // 3600000000 and S.tod_minute(result) == (data // 60000000) % 60
        and S.tod_second(result) == (data // 1000000) % 60 and S.tod_micro(result) == data % 1000000)


@target(LW, "prepare_date")
class prepare_date:
    """a date is stored as the number of days from 1970-01-01 (ordinal 719163)"""
    types = dict(data="py", schema="py")
    requires = lambda data: not isinstance(data, str)
    modifies = []
    ensures = lambda data, result: (
        implies(S.is_date(data), same(result, S.date_ordinal(data) - 719163)
                and -719162 <= S.date_ordinal(data) - 719163 and S.date_ordinal(data) - 719163 <= 2932896)
        and implies(not S.is_date(data) and not S.is_datetime(data), same(result, data)))


@target(LR, "read_date")
class read_date:
    types = dict(data="int", writer_schema="py", reader_schema="py")
    modifies = []
    returns = "py"
    raises = [R("ValueError", when=lambda data: not (1 <= data + 719163 and data + 719163 <= 3652059))]
    ensures = lambda data, result: S.is_date(result) and S.date_ordinal(result) == data + 719163


# ------------------------------------------------------------------ round trips (pure arithmetic over the two contracts)
@lemma("time_millis_roundtrip")
class time_millis_roundtrip:
    """what prepare_time_millis stores for the time of day h:m:s.us is inside read_time_millis' domain and is read
    back as h:m:s with the microseconds truncated to whole milliseconds"""
    types = dict(h="int", m="int", s="int", us="int")
    requires = lambda h, m, s, us: 0 <= h and h < 24 and 0 <= m and m < 60 and 0 <= s and s < 60 and 0 <= us and us < 1000000
    ensures = lambda h, m, s, us: (
        0 <= ((h * 60 + m) * 60 + s) * 1000 + us // 1000 and ((h * 60 + m) * 60 + s) * 1000 + us // 1000 < 86400000
        and (((h * 60 + m) * 60 + s) * 1000 + us // 1000) // 3600000 == h
        and ((((h * 60 + m) * 60 + s) * 1000 + us // 1000) // 60000) % 60 == m
        and ((((h * 60 + m) * 60 + s) * 1000 + us // 1000) // 1000) % 60 == s
        and ((((h * 60 + m) * 60 + s) * 1000 + us // 1000) % 1000) * 1000 == us - us % 1000)

    def body(h, m, s, us):
        pass


@lemma("time_micros_roundtrip")
class time_micros_roundtrip:
    types = dict(h="int", m="int", s="int", us="int")
    requires = lambda h, m, s, us: 0 <= h and h < 24 and 0 <= m and m < 60 and 0 <= s and s < 60 and 0 <= us and us < 1000000
    ensures = lambda h, m, s, us: (
        0 <= ((h * 60 + m) * 60 + s) * 1000000 + us and ((h * 60 + m) * 60 + s) * 1000000 + us < 86400000000
        and (((h * 60 + m) * 60 + s) * 1000000 + us) // 3600000000 == h
        and ((((h * 60 + m) * 60 + s) * 1000000 + us) // 60000000) % 60 == m
        and ((((h * 60 + m) * 60 + s) * 1000000 + us) // 1000000) % 60 == s
        and (((h * 60 + m) * 60 + s) * 1000000 + us) % 1000000 == us)

    def body(h, m, s, us):
        pass


@lemma("time_millis_onto")
class time_millis_onto:
    """conversely every stored value is the image of the time of day it is read as (no two stored values collapse)"""
    types = dict(n="int")
    requires = lambda n: 0 <= n and n < 86400000
    ensures = lambda n: (((n // 3600000) * 60 + (n // 60000) % 60) * 60 + (n // 1000) % 60) * 1000 + ((n % 1000) * 1000) // 1000 == n

    def body(n):
        pass


@lemma("time_micros_onto")
class time_micros_onto:
    types = dict(n="int")
    requires = lambda n: 0 <= n and n < 86400000000
    ensures = lambda n: (((n // 3600000000) * 60 + (n // 60000000) % 60) * 60 + (n // 1000000) % 60) * 1000000 + n % 1000000 == n

    def body(n):
        pass


# ------------------------------------------------------------------ decimals
import contracts.lemmas as L


@target(LW, "prepare_bytes_decimal")
class prepare_bytes_decimal:
    """a finite decimal is stored as the big-endian two's complement of its unscaled integer
    (-1)**sign * digits * 10**(exponent + scale), in the number of bytes that integer needs; it is never stored as a
    different number: more digits than the precision, or more fractional digits than the scale, raise ValueError.
    Anything that is not a Decimal is passed on untouched."""
    types = dict(data="py", schema="dict")
    requires = lambda data, schema: (
        isinstance(schema.get("scale", 0), int) and not isinstance(schema.get("scale", 0), bool)
        and "precision" in schema and isinstance(schema["precision"], int) and not isinstance(schema["precision"], bool)
        and implies(S.is_decimal(data), isinstance(S.dec_exp(data), int) and not isinstance(S.dec_exp(data), bool)))
    modifies = []
    uses_locals = ["unscaled_datum", "digits", "delta", "sign", "exp", "scale"]
    raises = [R("ValueError", when=lambda data, schema: S.is_decimal(data) and (
        len(S.dec_digits(data)) > schema["precision"] or S.dec_exp(data) + schema.get("scale", 0) < 0))]
    loops = {0: lambda data, schema, unscaled_datum, digits, delta, sign, exp, scale: (
        same(digits, S.dec_digits(data)) and sign == S.dec_sign(data) and same(exp, S.dec_exp(data))
        and same(scale, schema.get("scale", 0)) and delta == S.dec_exp(data) + schema.get("scale", 0) and delta >= 0
        and S.DIGITS_OK(S.dec_digits(data), len(S.dec_digits(data)))
        and unscaled_datum == S.DIGVAL(S.dec_digits(data), _i) and unscaled_datum >= 0)}
    loop_hints = {0: [lambda: L.digit_at(S.dec_digits(data), len(S.dec_digits(data)), _i)]}
    exit_hints = {0: [lambda: L.pow10_pos(delta), lambda: L.pow2_mono(
        S.bit_length(S.pow10(delta) * unscaled_datum),
        8 * ((S.bit_length(S.pow10(delta) * unscaled_datum) + 8) // 8) - 1)]}
    ensures = lambda data, schema, result: (
        implies(not S.is_decimal(data), same(result, data))
        and implies(S.is_decimal(data), same(result, S.int_to_bytes_signed_big(
            S.UNSCALED(data, schema.get("scale", 0)),
            (S.bit_length(S.pow10(S.dec_exp(data) + schema.get("scale", 0)) * S.DIGVAL(S.dec_digits(data), len(S.dec_digits(data)))) + 8) // 8))))


@target(LW, "prepare_fixed_decimal")
class prepare_fixed_decimal:
    """a finite decimal is stored as the big-endian two's complement of its unscaled integer, sign-extended to exactly
    the declared size; more digits than the precision, more fractional digits than the scale, or an unscaled integer
    that does not fit the size raise ValueError -- it is never stored as a different number.
    (size >= 1: the parser rejects a decimal on a fixed of size 0; CPython's (-1).to_bytes(0, signed=True) is b"".)"""
    types = dict(data="py", schema="dict")
    requires = lambda data, schema: (
        isinstance(schema.get("scale", 0), int) and not isinstance(schema.get("scale", 0), bool)
        and "precision" in schema and isinstance(schema["precision"], int) and not isinstance(schema["precision"], bool)
        and "size" in schema and isinstance(schema["size"], int) and not isinstance(schema["size"], bool) and schema["size"] >= 1
        and implies(S.is_decimal(data), isinstance(S.dec_exp(data), int) and not isinstance(S.dec_exp(data), bool)))
    modifies = []
    uses_locals = ["unscaled_datum", "digits", "delta", "sign", "size"]
    hints = [lambda: L.digits_zeros(S.dec_digits(data), S.dec_exp(data) + schema.get("scale", 0))]
    raises = [R("ValueError", when=lambda data, schema: S.is_decimal(data) and (
        len(S.dec_digits(data)) > schema["precision"] or S.dec_exp(data) + schema.get("scale", 0) < 0
        or not S.FITS_SIGNED(S.UNSCALED(data, schema.get("scale", 0)), schema["size"])))]
    loops = {0: lambda data, schema, unscaled_datum, digits, delta, sign, size: (
        sign == S.dec_sign(data) and same(size, schema["size"])
        and delta == S.dec_exp(data) + schema.get("scale", 0) and delta >= 0
        and same(digits, S.dec_digits(data) + S.repeat_tuple((0,), delta))
        and len(digits) == len(S.dec_digits(data)) + delta
        and S.DIGITS_OK(digits, len(digits))
        and S.DIGVAL(digits, len(digits)) == S.DIGVAL(S.dec_digits(data), len(S.dec_digits(data))) * S.pow10(delta)
        and unscaled_datum == S.DIGVAL(digits, _i) and unscaled_datum >= 0)}
    loop_hints = {0: [lambda: L.digit_at(digits, len(digits), _i)]}
    ensures = lambda data, schema, result: (
        implies(not S.is_decimal(data), same(result, data))
        and implies(S.is_decimal(data), same(result, S.int_to_bytes_signed_big(S.UNSCALED(data, schema.get("scale", 0)), schema["size"]))))


# ------------------------------------------------------------------ timestamps
# dt_us(x): microseconds from 0001-01-01T00:00 -- the UTC instant of an aware datetime, the wall-clock reading of a
# naive one; `epoch` / `epoch_naive` are the module constants of the code itself (1970-01-01T00:00, UTC / naive),
# whose observer values CPython's datetime computes at verification time (EPOCH_US).
@target(LW, "prepare_timestamp_millis")
class prepare_timestamp_millis:
    """an aware datetime with ANY offset, before or after the epoch, is stored as the number of whole milliseconds
    from the UTC epoch to its instant (floor: the sub-millisecond part is dropped towards the past)"""
    types = dict(data="py", schema="py")
    requires = lambda data: implies(is_lib(data, "datetime.datetime"), S.dt_aware(data))
    modifies = []
    lib_arith = True
    ensures = lambda data, result: (
        implies(S.is_datetime(data), same(result, (S.dt_us(data) - S.EPOCH_US) // 1000))
        and implies(not S.is_datetime(data), same(result, data)))


@target(LW, "prepare_timestamp_micros")
class prepare_timestamp_micros:
    types = dict(data="py", schema="py")
    requires = lambda data: implies(is_lib(data, "datetime.datetime"), S.dt_aware(data))
    modifies = []
    lib_arith = True
    ensures = lambda data, result: (
        implies(S.is_datetime(data), same(result, S.dt_us(data) - S.EPOCH_US))
        and implies(not S.is_datetime(data), same(result, data)))


@target(LW, "prepare_local_timestamp_millis")
class prepare_local_timestamp_millis:
    """a naive datetime is stored as the milliseconds from 1970-01-01T00:00 to its wall-clock reading"""
    types = dict(data="py", schema="py")
    requires = lambda data: implies(is_lib(data, "datetime.datetime"), not S.dt_aware(data))
    modifies = []
    lib_arith = True
    ensures = lambda data, result: (
        implies(S.is_datetime(data), same(result, (S.dt_us(data) - S.EPOCH_US) // 1000))
        and implies(not S.is_datetime(data), same(result, data)))


@target(LW, "prepare_local_timestamp_micros")
class prepare_local_timestamp_micros:
    types = dict(data="py", schema="py")
    requires = lambda data: implies(is_lib(data, "datetime.datetime"), not S.dt_aware(data))
    modifies = []
    lib_arith = True
    ensures = lambda data, result: (
        implies(S.is_datetime(data), same(result, S.dt_us(data) - S.EPOCH_US))
        and implies(not S.is_datetime(data), same(result, data)))


@target(LR, "read_timestamp_millis")
class read_timestamp_millis:
    """every stored value inside the datetime range comes back as the aware datetime, in UTC, of that instant"""
    types = dict(data="int", writer_schema="py", reader_schema="py")
    requires = lambda data: 0 <= S.EPOCH_US + data * 1000 and S.EPOCH_US + data * 1000 <= S.MAX_DT_US
    modifies = []
    lib_arith = True
    returns = "py"
    ensures = lambda data, result: (
        S.is_datetime(result) and S.dt_aware(result) and S.dt_offset_us(result) == 0
        and S.dt_us(result) == S.EPOCH_US + data * 1000)


@target(LR, "read_timestamp_micros")
class read_timestamp_micros:
    types = dict(data="int", writer_schema="py", reader_schema="py")
    requires = lambda data: 0 <= S.EPOCH_US + data and S.EPOCH_US + data <= S.MAX_DT_US
    modifies = []
    lib_arith = True
    returns = "py"
    ensures = lambda data, result: (
        S.is_datetime(result) and S.dt_aware(result) and S.dt_offset_us(result) == 0
        and S.dt_us(result) == S.EPOCH_US + data)


@target(LR, "read_local_timestamp_millis")
class read_local_timestamp_millis:
    types = dict(data="int", writer_schema="py", reader_schema="py")
    requires = lambda data: 0 <= S.EPOCH_US + data * 1000 and S.EPOCH_US + data * 1000 <= S.MAX_DT_US
    modifies = []
    lib_arith = True
    returns = "py"
    ensures = lambda data, result: (
        S.is_datetime(result) and not S.dt_aware(result) and S.dt_us(result) == S.EPOCH_US + data * 1000)


@target(LR, "read_local_timestamp_micros")
class read_local_timestamp_micros:
    types = dict(data="int", writer_schema="py", reader_schema="py")
    requires = lambda data: 0 <= S.EPOCH_US + data and S.EPOCH_US + data <= S.MAX_DT_US
    modifies = []
    lib_arith = True
    returns = "py"
    ensures = lambda data, result: (
        S.is_datetime(result) and not S.dt_aware(result) and S.dt_us(result) == S.EPOCH_US + data)


# ------------------------------------------------------------------ the write path: prepare, then the binary codec
W = "fastavro/_write_py.py"


@target(W, "write_data", behavior="time-millis")
class write_data_time_millis:
    """C16 on the write path: a time of day under {"type": "int", "logicalType": "time-millis"} is written as the Avro
    int of its milliseconds after midnight"""
    types = dict(encoder="BinaryEncoder", datum="py", schema="dict", named_schemas="dict", fname="py", options="dict")
    requires = lambda encoder, datum, schema: (
        encoder._fo.pos == len(encoder._fo.data) and is_lib(datum, "datetime.time")
        and "type" in schema and schema["type"] == "int" and schema.get("logicalType") == "time-millis")
    modifies = ["encoder._fo"]
    call_behaviors = dict(prepare_time_millis="default", write_int="default")
    ensures = lambda encoder, datum, result: (
        encoder._fo.data == old.encoder._fo.data + S.long_bytes(
            ((S.tod_hour(datum) * 60 + S.tod_minute(datum)) * 60 + S.tod_second(datum)) * 1000 + S.tod_micro(datum) // 1000)
        and encoder._fo.pos == len(encoder._fo.data))


@target(W, "write_data", behavior="time-micros")
class write_data_time_micros:
    types = dict(encoder="BinaryEncoder", datum="py", schema="dict", named_schemas="dict", fname="py", options="dict")
    requires = lambda encoder, datum, schema: (
        encoder._fo.pos == len(encoder._fo.data) and is_lib(datum, "datetime.time")
        and "type" in schema and schema["type"] == "long" and schema.get("logicalType") == "time-micros")
    modifies = ["encoder._fo"]
    call_behaviors = dict(prepare_time_micros="default", write_long="default")
    ensures = lambda encoder, datum, result: (
        encoder._fo.data == old.encoder._fo.data + S.long_bytes(
            ((S.tod_hour(datum) * 60 + S.tod_minute(datum)) * 60 + S.tod_second(datum)) * 1000000 + S.tod_micro(datum))
        and encoder._fo.pos == len(encoder._fo.data))


@target(W, "write_data", behavior="date")
class write_data_date:
    """a date under {"type": "int", "logicalType": "date"} is written as the Avro int of its days from 1970-01-01"""
    types = dict(encoder="BinaryEncoder", datum="py", schema="dict", named_schemas="dict", fname="py", options="dict")
    requires = lambda encoder, datum, schema: (
        encoder._fo.pos == len(encoder._fo.data) and is_lib(datum, "datetime.date")
        and "type" in schema and schema["type"] == "int" and schema.get("logicalType") == "date")
    modifies = ["encoder._fo"]
    call_behaviors = dict(prepare_date="default", write_int="default")
    ensures = lambda encoder, datum, result: (
        encoder._fo.data == old.encoder._fo.data + S.long_bytes(S.date_ordinal(datum) - 719163)
        and encoder._fo.pos == len(encoder._fo.data))


@target(W, "write_data", behavior="timestamp-millis")
class write_data_timestamp_millis:
    """an aware datetime under {"type": "long", "logicalType": "timestamp-millis"} is written as the Avro long of the whole
    milliseconds from the UTC epoch to its instant"""
    types = dict(encoder="BinaryEncoder", datum="py", schema="dict", named_schemas="dict", fname="py", options="dict")
    requires = lambda encoder, datum, schema: (
        encoder._fo.pos == len(encoder._fo.data) and is_lib(datum, "datetime.datetime") and S.dt_aware(datum)
        # library invariant: an aware datetime's UTC instant is within a day of the representable wall-clock range
        and -86400000000 <= S.dt_us(datum) and S.dt_us(datum) <= S.MAX_DT_US + 86400000000
        and "type" in schema and schema["type"] == "long" and schema.get("logicalType") == "timestamp-millis")
    modifies = ["encoder._fo"]
    call_behaviors = dict(prepare_timestamp_millis="default", write_long="default")
    ensures = lambda encoder, datum, result: (
        encoder._fo.data == old.encoder._fo.data + S.long_bytes((S.dt_us(datum) - S.EPOCH_US) // 1000)
        and encoder._fo.pos == len(encoder._fo.data))


@target(W, "write_data", behavior="timestamp-micros")
class write_data_timestamp_micros:
    types = dict(encoder="BinaryEncoder", datum="py", schema="dict", named_schemas="dict", fname="py", options="dict")
    requires = lambda encoder, datum, schema: (
        encoder._fo.pos == len(encoder._fo.data) and is_lib(datum, "datetime.datetime") and S.dt_aware(datum)
        and -86400000000 <= S.dt_us(datum) and S.dt_us(datum) <= S.MAX_DT_US + 86400000000
        and "type" in schema and schema["type"] == "long" and schema.get("logicalType") == "timestamp-micros")
    modifies = ["encoder._fo"]
    call_behaviors = dict(prepare_timestamp_micros="default", write_long="default")
    ensures = lambda encoder, datum, result: (
        encoder._fo.data == old.encoder._fo.data + S.long_bytes(S.dt_us(datum) - S.EPOCH_US)
        and encoder._fo.pos == len(encoder._fo.data))


@target(W, "write_data", behavior="local-timestamp-millis")
class write_data_local_timestamp_millis:
    types = dict(encoder="BinaryEncoder", datum="py", schema="dict", named_schemas="dict", fname="py", options="dict")
    requires = lambda encoder, datum, schema: (
        encoder._fo.pos == len(encoder._fo.data) and is_lib(datum, "datetime.datetime") and not S.dt_aware(datum)
        and 0 <= S.dt_us(datum) and S.dt_us(datum) <= S.MAX_DT_US
        and "type" in schema and schema["type"] == "long" and schema.get("logicalType") == "local-timestamp-millis")
    modifies = ["encoder._fo"]
    call_behaviors = dict(prepare_local_timestamp_millis="default", write_long="default")
    ensures = lambda encoder, datum, result: (
        encoder._fo.data == old.encoder._fo.data + S.long_bytes((S.dt_us(datum) - S.EPOCH_US) // 1000)
        and encoder._fo.pos == len(encoder._fo.data))


@target(W, "write_data", behavior="local-timestamp-micros")
class write_data_local_timestamp_micros:
    types = dict(encoder="BinaryEncoder", datum="py", schema="dict", named_schemas="dict", fname="py", options="dict")
    requires = lambda encoder, datum, schema: (
        encoder._fo.pos == len(encoder._fo.data) and is_lib(datum, "datetime.datetime") and not S.dt_aware(datum)
        and 0 <= S.dt_us(datum) and S.dt_us(datum) <= S.MAX_DT_US
        and "type" in schema and schema["type"] == "long" and schema.get("logicalType") == "local-timestamp-micros")
    modifies = ["encoder._fo"]
    call_behaviors = dict(prepare_local_timestamp_micros="default", write_long="default")
    ensures = lambda encoder, datum, result: (
        encoder._fo.data == old.encoder._fo.data + S.long_bytes(S.dt_us(datum) - S.EPOCH_US)
        and encoder._fo.pos == len(encoder._fo.data))


@target(W, "write_data", behavior="bytes-decimal")
class write_data_bytes_decimal:
    """a finite decimal under {"type": "bytes", "logicalType": "decimal", ...} is written as Avro bytes holding the
    two's complement of its unscaled integer; what precision / scale cannot hold raises ValueError, nothing written"""
    types = dict(encoder="BinaryEncoder", datum="py", schema="dict", named_schemas="dict", fname="py", options="dict")
    requires = lambda encoder, datum, schema: (
        encoder._fo.pos == len(encoder._fo.data) and is_lib(datum, "decimal.Decimal")
        and isinstance(S.dec_exp(datum), int) and not isinstance(S.dec_exp(datum), bool)
        and "type" in schema and schema["type"] == "bytes" and schema.get("logicalType") == "decimal"
        and isinstance(schema.get("scale", 0), int) and not isinstance(schema.get("scale", 0), bool)
        and "precision" in schema and isinstance(schema["precision"], int) and not isinstance(schema["precision"], bool))
    modifies = ["encoder._fo"]
    call_behaviors = dict(prepare_bytes_decimal="default", write_bytes="default")
    raises = [R("ValueError", when=lambda datum, schema: (
        len(S.dec_digits(datum)) > schema["precision"] or S.dec_exp(datum) + schema.get("scale", 0) < 0),
        ensures=lambda encoder: encoder._fo.data == old.encoder._fo.data and encoder._fo.pos == old.encoder._fo.pos)]
    ensures = lambda encoder, datum, schema, result: (
        encoder._fo.data == old.encoder._fo.data
        + S.long_bytes(len(S.int_to_bytes_signed_big(
            S.UNSCALED(datum, schema.get("scale", 0)),
            (S.bit_length(S.pow10(S.dec_exp(datum) + schema.get("scale", 0)) * S.DIGVAL(S.dec_digits(datum), len(S.dec_digits(datum)))) + 8) // 8)))
        + S.int_to_bytes_signed_big(
            S.UNSCALED(datum, schema.get("scale", 0)),
            (S.bit_length(S.pow10(S.dec_exp(datum) + schema.get("scale", 0)) * S.DIGVAL(S.dec_digits(datum), len(S.dec_digits(datum)))) + 8) // 8)
        and encoder._fo.pos == len(encoder._fo.data))


@target(W, "write_data", behavior="fixed-decimal")
class write_data_fixed_decimal:
    """... and under a fixed of size n as exactly n bytes (sign-extended); a number that does not fit raises ValueError"""
    types = dict(encoder="BinaryEncoder", datum="py", schema="dict", named_schemas="dict", fname="py", options="dict")
    requires = lambda encoder, datum, schema, named_schemas: (
        encoder._fo.pos == len(encoder._fo.data) and is_lib(datum, "decimal.Decimal")
        and isinstance(S.dec_exp(datum), int) and not isinstance(S.dec_exp(datum), bool)
        and "type" in schema and schema["type"] == "fixed" and schema.get("logicalType") == "decimal"
        and A.WF(schema, named_schemas)
        and isinstance(schema.get("scale", 0), int) and not isinstance(schema.get("scale", 0), bool)
        and "precision" in schema and isinstance(schema["precision"], int) and not isinstance(schema["precision"], bool)
        and "size" in schema and isinstance(schema["size"], int) and not isinstance(schema["size"], bool) and schema["size"] >= 1)
    modifies = ["encoder._fo"]
    call_behaviors = dict(prepare_fixed_decimal="default", write_fixed="default")
    raises = [R("ValueError", when=lambda datum, schema: (
        len(S.dec_digits(datum)) > schema["precision"] or S.dec_exp(datum) + schema.get("scale", 0) < 0
        or not S.FITS_SIGNED(S.UNSCALED(datum, schema.get("scale", 0)), schema["size"])),
        ensures=lambda encoder: encoder._fo.data == old.encoder._fo.data and encoder._fo.pos == old.encoder._fo.pos)]
    ensures = lambda encoder, datum, schema, result: (
        encoder._fo.data == old.encoder._fo.data + S.int_to_bytes_signed_big(S.UNSCALED(datum, schema.get("scale", 0)), schema["size"])
        and encoder._fo.pos == len(encoder._fo.data))


# ------------------------------------------------------------------ the read path: the binary codec, then the converter
RDP = "fastavro/_read_py.py"


@target(RDP, "read_data", behavior="time-millis")
class read_data_time_millis:
    """C16 on the read path: the Avro int n (0 <= n < 86 400 000) under {"type": "int", "logicalType": "time-millis"}
    comes back as the time of day n milliseconds after midnight"""
    types = dict(decoder="BinaryDecoder", writer_schema="dict", named_schemas="dict", reader_schema="none", options="dict")
    ghosts = dict(n="int", rest="bytes")
    requires = lambda decoder, writer_schema, named_schemas: (
        0 <= n and n < 86400000 and decoder.fo.rem == S.long_bytes(n) + rest
        and "writer" in named_schemas and isinstance(named_schemas["writer"], dict)
        and "type" in writer_schema and writer_schema["type"] == "int" and writer_schema.get("logicalType") == "time-millis")
    modifies = ["decoder.fo"]
    call_behaviors = dict(read_int="default", read_time_millis="default")
    call_ghosts = {"*": dict(w=lambda: n, rest=lambda: rest)}
    ensures = lambda decoder, result: (
        decoder.fo.rem == rest and S.is_time(result) and S.tod_hour(result) == n // 3600000
        and S.tod_minute(result) == (n // 60000) % 60 and S.tod_second(result) == (n // 1000) % 60
        and S.tod_micro(result) == (n % 1000) * 1000)


@target(RDP, "read_data", behavior="time-micros")
class read_data_time_micros:
    types = dict(decoder="BinaryDecoder", writer_schema="dict", named_schemas="dict", reader_schema="none", options="dict")
    ghosts = dict(n="int", rest="bytes")
    requires = lambda decoder, writer_schema, named_schemas: (
        0 <= n and n < 86400000000 and decoder.fo.rem == S.long_bytes(n) + rest
        and "writer" in named_schemas and isinstance(named_schemas["writer"], dict)
        and "type" in writer_schema and writer_schema["type"] == "long" and writer_schema.get("logicalType") == "time-micros")
    modifies = ["decoder.fo"]
    call_behaviors = dict(read_long="default", read_time_micros="default")
    call_ghosts = {"*": dict(w=lambda: n, rest=lambda: rest)}
    ensures = lambda decoder, result: (
        decoder.fo.rem == rest and S.is_time(result) and S.tod_hour(result) == n // 3600000000
        and S.tod_minute(result) == (n // 60000000) % 60 and S.tod_second(result) == (n // 1000000) % 60
        and S.tod_micro(result) == n % 1000000)


@target(RDP, "read_data", behavior="date")
class read_data_date:
    types = dict(decoder="BinaryDecoder", writer_schema="dict", named_schemas="dict", reader_schema="none", options="dict")
    ghosts = dict(n="int", rest="bytes")
    requires = lambda decoder, writer_schema, named_schemas: (
        1 <= n + 719163 and n + 719163 <= 3652059 and decoder.fo.rem == S.long_bytes(n) + rest
        and "writer" in named_schemas and isinstance(named_schemas["writer"], dict)
        and "type" in writer_schema and writer_schema["type"] == "int" and writer_schema.get("logicalType") == "date")
    modifies = ["decoder.fo"]
    call_behaviors = dict(read_int="default", read_date="default")
    call_ghosts = {"*": dict(w=lambda: n, rest=lambda: rest)}
    ensures = lambda decoder, result: decoder.fo.rem == rest and S.is_date(result) and S.date_ordinal(result) == n + 719163


@target(RDP, "read_data", behavior="timestamp-millis")
class read_data_timestamp_millis:
    """the Avro long n under timestamp-millis comes back as the aware datetime, in UTC, n milliseconds from the epoch"""
    types = dict(decoder="BinaryDecoder", writer_schema="dict", named_schemas="dict", reader_schema="none", options="dict")
    ghosts = dict(n="int", rest="bytes")
    requires = lambda decoder, writer_schema, named_schemas: (
        0 <= S.EPOCH_US + n * 1000 and S.EPOCH_US + n * 1000 <= S.MAX_DT_US and decoder.fo.rem == S.long_bytes(n) + rest
        and "writer" in named_schemas and isinstance(named_schemas["writer"], dict)
        and "type" in writer_schema and writer_schema["type"] == "long" and writer_schema.get("logicalType") == "timestamp-millis")
    modifies = ["decoder.fo"]
    call_behaviors = dict(read_long="default", read_timestamp_millis="default")
    call_ghosts = {"*": dict(w=lambda: n, rest=lambda: rest)}
    ensures = lambda decoder, result: (
        decoder.fo.rem == rest and S.is_datetime(result) and S.dt_aware(result) and S.dt_offset_us(result) == 0
        and S.dt_us(result) == S.EPOCH_US + n * 1000)


@target(RDP, "read_data", behavior="timestamp-micros")
class read_data_timestamp_micros:
    types = dict(decoder="BinaryDecoder", writer_schema="dict", named_schemas="dict", reader_schema="none", options="dict")
    ghosts = dict(n="int", rest="bytes")
    requires = lambda decoder, writer_schema, named_schemas: (
        0 <= S.EPOCH_US + n and S.EPOCH_US + n <= S.MAX_DT_US and decoder.fo.rem == S.long_bytes(n) + rest
        and "writer" in named_schemas and isinstance(named_schemas["writer"], dict)
        and "type" in writer_schema and writer_schema["type"] == "long" and writer_schema.get("logicalType") == "timestamp-micros")
    modifies = ["decoder.fo"]
    call_behaviors = dict(read_long="default", read_timestamp_micros="default")
    call_ghosts = {"*": dict(w=lambda: n, rest=lambda: rest)}
    ensures = lambda decoder, result: (
        decoder.fo.rem == rest and S.is_datetime(result) and S.dt_aware(result) and S.dt_offset_us(result) == 0
        and S.dt_us(result) == S.EPOCH_US + n)


@target(RDP, "read_data", behavior="local-timestamp-millis")
class read_data_local_timestamp_millis:
    types = dict(decoder="BinaryDecoder", writer_schema="dict", named_schemas="dict", reader_schema="none", options="dict")
    ghosts = dict(n="int", rest="bytes")
    requires = lambda decoder, writer_schema, named_schemas: (
        0 <= S.EPOCH_US + n * 1000 and S.EPOCH_US + n * 1000 <= S.MAX_DT_US and decoder.fo.rem == S.long_bytes(n) + rest
        and "writer" in named_schemas and isinstance(named_schemas["writer"], dict)
        and "type" in writer_schema and writer_schema["type"] == "long"
        and writer_schema.get("logicalType") == "local-timestamp-millis")
    modifies = ["decoder.fo"]
    call_behaviors = dict(read_long="default", read_local_timestamp_millis="default")
    call_ghosts = {"*": dict(w=lambda: n, rest=lambda: rest)}
    ensures = lambda decoder, result: (
        decoder.fo.rem == rest and S.is_datetime(result) and not S.dt_aware(result) and S.dt_us(result) == S.EPOCH_US + n * 1000)


@target(RDP, "read_data", behavior="local-timestamp-micros")
class read_data_local_timestamp_micros:
    types = dict(decoder="BinaryDecoder", writer_schema="dict", named_schemas="dict", reader_schema="none", options="dict")
    ghosts = dict(n="int", rest="bytes")
    requires = lambda decoder, writer_schema, named_schemas: (
        0 <= S.EPOCH_US + n and S.EPOCH_US + n <= S.MAX_DT_US and decoder.fo.rem == S.long_bytes(n) + rest
        and "writer" in named_schemas and isinstance(named_schemas["writer"], dict)
        and "type" in writer_schema and writer_schema["type"] == "long"
        and writer_schema.get("logicalType") == "local-timestamp-micros")
    modifies = ["decoder.fo"]
    call_behaviors = dict(read_long="default", read_local_timestamp_micros="default")
    call_ghosts = {"*": dict(w=lambda: n, rest=lambda: rest)}
    ensures = lambda decoder, result: (
        decoder.fo.rem == rest and S.is_datetime(result) and not S.dt_aware(result) and S.dt_us(result) == S.EPOCH_US + n)
