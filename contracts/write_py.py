"""Contracts for fastavro/_write_py.py: type writers and write_data (C01, C02).

Uniform shape: under `WF(schema)` and `CONFORMS(datum, schema)` the function appends
exactly `ENC(schema, ns, datum, options)` -- the specification's encoding -- to the
encoder's stream and touches nothing else.  Numbers too large for the float
width make `struct` raise OverflowError (the property excludes those inputs).
Options: non-strict mode here; the strict clauses are separate behaviours (C10).
"""
from pyvc.contracts import target, R, implies
from pyvc.dsl import seq_items
import spec.core as S
import spec.avro as A

W = "fastavro/_write_py.py"


@target(W, "write_null")
class write_null:
    types = dict(encoder="BinaryEncoder", datum="py", schema="py", named_schemas="dict", fname="py", options="dict")
    requires = lambda encoder, datum, schema, named_schemas, options: (
        A.TYPE(schema) == "null" and A.CONFORMS(datum, schema, named_schemas, options))
    modifies = []
    ensures = lambda encoder, datum, schema, named_schemas, options, result: (
        A.ENC(schema, named_schemas, datum, options) == b"" and result is None)


@target(W, "write_boolean")
class write_boolean:
    types = dict(encoder="BinaryEncoder", datum="py", schema="py", named_schemas="dict", fname="py", options="dict")
    requires = lambda encoder, datum, schema, named_schemas, options: (
        encoder._fo.pos == len(encoder._fo.data)
        and A.TYPE(schema) == "boolean" and A.CONFORMS(datum, schema, named_schemas, options))
    modifies = ["encoder._fo"]
    ensures = lambda encoder, datum, schema, named_schemas, options, result: (
        encoder._fo.data == old.encoder._fo.data + A.ENC(schema, named_schemas, datum, options)
        and encoder._fo.pos == len(encoder._fo.data) and result is None)


@target(W, "write_int")
class write_int:
    types = dict(encoder="BinaryEncoder", datum="py", schema="py", named_schemas="dict", fname="py", options="dict")
    requires = lambda encoder, datum, schema, named_schemas, options: (
        encoder._fo.pos == len(encoder._fo.data)
        and A.TYPE(schema) == "int" and A.CONFORMS(datum, schema, named_schemas, options))
    modifies = ["encoder._fo"]
    ensures = lambda encoder, datum, schema, named_schemas, options, result: (
        encoder._fo.data == old.encoder._fo.data + A.ENC(schema, named_schemas, datum, options)
        and encoder._fo.pos == len(encoder._fo.data) and result is None)


@target(W, "write_long")
class write_long:
    types = dict(encoder="BinaryEncoder", datum="py", schema="py", named_schemas="dict", fname="py", options="dict")
    requires = lambda encoder, datum, schema, named_schemas, options: (
        encoder._fo.pos == len(encoder._fo.data)
        and A.TYPE(schema) == "long" and A.CONFORMS(datum, schema, named_schemas, options))
    modifies = ["encoder._fo"]
    ensures = lambda encoder, datum, schema, named_schemas, options, result: (
        encoder._fo.data == old.encoder._fo.data + A.ENC(schema, named_schemas, datum, options)
        and encoder._fo.pos == len(encoder._fo.data) and result is None)


@target(W, "write_float")
class write_float:
    types = dict(encoder="BinaryEncoder", datum="py", schema="py", named_schemas="dict", fname="py", options="dict")
    requires = lambda encoder, datum, schema, named_schemas, options: (
        encoder._fo.pos == len(encoder._fo.data)
        and A.TYPE(schema) == "float" and A.CONFORMS(datum, schema, named_schemas, options))
    modifies = ["encoder._fo"]
    raises = [R("OverflowError", must=False,
                ensures=lambda encoder: encoder._fo.data.startswith(old.encoder._fo.data))]
    ensures = lambda encoder, datum, schema, named_schemas, options, result: (
        encoder._fo.data == old.encoder._fo.data + A.ENC(schema, named_schemas, datum, options)
        and encoder._fo.pos == len(encoder._fo.data) and result is None)


@target(W, "write_double")
class write_double:
    types = dict(encoder="BinaryEncoder", datum="py", schema="py", named_schemas="dict", fname="py", options="dict")
    requires = lambda encoder, datum, schema, named_schemas, options: (
        encoder._fo.pos == len(encoder._fo.data)
        and A.TYPE(schema) == "double" and A.CONFORMS(datum, schema, named_schemas, options))
    modifies = ["encoder._fo"]
    raises = [R("OverflowError", must=False,
                ensures=lambda encoder: encoder._fo.data.startswith(old.encoder._fo.data))]
    ensures = lambda encoder, datum, schema, named_schemas, options, result: (
        encoder._fo.data == old.encoder._fo.data + A.ENC(schema, named_schemas, datum, options)
        and encoder._fo.pos == len(encoder._fo.data) and result is None)


@target(W, "write_bytes")
class write_bytes:
    types = dict(encoder="BinaryEncoder", datum="py", schema="py", named_schemas="dict", fname="py", options="dict")
    requires = lambda encoder, datum, schema, named_schemas, options: (
        encoder._fo.pos == len(encoder._fo.data)
        and A.TYPE(schema) == "bytes" and A.CONFORMS(datum, schema, named_schemas, options))
    modifies = ["encoder._fo"]
    ensures = lambda encoder, datum, schema, named_schemas, options, result: (
        encoder._fo.data == old.encoder._fo.data + A.ENC(schema, named_schemas, datum, options)
        and encoder._fo.pos == len(encoder._fo.data) and result is None)


@target(W, "write_utf8")
class write_utf8:
    types = dict(encoder="BinaryEncoder", datum="py", schema="py", named_schemas="dict", fname="py", options="dict")
    requires = lambda encoder, datum, schema, named_schemas, options: (
        encoder._fo.pos == len(encoder._fo.data)
        and A.TYPE(schema) == "string" and A.CONFORMS(datum, schema, named_schemas, options))
    modifies = ["encoder._fo"]
    ensures = lambda encoder, datum, schema, named_schemas, options, result: (
        encoder._fo.data == old.encoder._fo.data + A.ENC(schema, named_schemas, datum, options)
        and encoder._fo.pos == len(encoder._fo.data) and result is None)


@target(W, "write_fixed")
class write_fixed:
    """writes the raw bytes; a datum of the wrong length raises before anything is written"""
    types = dict(encoder="BinaryEncoder", datum="py", schema="dict", named_schemas="dict", fname="py", options="dict")
    requires = lambda encoder, datum, schema, named_schemas, options: (
        encoder._fo.pos == len(encoder._fo.data)
        and A.TYPE(schema) == "fixed" and A.WF(schema, named_schemas) and isinstance(datum, bytes))
    modifies = ["encoder._fo"]
    raises = [R("ValueError", when=lambda datum, schema: len(datum) != schema["size"],
                ensures=lambda encoder: (encoder._fo.data == old.encoder._fo.data
                                         and encoder._fo.pos == old.encoder._fo.pos))]
    ensures = lambda encoder, datum, schema, named_schemas, options, result: (
        encoder._fo.data == old.encoder._fo.data + datum
        and A.ENC(schema, named_schemas, datum, options) == datum
        and A.CONFORMS(datum, schema, named_schemas, options)
        and encoder._fo.pos == len(encoder._fo.data) and result is None)


@target(W, "write_enum")
class write_enum:
    types = dict(encoder="BinaryEncoder", datum="py", schema="dict", named_schemas="dict", fname="py", options="dict")
    requires = lambda encoder, datum, schema, named_schemas, options: (
        encoder._fo.pos == len(encoder._fo.data)
        and A.TYPE(schema) == "enum" and A.WF(schema, named_schemas)
        and A.CONFORMS(datum, schema, named_schemas, options))
    modifies = ["encoder._fo"]
    ensures = lambda encoder, datum, schema, named_schemas, options, result: (
        encoder._fo.data == old.encoder._fo.data + A.ENC(schema, named_schemas, datum, options)
        and encoder._fo.pos == len(encoder._fo.data) and result is None)


@target(W, "write_array")
class write_array:
    """one counted block followed by the terminator; the terminator alone when empty"""
    types = dict(encoder="BinaryEncoder", datum="py", schema="dict", named_schemas="dict", fname="py", options="dict")
    requires = lambda encoder, datum, schema, named_schemas, options: (
        encoder._fo.pos == len(encoder._fo.data)
        and A.TYPE(schema) == "array" and A.WF(schema, named_schemas)
        and A.CONFORMS(datum, schema, named_schemas, options)
        and not options.get("strict") and not options.get("strict_allow_default"))
    modifies = ["encoder._fo"]
    raises = [R("OverflowError", must=False,
                ensures=lambda encoder: encoder._fo.data.startswith(old.encoder._fo.data))]
    ensures = lambda encoder, datum, schema, named_schemas, options, result: (
        encoder._fo.data == old.encoder._fo.data + A.ENC(schema, named_schemas, datum, options)
        and encoder._fo.pos == len(encoder._fo.data) and result is None)
    loops = {0: lambda encoder, datum, schema, named_schemas, options: (
        A.ALL_CONFORM(seq_items(datum), schema["items"], named_schemas, options, _i)
        and encoder._fo.pos == len(encoder._fo.data)
        and encoder._fo.data == old.encoder._fo.data + S.long_bytes(len(datum))
        + A.ENC_ITEMS(seq_items(datum), schema["items"], named_schemas, options, _i))}


@target(W, "write_map")
class write_map:
    types = dict(encoder="BinaryEncoder", datum="py", schema="dict", named_schemas="dict", fname="py", options="dict")
    requires = lambda encoder, datum, schema, named_schemas, options: (
        encoder._fo.pos == len(encoder._fo.data)
        and A.TYPE(schema) == "map" and A.WF(schema, named_schemas)
        and A.CONFORMS(datum, schema, named_schemas, options)
        and not options.get("strict") and not options.get("strict_allow_default"))
    modifies = ["encoder._fo"]
    raises = [R("OverflowError", must=False,
                ensures=lambda encoder: encoder._fo.data.startswith(old.encoder._fo.data))]
    ensures = lambda encoder, datum, schema, named_schemas, options, result: (
        encoder._fo.data == old.encoder._fo.data + A.ENC(schema, named_schemas, datum, options)
        and encoder._fo.pos == len(encoder._fo.data) and result is None)
    loops = {0: lambda encoder, datum, schema, named_schemas, options: (
        A.ALL_STR(list(datum), _i)
        and A.ALL_CONFORM(list(datum.values()), schema["values"], named_schemas, options, _i)
        and encoder._fo.pos == len(encoder._fo.data)
        and encoder._fo.data == old.encoder._fo.data + S.long_bytes(len(datum))
        + A.ENC_PAIRS(list(datum), list(datum.values()), schema["values"], named_schemas, options, _i))}


@target(W, "write_union")
class write_union:
    """ASSUMED here (trusted = True): index of the branch SEL selects, then the value.
    The branch search itself is checked by the bounded stand-in of C09 (DESIGN 7/C09)."""
    trusted = True
    types = dict(encoder="BinaryEncoder", datum="py", schema="py", named_schemas="dict", fname="py", options="dict")
    requires = lambda encoder, datum, schema, named_schemas, options: (
        encoder._fo.pos == len(encoder._fo.data)
        and A.TYPE(schema) == "union" and isinstance(schema, list) and A.WF(schema, named_schemas)
        and A.CONFORMS(datum, schema, named_schemas, options)
        and not options.get("strict") and not options.get("strict_allow_default"))
    modifies = ["encoder._fo"]
    raises = [R("OverflowError", must=False,
                ensures=lambda encoder: encoder._fo.data.startswith(old.encoder._fo.data))]
    ensures = lambda encoder, datum, schema, named_schemas, options, result: (
        encoder._fo.data == old.encoder._fo.data + A.ENC(schema, named_schemas, datum, options)
        and encoder._fo.pos == len(encoder._fo.data) and result is None)


@target(W, "write_record")
class write_record:
    """fields in schema order; absent fields take the default or None (non-strict mode)"""
    types = dict(encoder="BinaryEncoder", datum="py", schema="dict", named_schemas="dict", fname="py", options="dict")
    requires = lambda encoder, datum, schema, named_schemas, options: (
        encoder._fo.pos == len(encoder._fo.data)
        and (A.TYPE(schema) == "record" or A.TYPE(schema) == "error") and A.WF(schema, named_schemas)
        and A.CONFORMS(datum, schema, named_schemas, options)
        and not options.get("strict") and not options.get("strict_allow_default"))
    modifies = ["encoder._fo"]
    raises = [R("OverflowError", must=False,
                ensures=lambda encoder: encoder._fo.data.startswith(old.encoder._fo.data))]
    ensures = lambda encoder, datum, schema, named_schemas, options, result: (
        encoder._fo.data == old.encoder._fo.data + A.ENC(schema, named_schemas, datum, options)
        and encoder._fo.pos == len(encoder._fo.data) and result is None)
    loops = {
        "comp0": lambda schema, named_schemas: A.WF_FIELDS(schema["fields"], named_schemas, _i),
        0: lambda encoder, datum, schema, named_schemas, options: (
            A.WF_FIELDS(schema["fields"], named_schemas, _i)
            and A.FIELDS_CONFORM(schema["fields"], datum, named_schemas, options, _i)
            and encoder._fo.pos == len(encoder._fo.data)
            and encoder._fo.data == old.encoder._fo.data
            + A.ENC_FIELDS(schema["fields"], datum, named_schemas, options, _i))}


@target(W, "write_data")
class write_data:
    """dispatch over WRITERS and the by-name fallback through the name table"""
    types = dict(encoder="BinaryEncoder", datum="py", schema="py", named_schemas="dict", fname="py", options="dict")
    requires = lambda encoder, datum, schema, named_schemas, options: (
        encoder._fo.pos == len(encoder._fo.data)
        and A.WF(schema, named_schemas) and implies(isinstance(schema, dict), "logicalType" not in schema)
        and A.CONFORMS(datum, schema, named_schemas, options)
        and not options.get("strict") and not options.get("strict_allow_default"))
    modifies = ["encoder._fo"]
    raises = [R("OverflowError", must=False,
                ensures=lambda encoder: encoder._fo.data.startswith(old.encoder._fo.data))]
    ensures = lambda encoder, datum, schema, named_schemas, options, result: (
        encoder._fo.data == old.encoder._fo.data + A.ENC(schema, named_schemas, datum, options)
        and encoder._fo.pos == len(encoder._fo.data) and result is None)
