"""Contracts for fastavro/_write_py.py: type writers and write_data (C01, C02).

Uniform shape: under `WF(schema)` and `CONFORMS(datum, schema)` the function appends
exactly `ENC(schema, ns, datum, options)` -- the specification's encoding -- to the
encoder's stream and touches nothing else.  Numbers too large for the float
width make `struct` raise OverflowError (the property excludes those inputs).
Options: non-strict mode here; the strict clauses are separate behaviours (C10).
"""
from pyvc.contracts import target, R, implies, same
from pyvc.dsl import seq_items, is_data
import spec.core as S
import spec.avro as A
import contracts.lemmas as L

W = "fastavro/_write_py.py"


@target(W, "write_null")
class write_null:
    types = dict(encoder="BinaryEncoder", datum="py", schema="py", named_schemas="dict", fname="py", options="dict")
    requires = lambda encoder, datum, schema, named_schemas, options: (
        A.TYPE(schema) == "null" and A.CONFORMS(datum, schema, named_schemas, options))
    modifies = []
    ensures = lambda encoder, datum, schema, named_schemas, options, result: (
        A.ENC(schema, named_schemas, datum, options) == b"" and result is None)


@target(W, "write_boolean")
class write_boolean:
    types = dict(encoder="BinaryEncoder", datum="py", schema="py", named_schemas="dict", fname="py", options="dict")
    requires = lambda encoder, datum, schema, named_schemas, options: (
        encoder._fo.pos == len(encoder._fo.data)
        and A.TYPE(schema) == "boolean" and A.CONFORMS(datum, schema, named_schemas, options))
    modifies = ["encoder._fo"]
    ensures = lambda encoder, datum, schema, named_schemas, options, result: (
        encoder._fo.data == old.encoder._fo.data + A.ENC(schema, named_schemas, datum, options)
        and encoder._fo.pos == len(encoder._fo.data) and result is None)


@target(W, "write_int")
class write_int:
    types = dict(encoder="BinaryEncoder", datum="py", schema="py", named_schemas="dict", fname="py", options="dict")
    requires = lambda encoder, datum, schema, named_schemas, options: (
        encoder._fo.pos == len(encoder._fo.data)
        and A.TYPE(schema) == "int" and A.CONFORMS(datum, schema, named_schemas, options))
    modifies = ["encoder._fo"]
    ensures = lambda encoder, datum, schema, named_schemas, options, result: (
        encoder._fo.data == old.encoder._fo.data + A.ENC(schema, named_schemas, datum, options)
        and encoder._fo.pos == len(encoder._fo.data) and result is None)


@target(W, "write_long")
class write_long:
    types = dict(encoder="BinaryEncoder", datum="py", schema="py", named_schemas="dict", fname="py", options="dict")
    requires = lambda encoder, datum, schema, named_schemas, options: (
        encoder._fo.pos == len(encoder._fo.data)
        and A.TYPE(schema) == "long" and A.CONFORMS(datum, schema, named_schemas, options))
    modifies = ["encoder._fo"]
    ensures = lambda encoder, datum, schema, named_schemas, options, result: (
        encoder._fo.data == old.encoder._fo.data + A.ENC(schema, named_schemas, datum, options)
        and encoder._fo.pos == len(encoder._fo.data) and result is None)


@target(W, "write_float")
class write_float:
    types = dict(encoder="BinaryEncoder", datum="py", schema="py", named_schemas="dict", fname="py", options="dict")
    requires = lambda encoder, datum, schema, named_schemas, options: (
        encoder._fo.pos == len(encoder._fo.data)
        and A.TYPE(schema) == "float" and A.CONFORMS(datum, schema, named_schemas, options))
    modifies = ["encoder._fo"]
    raises = [R("OverflowError", must=False,
                ensures=lambda encoder: encoder._fo.data.startswith(old.encoder._fo.data))]
    ensures = lambda encoder, datum, schema, named_schemas, options, result: (
        encoder._fo.data == old.encoder._fo.data + A.ENC(schema, named_schemas, datum, options)
        and encoder._fo.pos == len(encoder._fo.data) and result is None)


@target(W, "write_double")
class write_double:
    types = dict(encoder="BinaryEncoder", datum="py", schema="py", named_schemas="dict", fname="py", options="dict")
    requires = lambda encoder, datum, schema, named_schemas, options: (
        encoder._fo.pos == len(encoder._fo.data)
        and A.TYPE(schema) == "double" and A.CONFORMS(datum, schema, named_schemas, options))
    modifies = ["encoder._fo"]
    raises = [R("OverflowError", must=False,
                ensures=lambda encoder: encoder._fo.data.startswith(old.encoder._fo.data))]
    ensures = lambda encoder, datum, schema, named_schemas, options, result: (
        encoder._fo.data == old.encoder._fo.data + A.ENC(schema, named_schemas, datum, options)
        and encoder._fo.pos == len(encoder._fo.data) and result is None)


@target(W, "write_bytes")
class write_bytes:
    types = dict(encoder="BinaryEncoder", datum="py", schema="py", named_schemas="dict", fname="py", options="dict")
    requires = lambda encoder, datum, schema, named_schemas, options: (
        encoder._fo.pos == len(encoder._fo.data)
        and A.TYPE(schema) == "bytes" and A.CONFORMS(datum, schema, named_schemas, options))
    modifies = ["encoder._fo"]
    ensures = lambda encoder, datum, schema, named_schemas, options, result: (
        encoder._fo.data == old.encoder._fo.data + A.ENC(schema, named_schemas, datum, options)
        and encoder._fo.pos == len(encoder._fo.data) and result is None)


@target(W, "write_utf8")
class write_utf8:
    types = dict(encoder="BinaryEncoder", datum="py", schema="py", named_schemas="dict", fname="py", options="dict")
    requires = lambda encoder, datum, schema, named_schemas, options: (
        encoder._fo.pos == len(encoder._fo.data)
        and A.TYPE(schema) == "string" and A.CONFORMS(datum, schema, named_schemas, options))
    modifies = ["encoder._fo"]
    ensures = lambda encoder, datum, schema, named_schemas, options, result: (
        encoder._fo.data == old.encoder._fo.data + A.ENC(schema, named_schemas, datum, options)
        and encoder._fo.pos == len(encoder._fo.data) and result is None)


@target(W, "write_fixed")
class write_fixed:
    """writes the raw bytes; a datum of the wrong length raises before anything is written"""
    types = dict(encoder="BinaryEncoder", datum="py", schema="dict", named_schemas="dict", fname="py", options="dict")
    requires = lambda encoder, datum, schema, named_schemas, options: (
        encoder._fo.pos == len(encoder._fo.data)
        and A.TYPE(schema) == "fixed" and A.WF(schema, named_schemas) and isinstance(datum, bytes))
    modifies = ["encoder._fo"]
    raises = [R("ValueError", when=lambda datum, schema: len(datum) != schema["size"],
                ensures=lambda encoder: (encoder._fo.data == old.encoder._fo.data
                                         and encoder._fo.pos == old.encoder._fo.pos))]
    ensures = lambda encoder, datum, schema, named_schemas, options, result: (
        encoder._fo.data == old.encoder._fo.data + datum
        and A.ENC(schema, named_schemas, datum, options) == datum
        and A.CONFORMS(datum, schema, named_schemas, options)
        and encoder._fo.pos == len(encoder._fo.data) and result is None)


@target(W, "write_enum")
class write_enum:
    types = dict(encoder="BinaryEncoder", datum="py", schema="dict", named_schemas="dict", fname="py", options="dict")
    requires = lambda encoder, datum, schema, named_schemas, options: (
        encoder._fo.pos == len(encoder._fo.data)
        and A.TYPE(schema) == "enum" and A.WF(schema, named_schemas)
        and A.CONFORMS(datum, schema, named_schemas, options))
    modifies = ["encoder._fo"]
    ensures = lambda encoder, datum, schema, named_schemas, options, result: (
        encoder._fo.data == old.encoder._fo.data + A.ENC(schema, named_schemas, datum, options)
        and encoder._fo.pos == len(encoder._fo.data) and result is None)


@target(W, "write_array")
class write_array:
    """one counted block followed by the terminator; the terminator alone when empty"""
    opaque_here = ["VALID", "SEL", "STRIP", "DEFER_DOUBLE", "FIRST_NONREC", "BEST_REC"]
    types = dict(encoder="BinaryEncoder", datum="py", schema="dict", named_schemas="dict", fname="py", options="dict")
    requires = lambda encoder, datum, schema, named_schemas, options: (
        encoder._fo.pos == len(encoder._fo.data)
        and A.TYPE(schema) == "array" and A.WF(schema, named_schemas)
        and A.DEFAULTS_DATA(schema, named_schemas, options) and is_data(datum)
        and A.CONFORMS(datum, schema, named_schemas, options)
        and not options.get("strict") and not options.get("strict_allow_default"))
    modifies = ["encoder._fo"]
    raises = [R("OverflowError", must=False,
                ensures=lambda encoder: encoder._fo.data.startswith(old.encoder._fo.data))]
    ensures = lambda encoder, datum, schema, named_schemas, options, result: (
        encoder._fo.data == old.encoder._fo.data + A.ENC(schema, named_schemas, datum, options)
        and encoder._fo.pos == len(encoder._fo.data) and result is None)
    loops = {0: lambda encoder, datum, schema, named_schemas, options: (
        A.ALL_CONFORM(seq_items(datum), schema["items"], named_schemas, options, _i)
        and encoder._fo.pos == len(encoder._fo.data)
        and encoder._fo.data == old.encoder._fo.data + S.long_bytes(len(datum))
        + A.ENC_ITEMS(seq_items(datum), schema["items"], named_schemas, options, _i))}


@target(W, "write_map")
class write_map:
    opaque_here = ["VALID", "SEL", "STRIP", "DEFER_DOUBLE", "FIRST_NONREC", "BEST_REC"]
    types = dict(encoder="BinaryEncoder", datum="py", schema="dict", named_schemas="dict", fname="py", options="dict")
    requires = lambda encoder, datum, schema, named_schemas, options: (
        encoder._fo.pos == len(encoder._fo.data)
        and A.TYPE(schema) == "map" and A.WF(schema, named_schemas)
        and A.DEFAULTS_DATA(schema, named_schemas, options) and is_data(datum)
        and A.CONFORMS(datum, schema, named_schemas, options)
        and not options.get("strict") and not options.get("strict_allow_default"))
    modifies = ["encoder._fo"]
    raises = [R("OverflowError", must=False,
                ensures=lambda encoder: encoder._fo.data.startswith(old.encoder._fo.data))]
    ensures = lambda encoder, datum, schema, named_schemas, options, result: (
        encoder._fo.data == old.encoder._fo.data + A.ENC(schema, named_schemas, datum, options)
        and encoder._fo.pos == len(encoder._fo.data) and result is None)
    loops = {0: lambda encoder, datum, schema, named_schemas, options: (
        A.ALL_STR(list(datum), _i)
        and A.ALL_CONFORM(list(datum.values()), schema["values"], named_schemas, options, _i)
        and encoder._fo.pos == len(encoder._fo.data)
        and encoder._fo.data == old.encoder._fo.data + S.long_bytes(len(datum))
        + A.ENC_PAIRS(list(datum), list(datum.values()), schema["values"], named_schemas, options, _i))}


@target(W, "write_union")
class write_union:
    """C09 + C02: the index of the branch SEL selects (the statement's rule), then the value under it.
    A (name, value) hint naming no branch is an error."""
    unfold_here = ["NS_CLEAN"]     # a dict branch's type keyword is not a key of the name table
    types = dict(encoder="BinaryEncoder", datum="py", schema="list", named_schemas="dict", fname="py", options="dict")
    requires = lambda encoder, datum, schema, named_schemas, options: (
        is_data(datum)
        and encoder._fo.pos == len(encoder._fo.data)
        and A.WF(schema, named_schemas)
        and A.DEFAULTS_DATA(schema, named_schemas, options)
        and A.CONFORMS(datum, schema, named_schemas, options)
        and not options.get("strict") and not options.get("strict_allow_default"))
    modifies = ["encoder._fo"]
    raises = [R("OverflowError", must=False,
                ensures=lambda encoder: encoder._fo.data.startswith(old.encoder._fo.data))]
    ensures = lambda encoder, datum, schema, named_schemas, options, result: (
        encoder._fo.data == old.encoder._fo.data + A.ENC(schema, named_schemas, datum, options)
        and encoder._fo.pos == len(encoder._fo.data) and result is None)
    uses_locals = ["name", "best_match_index", "most_fields", "could_be_float"]
    entry_asserts = [
        # what the precondition says about the branch the rule selects (CONFORMS / SEL / ENC unfolded once)
        lambda: implies(not (isinstance(datum, tuple) and not options.get("disable_tuple_notation")),
                        0 <= A.SEL(schema, named_schemas, datum, options)
                        and A.SEL(schema, named_schemas, datum, options) < len(schema)
                        and A.CONFORMS(datum, schema[A.SEL(schema, named_schemas, datum, options)], named_schemas, options)
                        and A.STRIP(schema, named_schemas, datum, options) == datum),
        lambda: implies(not (isinstance(datum, tuple) and not options.get("disable_tuple_notation")),
                        A.SEL(schema, named_schemas, datum, options)
                        == (A.DEFER_DOUBLE(schema, named_schemas, A.FIRST_NONREC(schema, named_schemas, datum, options, 0))
                            if A.FIRST_NONREC(schema, named_schemas, datum, options, 0) >= 0
                            else A.BEST_REC(schema, named_schemas, datum, options, 0, -1, -1))),
        lambda: implies(isinstance(datum, tuple) and not options.get("disable_tuple_notation"),
                        len(datum) == 2 and 0 <= A.HINTED(schema, datum[0], 0) and A.HINTED(schema, datum[0], 0) < len(schema)
                        and A.SEL(schema, named_schemas, datum, options) == A.HINTED(schema, datum[0], 0)
                        and A.STRIP(schema, named_schemas, datum, options) == datum[1]
                        and A.CONFORMS(datum[1], schema[A.HINTED(schema, datum[0], 0)], named_schemas, options)),
        lambda: A.ENC(schema, named_schemas, datum, options)
        == S.long_bytes(A.SEL(schema, named_schemas, datum, options))
        + A.ENC(schema[A.SEL(schema, named_schemas, datum, options)], named_schemas,
                A.STRIP(schema, named_schemas, datum, options), options),
    ]
    loops = {
        # (name, value): no branch before _i carries the name
        0: lambda encoder, schema, named_schemas, name, best_match_index: (
            encoder._fo.data == old.encoder._fo.data and encoder._fo.pos == old.encoder._fo.pos
            and best_match_index == -1 and A.WF_BRANCHES(schema, named_schemas, _i)
            and A.HINTED(schema, name, 0) == A.HINTED(schema, name, _i)),
        # the branch search, answer-preserving: what the rule yields for the whole union is what it
        # yields for the branches still to be visited given the state kept so far
        1: lambda encoder, datum, schema, named_schemas, options, best_match_index, most_fields, could_be_float: (
            encoder._fo.data == old.encoder._fo.data and encoder._fo.pos == old.encoder._fo.pos
            and same(datum, old.datum)
            and A.WF_BRANCHES(schema, named_schemas, _i) and A.DEFAULTS_DATA_BRANCHES(schema, named_schemas, options, _i)
            and isinstance(could_be_float, bool) and -1 <= most_fields
            and implies(could_be_float,
                        0 <= best_match_index and best_match_index < _i
                        and A.FIRST_NONREC(schema, named_schemas, datum, options, 0) == best_match_index
                        and A.TYPE(A.BDEF(schema[best_match_index], named_schemas)) == "float"
                        and A.NEXT_DOUBLE(schema, best_match_index + 1) == A.NEXT_DOUBLE(schema, _i))
            and implies(not could_be_float,
                        -1 <= best_match_index and best_match_index < _i
                        and (best_match_index == -1) == (most_fields == -1)
                        and A.FIRST_NONREC(schema, named_schemas, datum, options, 0)
                        == A.FIRST_NONREC(schema, named_schemas, datum, options, _i)
                        and A.BEST_REC(schema, named_schemas, datum, options, 0, -1, -1)
                        == A.BEST_REC(schema, named_schemas, datum, options, _i, best_match_index, most_fields))),
        "comp0": lambda candidate, named_schemas: (
            A.WF_FIELDS(candidate["fields"], named_schemas, _i) and _acc == A.NAMESET(candidate["fields"], _i)),
    }
    loop_hints = {1: [lambda: L.rec_branch_shape(schema[_i], named_schemas),
                      lambda: L.valid_rec_is_dict(datum, schema[_i], named_schemas, options)]}
    exit_hints = {0: [lambda: L.wf_branch_at(schema, named_schemas, 0, best_match_index),
                      lambda: L.dd_branch_at(schema, named_schemas, options, 0, best_match_index)],
                  1: [lambda: L.wf_branch_at(schema, named_schemas, 0, best_match_index),
                      lambda: L.dd_branch_at(schema, named_schemas, options, 0, best_match_index)]}


@target(W, "write_union", behavior="nohint")
class write_union_nohint:
    """C09: a (name, value) tuple naming no branch is an error, and nothing is written"""
    types = dict(encoder="BinaryEncoder", datum="tuple", schema="list", named_schemas="dict", fname="py", options="dict")
    requires = lambda encoder, datum, schema, named_schemas, options: (
        encoder._fo.pos == len(encoder._fo.data) and len(datum) == 2 and A.WF(schema, named_schemas)
        and not options.get("disable_tuple_notation") and A.HINTED(schema, datum[0], 0) < 0)
    modifies = ["encoder._fo"]
    raises = [R("ValueError", when=lambda datum: True,
                ensures=lambda encoder: encoder._fo.data == old.encoder._fo.data and encoder._fo.pos == old.encoder._fo.pos)]
    ensures = lambda result: False
    uses_locals = ["name", "best_match_index"]
    loops = {0: lambda encoder, schema, named_schemas, name, best_match_index: (
        encoder._fo.data == old.encoder._fo.data and encoder._fo.pos == old.encoder._fo.pos
        and best_match_index == -1 and A.WF_BRANCHES(schema, named_schemas, _i)
        and A.HINTED(schema, name, 0) == A.HINTED(schema, name, _i))}


@target(W, "write_record")
class write_record:
    """fields in schema order; absent fields take the default or None (non-strict mode)"""
    timeout = 40
    opaque_here = ["VALID", "SEL", "STRIP", "DEFER_DOUBLE", "FIRST_NONREC", "BEST_REC"]
    types = dict(encoder="BinaryEncoder", datum="py", schema="dict", named_schemas="dict", fname="py", options="dict")
    requires = lambda encoder, datum, schema, named_schemas, options: (
        encoder._fo.pos == len(encoder._fo.data)
        and (A.TYPE(schema) == "record" or A.TYPE(schema) == "error") and A.WF(schema, named_schemas)
        and A.DEFAULTS_DATA(schema, named_schemas, options) and is_data(datum)
        and A.CONFORMS(datum, schema, named_schemas, options)
        and not options.get("strict") and not options.get("strict_allow_default"))
    modifies = ["encoder._fo"]
    raises = [R("OverflowError", must=False,
                ensures=lambda encoder: encoder._fo.data.startswith(old.encoder._fo.data))]
    ensures = lambda encoder, datum, schema, named_schemas, options, result: (
        encoder._fo.data == old.encoder._fo.data + A.ENC(schema, named_schemas, datum, options)
        and encoder._fo.pos == len(encoder._fo.data) and result is None)
    loops = {
        "comp0": lambda schema, named_schemas: A.WF_FIELDS(schema["fields"], named_schemas, _i),
        0: lambda encoder, datum, schema, named_schemas, options: (
            A.WF_FIELDS(schema["fields"], named_schemas, _i)
            and A.DEFAULTS_DATA_FIELDS(schema["fields"], named_schemas, options, _i)
            and A.FIELDS_CONFORM(schema["fields"], datum, named_schemas, options, _i)
            and encoder._fo.pos == len(encoder._fo.data)
            and encoder._fo.data == old.encoder._fo.data
            + A.ENC_FIELDS(schema["fields"], datum, named_schemas, options, _i))}


@target(W, "write_data")
class write_data:
    """dispatch over WRITERS and the by-name fallback through the name table"""
    opaque_here = ["VALID", "SEL", "STRIP", "DEFER_DOUBLE", "FIRST_NONREC", "BEST_REC"]
    types = dict(encoder="BinaryEncoder", datum="py", schema="py", named_schemas="dict", fname="py", options="dict")
    requires = lambda encoder, datum, schema, named_schemas, options: (
        encoder._fo.pos == len(encoder._fo.data)
        and A.WF(schema, named_schemas) and implies(isinstance(schema, dict), "logicalType" not in schema)
        and A.DEFAULTS_DATA(schema, named_schemas, options) and is_data(datum)
        and A.CONFORMS(datum, schema, named_schemas, options)
        and not options.get("strict") and not options.get("strict_allow_default"))
    modifies = ["encoder._fo"]
    raises = [R("OverflowError", must=False,
                ensures=lambda encoder: encoder._fo.data.startswith(old.encoder._fo.data))]
    ensures = lambda encoder, datum, schema, named_schemas, options, result: (
        encoder._fo.data == old.encoder._fo.data + A.ENC(schema, named_schemas, datum, options)
        and encoder._fo.pos == len(encoder._fo.data) and result is None)
