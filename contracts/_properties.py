"""Which contracts, lemmas and bounded stand-ins carry which property (DESIGN 7).

functions: list of (module, qualname-regex, behaviour-regex); a contract belongs to a
property if any entry matches.  level: the MANIFEST level claimed when every
obligation is discharged.  bounded: name of the bounded stand-in (bounded/run.py).
"""
ENC = "fastavro/io/binary_encoder.py"
DEC = "fastavro/io/binary_decoder.py"
W = "fastavro/_write_py.py"
R = "fastavro/_read_py.py"

WRITERS = r"write_(null|boolean|int|long|float|double|bytes|utf8|fixed|enum|array|map|record|data)"
READERS = r"(read|skip)_(null|boolean|int|long|float|double|bytes|utf8|fixed|enum|array|map|union|record|data)"

PROPS = {
    "C01": dict(
        functions=[(ENC, r"BinaryEncoder\..*", "default"), (DEC, r"BinaryDecoder\..*", "default"),
                   (W, WRITERS, "default"), (R, READERS, "default")],
        lemmas=["wf_branch_at"],
        bounded="C01", level="other",
    ),
    "C02": dict(
        functions=[(ENC, r"BinaryEncoder\..*", "default"), (W, WRITERS, "default")],
        lemmas=[],
        bounded="C02", level="other",
    ),
    "C03": dict(
        functions=[(DEC, r"BinaryDecoder\..*", ".*"), (R, READERS, ".*")],
        lemmas=["wf_branch_at"],
        bounded="C03", level="other",
    ),
    "C17": dict(functions=[], lemmas=[], provenance=True, bounded="C17", level="other"),
    "C18": dict(functions=[], lemmas=[], provenance=True, bounded="C18", level="other"),
    "C04": dict(functions=[], lemmas=[], bounded="C04", level="exploration"),
    "C05": dict(functions=[], lemmas=[], bounded="C05", level="exploration"),
    "C06": dict(functions=[], lemmas=[], bounded="C06", level="exploration"),
    "C07": dict(functions=[], lemmas=[], bounded="C07", level="exploration"),
    "C08": dict(functions=[], lemmas=[], bounded="C08", level="exploration"),
    "C09": dict(functions=[], lemmas=[], bounded="C09", level="exploration"),
    "C10": dict(functions=[], lemmas=[], bounded="C10", level="exploration"),
    "C11": dict(functions=[], lemmas=[], bounded="C11", level="exploration"),
    "C12": dict(functions=[], lemmas=[], bounded="C12", level="exploration"),
    "C13": dict(functions=[], lemmas=[], bounded="C13", level="exploration"),
    "C14": dict(functions=[], lemmas=[], bounded="C14", level="exploration"),
    "C15": dict(functions=[], lemmas=[], bounded="C15", level="exploration"),
    "C16": dict(functions=[], lemmas=[], bounded="C16", level="exploration"),
    "C19": dict(functions=[], lemmas=[], bounded="C19", level="exploration"),
    "C20": dict(functions=[], lemmas=[], bounded="C20", level="exploration"),
}
