"""Which contracts, lemmas and bounded stand-ins carry which property (DESIGN 7).

functions: list of (module, qualname-regex, behaviour-regex); a contract belongs to a
property if any entry matches.  level: the MANIFEST level claimed when every
obligation is discharged.  bounded: name of the bounded stand-in (bounded/run.py).
"""
ENC = "fastavro/io/binary_encoder.py"
DEC = "fastavro/io/binary_decoder.py"
W = "fastavro/_write_py.py"
R = "fastavro/_read_py.py"
VP = "fastavro/_validation_py.py"
# container reader side: sync check, codec block readers, the record / block iterators
CREAD = r"(is_avro|skip_sync|(null|deflate|bzip2|xz)_read_block|_iter_avro_records|_iter_avro_blocks|Block\.__iter__)"

WRITERS = r"write_(null|boolean|int|long|float|double|bytes|utf8|fixed|enum|array|map|union|record|data)"
WLEMMAS = ["wf_branch_at", "rec_branch_shape", "valid_rec_is_dict", "dd_branch_at"]
READERS = r"(read|skip)_(null|boolean|int|long|float|double|bytes|utf8|fixed|enum|array|map|union|record|data)"

PROPS = {
    "C01": dict(
        functions=[(ENC, r"BinaryEncoder\..*", "default"), (DEC, r"BinaryDecoder\..*", "default"),
                   (W, WRITERS, "default"), (R, READERS, "default"), (VP, r"_validate.*", "default"),
                   # the public single-datum entry points on a parsed schema (contracts/api.py)
                   (W, r"schemaless_writer", "default"), (R, r"schemaless_reader", "default"),
                   ("fastavro/_schema_py.py", r"parse_schema", "parsed")],
        lemmas=WLEMMAS,
        bounded="C01", level="other",
    ),
    "C02": dict(
        functions=[(ENC, r"BinaryEncoder\..*", "default"), (W, WRITERS, "default"), (VP, r"_validate.*", "default"),
                   (W, r"schemaless_writer", "default"), ("fastavro/_schema_py.py", r"parse_schema", "parsed")],
        lemmas=WLEMMAS,
        bounded="C02", level="other",
    ),
    "C03": dict(
        functions=[(DEC, r"BinaryDecoder\..*", ".*"), (R, READERS, "(default|badindex|short|bareshort)"),
                   (R, r"schemaless_reader", "default"), ("fastavro/_schema_py.py", r"parse_schema", "parsed")],
        lemmas=["wf_branch_at"],
        bounded="C03", level="other",
    ),
    "C17": dict(functions=[], lemmas=[], provenance=True, bounded="C17", level="other"),
    "C18": dict(functions=[], lemmas=[], provenance=True, bounded="C18", level="other"),
    # C04 / C07: codec block writers and the Writer's operations (what each appends to the user's stream,
    # what stays in the pending buffer; a failed write changes nothing).  Reader side and header: bounded.
    "C04": dict(functions=[(W, r"(null|deflate|bzip2|xz)_write_block", "default"), (W, r"Writer\.(dump|write|flush)", "default"),
                           (R, CREAD, "default"), (DEC, r"BinaryDecoder\.read_long", "blockstart"), (R, r"read_long", "bare"),
                           (W, r"write_header", "default")],
                lemmas=["map_step", "allstr_bridge", "allvalid_bridge", "bytes_valid_conform", "header_conforms", "header_schema_ok",
                        "allvalid_r_append", "allstr_r_append", "allvalid_r_replace", "nth_concat_left", "nth_concat_right", "nth_of_update",
                        "nth_at_update", "split_at"],
                bounded="C04", level="other"),
    # C05: reader side against the layout specification (FILE_BLOCKS: any number of blocks, any counts incl. 0,
    # any partition inside the records); writer side: what each Writer operation appends (as C04)
    "C05": dict(functions=[(R, CREAD, "default"), (DEC, r"BinaryDecoder\.read_long", "blockstart"), (R, r"read_long", "bare"),
                           (W, r"(null|deflate|bzip2|xz)_write_block", "default"), (W, r"Writer\.(dump|flush)", "default"),
                           (W, r"write_header", "default")],
                lemmas=["map_step", "allstr_bridge", "allvalid_bridge", "bytes_valid_conform", "header_conforms", "header_schema_ok"],
                bounded="C05", level="other"),
    # C06: behaviour `short` (NO assumption about the input) of the decoder, of every reader (generated:
    # contracts/read_short.py), of the codec block readers and of the container iterators: a call that returns has not
    # had a read come back short, and the iterators end normally only when the input is exhausted exactly where a block
    # would start (read_long[short]: EOFError exactly when there is nothing at all to read); plus the exact-consumption
    # contracts of the decoder.  Which records come out of a cut file (a prefix of what was written) is bounded.
    "C06": dict(functions=[(DEC, r"BinaryDecoder\..*", ".*"), (R, r"skip_sync", "default"),
                           (R, r"(read|skip)_(null|boolean|int|long|float|double|bytes|utf8|fixed|enum|array|map|union|record|data)", "short|bareshort"),
                           (R, r"(null|deflate|bzip2|xz)_read_block", "short"),
                           (R, r"(_iter_avro_records|_iter_avro_blocks|Block\.__iter__)", "short")],
                lemmas=["wf_branch_at"], bounded="C06", level="other"),
    # C07: ... and behaviour `anydatum` of every encoder method and writer (generated: contracts/write_anydatum.py):
    # whatever the datum, they only ever append -- also when they raise -- which is what Writer.write relies on to
    # leave no trace of a failed write (this was an assumed contract before)
    "C07": dict(functions=[(W, r"(null|deflate|bzip2|xz)_write_block", "default"), (W, r"Writer\.(dump|write|flush|write_block)", ".*"),
                           (ENC, r"BinaryEncoder\..*", "anydatum"),
                           (W, r"write_(null|boolean|int|long|float|double|bytes|utf8|fixed|enum|array|map|union|record|data)", "anydatum")],
                lemmas=["wf_branch_at", "dd_branch_at", "rec_branch_shape", "valid_rec_is_dict"], bounded="C07", level="other"),
    # C08: alignment under schema resolution (behaviour `consume`: with ANY reader schema and options a reader that returns
    # has consumed exactly one value of the writer's schema), the promotion pieces, the enum default; the resolved VALUES
    # (field matching, defaults, unions) are bounded
    "C08": dict(functions=[(R, r"read_(null|boolean|int|long|float|double|bytes|utf8|fixed|enum|array|map|union|record|data)", "consume"),
                           (R, r"(match_schemas|match_types|maybe_promote)", "pure"),
                           (R, r"maybe_promote", "default"), (R, r"match_types", "prims"), (R, r"read_enum", "resolve")],
                lemmas=["wf_branch_at"], bounded="C08", level="other"),
    # C09: "a function of schema and datum alone": frame obligations of the functions involved in
    # branch selection (no module-level or default-argument state); the selection rule itself is bounded
    "C09": dict(functions=[(W, r"write_union", ".*"), (VP, r"_validate.*", "default")], lemmas=WLEMMAS, provenance=True,
                provenance_filter=r"fastavro/(_write_py|_validation_py|_schema_py|_read_py)\.py:.*",
                bounded="C09", level="other"),
    # C10: every validator returns exactly VALID (the statement's predicate) in the non-raising mode; the
    # raising mode, validate()/validate_many() (which parse first) and the writer agreement are bounded
    "C10": dict(functions=[(VP, r"_validate.*", ".*"), ("fastavro/_schema_py.py", r"schema_name", ".*"),
                           (W, r"Writer\.write", "validating"),
                           (VP, r"validate", "default|raising"), (VP, r"validate_many", "default"),
                           ("fastavro/_schema_py.py", r"parse_schema", "parsed")],
                lemmas=[], bounded="C10", level="other"),
    # C11: the name rule (schema_name) and the default-kind rule (_default_matches_schema) are under contract;
    # parse_schema itself is bounded -- the level stays exploration
    "C11": dict(functions=[("fastavro/_schema_py.py", r"(schema_name|_default_matches_schema|_maybe_float)", "default")], lemmas=[], bounded="C11", level="exploration"),
    # C12: only the already-parsed path of parse_schema is under contract; the equivalence of the forms is bounded
    "C12": dict(functions=[("fastavro/_schema_py.py", r"parse_schema", "parsed")], lemmas=[], bounded="C12", level="exploration"),
    # C13: the recursive canonical-form writer against PCF (spec/canon.py) on parsed schemas; parse_schema (full
    # names, namespaces dropped), fixed point, same encoding and the cosmetic-edit invariance are bounded
    "C13": dict(functions=[("fastavro/_schema_py.py", r"_to_parsing_canonical_form", "default"),
                           ("fastavro/_schema_py.py", r"to_parsing_canonical_form", "default"),
                           ("fastavro/_schema_py.py", r"parse_schema", "parsed0")], lemmas=[], bounded="C13", level="other"),
    "C14": dict(functions=[("fastavro/_schema_common.py", r"rabin_fingerprint", "default"), ("fastavro/_schema_py.py", r"fingerprint", "default")],
                lemmas=[], bounded="C14", level="proof"),
    "C15": dict(functions=[], lemmas=[], bounded="C15", level="exploration"),
    # C16: date, time-millis, time-micros: the stored integer is the specification's (days from 1970-01-01, units after
    # midnight), the readers invert it on the whole stored domain (calendar objects through observer functions and
    # assumed constructor contracts); decimal WRITERS: the bytes are the two's complement of the unscaled integer
    # (-1)**sign * digits * 10**(exponent + scale), ValueError when precision / scale / size cannot hold the number;
    # timestamps: whole units from the epoch to the instant (aware, any offset) / to the wall-clock reading (naive, local
    # variants), read back in UTC / naive -- datetime arithmetic through assumed contracts of the library;
    # uuid and read_decimal are bounded
    "C16": dict(functions=[("fastavro/_logical_writers_py.py", r"prepare_(time_millis|time_micros|date|bytes_decimal|fixed_decimal|timestamp_millis|timestamp_micros|local_timestamp_millis|local_timestamp_micros)", "default"),
                           ("fastavro/_logical_readers_py.py", r"read_(time_millis|time_micros|date|timestamp_millis|timestamp_micros|local_timestamp_millis|local_timestamp_micros)", "default"),
                           # composition with the binary codec: one behaviour of write_data / read_data per logical type
                           (W, r"write_data", r"(date|time-millis|time-micros|timestamp-millis|timestamp-micros|local-timestamp-millis|local-timestamp-micros|bytes-decimal|fixed-decimal)"),
                           (R, r"read_data", r"(date|time-millis|time-micros|timestamp-millis|timestamp-micros|local-timestamp-millis|local-timestamp-micros)")],
                lemmas=["time_millis_roundtrip", "time_micros_roundtrip", "time_millis_onto", "time_micros_onto",
                        "pow2_step", "pow2_mono", "pow10_pos", "digit_at", "tnth_left", "digits_prefix", "zeros_len", "digits_zeros"],
                bounded="C16", level="other"),
    # C19: _inject_schema returns INJ (spec/inject.py): the loaded type inlined at its FIRST use, depth first, left to
    # right, namespace-relative references resolved; the loader around it (files, retry loop) is bounded
    "C19": dict(functions=[("fastavro/_schema_py.py", r"_inject_schema", "default")], lemmas=[], bounded="C19", level="exploration"),
    # C20: gen_data for every schema without logical types; counts / logical types / writer acceptance bounded
    "C20": dict(functions=[("fastavro/utils.py", r"(_randbytes|_gen_utf8|gen_data|generate_many)", "default"),
                           ("fastavro/_schema_py.py", r"parse_schema", "parsed")],
                lemmas=["any_valid_at", "genok_at", "all_str_at", "wf_branch_at", "allvalid_r_append", "allvalid_bridge",
                        "allstr_r_append", "allstr_bridge", "allvalid_r_replace", "map_step", "nth_of_update", "nth_at_update", "nth_concat_left", "nth_concat_right", "split_at", "dset_other",
                        "dset_same", "rec_frame", "rec_bridge", "not_among_at"], bounded="C20", level="other"),
}
