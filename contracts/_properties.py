"""Which contracts, lemmas and bounded stand-ins carry which property (DESIGN 7).

functions: list of (module, qualname-regex, behaviour-regex); a contract belongs to a
property if any entry matches.  level: the MANIFEST level claimed when every
obligation is discharged.  bounded: name of the bounded stand-in (bounded/run.py).
"""
ENC = "fastavro/io/binary_encoder.py"
DEC = "fastavro/io/binary_decoder.py"
W = "fastavro/_write_py.py"
R = "fastavro/_read_py.py"

WRITERS = r"write_(null|boolean|int|long|float|double|bytes|utf8|fixed|enum|array|map|record|data)"
READERS = r"(read|skip)_(null|boolean|int|long|float|double|bytes|utf8|fixed|enum|array|map|union|record|data)"

PROPS = {
    "C01": dict(
        functions=[(ENC, r"BinaryEncoder\..*", "default"), (DEC, r"BinaryDecoder\..*", "default"),
                   (W, WRITERS, "default"), (R, READERS, "default")],
        lemmas=["wf_branch_at"],
        bounded="C01", level="other",
    ),
    "C02": dict(
        functions=[(ENC, r"BinaryEncoder\..*", "default"), (W, WRITERS, "default")],
        lemmas=[],
        bounded="C02", level="other",
    ),
    "C03": dict(
        functions=[(DEC, r"BinaryDecoder\..*", ".*"), (R, READERS, ".*")],
        lemmas=["wf_branch_at"],
        bounded="C03", level="other",
    ),
    "C17": dict(functions=[], lemmas=[], provenance=True, bounded="C17", level="other"),
    "C18": dict(functions=[], lemmas=[], provenance=True, bounded="C18", level="other"),
}
