"""Contracts for fastavro/io/binary_encoder.py (C01, C02).

Every method appends exactly the specification's bytes at the append position
of the output stream and touches nothing else."""
from pyvc.contracts import target, R, implies
import spec.core as S

M = "fastavro/io/binary_encoder.py"


@target(M, "BinaryEncoder.write_null")
class write_null:
    types = dict(self="BinaryEncoder")
    ensures = lambda self, result: result is None
    modifies = []


@target(M, "BinaryEncoder.write_boolean")
class write_boolean:
    types = dict(self="BinaryEncoder", datum="py")
    requires = lambda self, datum: self._fo.pos == len(self._fo.data)
    modifies = ["self._fo"]
    ensures = lambda self, datum, result: (
        self._fo.data == old.self._fo.data + (b"\x01" if datum else b"\x00")
        and self._fo.pos == len(self._fo.data) and result is None)


@target(M, "BinaryEncoder.write_int")
class write_int:
    types = dict(self="BinaryEncoder", datum="int")
    requires = lambda self, datum: (S.LONG_MIN <= datum <= S.LONG_MAX
                                    and self._fo.pos == len(self._fo.data))
    modifies = ["self._fo"]
    ensures = lambda self, datum, result: (
        self._fo.data == old.self._fo.data + S.varint(S.zigzag(datum))
        and self._fo.pos == len(self._fo.data) and result is None)
    loops = {0: lambda self, datum: (
        datum >= 0 and self._fo.pos == len(self._fo.data)
        and self._fo.data + S.varint(datum) == old.self._fo.data + S.varint(S.zigzag(old.datum)))}
    uses_locals = ["datum"]
