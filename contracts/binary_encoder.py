"""Contracts for fastavro/io/binary_encoder.py (C01, C02).

Every method appends exactly the specification's bytes at the append position
of the output stream and touches nothing else."""
from pyvc.contracts import target, R, implies
import spec.core as S

M = "fastavro/io/binary_encoder.py"


@target(M, "BinaryEncoder.write_null")
class write_null:
    types = dict(self="BinaryEncoder")
    ensures = lambda self, result: result is None
    modifies = []


@target(M, "BinaryEncoder.write_boolean")
class write_boolean:
    types = dict(self="BinaryEncoder", datum="py")
    requires = lambda self, datum: self._fo.pos == len(self._fo.data)
    modifies = ["self._fo"]
    ensures = lambda self, datum, result: (
        self._fo.data == old.self._fo.data + (b"\x01" if datum else b"\x00")
        and self._fo.pos == len(self._fo.data) and result is None)


@target(M, "BinaryEncoder.write_int")
class write_int:
    types = dict(self="BinaryEncoder", datum="int")
    requires = lambda self, datum: (S.LONG_MIN <= datum <= S.LONG_MAX
                                    and self._fo.pos == len(self._fo.data))
    modifies = ["self._fo"]
    ensures = lambda self, datum, result: (
        self._fo.data == old.self._fo.data + S.varint(S.zigzag(datum))
        and self._fo.pos == len(self._fo.data) and result is None)
    loops = {0: lambda self, datum: (
        datum >= 0 and self._fo.pos == len(self._fo.data)
        and self._fo.data + S.varint(datum) == old.self._fo.data + S.varint(S.zigzag(old.datum)))}
    uses_locals = ["datum"]

    # write_long is a class-level alias of write_int (resolved from the class body each run)


@target(M, "BinaryEncoder.write_float")
class write_float:
    types = dict(self="BinaryEncoder", datum="py")
    requires = lambda self, datum: (
        self._fo.pos == len(self._fo.data)
        and (isinstance(datum, float) or (isinstance(datum, int) and not isinstance(datum, bool))))
    modifies = ["self._fo"]
    # a number too large for IEEE single precision: struct raises, nothing is written
    raises = [R("OverflowError",
                when=lambda self, datum: not ((isinstance(datum, float) and S.f_fits_single(datum))
                                              or (isinstance(datum, int) and S.f_int_fits_double(datum)
                                                  and S.f_fits_single(S.f_of_int(datum)))),
                ensures=lambda self: self._fo.data == old.self._fo.data and self._fo.pos == old.self._fo.pos)]
    ensures = lambda self, datum, result: (
        self._fo.data == old.self._fo.data + S.float_bytes(S.num_to_float(datum))
        and self._fo.pos == len(self._fo.data) and result is None)


@target(M, "BinaryEncoder.write_double")
class write_double:
    types = dict(self="BinaryEncoder", datum="py")
    requires = lambda self, datum: (
        self._fo.pos == len(self._fo.data)
        and (isinstance(datum, float) or (isinstance(datum, int) and not isinstance(datum, bool))))
    modifies = ["self._fo"]
    raises = [R("OverflowError",
                when=lambda self, datum: isinstance(datum, int) and not S.f_int_fits_double(datum),
                ensures=lambda self: self._fo.data == old.self._fo.data and self._fo.pos == old.self._fo.pos)]
    ensures = lambda self, datum, result: (
        self._fo.data == old.self._fo.data + S.double_bytes(S.num_to_float(datum))
        and self._fo.pos == len(self._fo.data) and result is None)


@target(M, "BinaryEncoder.write_bytes")
class write_bytes:
    types = dict(self="BinaryEncoder", datum="bytes")
    requires = lambda self, datum: self._fo.pos == len(self._fo.data) and len(datum) <= S.LONG_MAX
    modifies = ["self._fo"]
    ensures = lambda self, datum, result: (
        self._fo.data == old.self._fo.data + S.long_bytes(len(datum)) + datum
        and self._fo.pos == len(self._fo.data) and result is None)


@target(M, "BinaryEncoder.write_utf8")
class write_utf8:
    types = dict(self="BinaryEncoder", datum="py")
    requires = lambda self, datum: (
        self._fo.pos == len(self._fo.data)
        and implies(isinstance(datum, str), len(S.utf8(datum)) <= S.LONG_MAX))
    modifies = ["self._fo"]
    raises = [R("TypeError", when=lambda self, datum: not isinstance(datum, str),
                ensures=lambda self: self._fo.data == old.self._fo.data and self._fo.pos == old.self._fo.pos)]
    ensures = lambda self, datum, result: (
        self._fo.data == old.self._fo.data + S.long_bytes(len(S.utf8(datum))) + S.utf8(datum)
        and self._fo.pos == len(self._fo.data) and result is None)


@target(M, "BinaryEncoder.write_crc32")
class write_crc32:
    types = dict(self="BinaryEncoder", datum="bytes")
    requires = lambda self, datum: self._fo.pos == len(self._fo.data)
    modifies = ["self._fo"]
    ensures = lambda self, datum, result: (
        self._fo.data == old.self._fo.data + S.be_bytes4(S.crc32(datum))
        and self._fo.pos == len(self._fo.data) and result is None)


@target(M, "BinaryEncoder.write_fixed")
class write_fixed:
    types = dict(self="BinaryEncoder", datum="bytes")
    requires = lambda self, datum: self._fo.pos == len(self._fo.data)
    modifies = ["self._fo"]
    ensures = lambda self, datum, result: (
        self._fo.data == old.self._fo.data + datum
        and self._fo.pos == len(self._fo.data) and result is None)


@target(M, "BinaryEncoder.write_enum")
class write_enum:
    types = dict(self="BinaryEncoder", index="int")
    requires = lambda self, index: S.LONG_MIN <= index <= S.LONG_MAX and self._fo.pos == len(self._fo.data)
    modifies = ["self._fo"]
    ensures = lambda self, index, result: (
        self._fo.data == old.self._fo.data + S.long_bytes(index)
        and self._fo.pos == len(self._fo.data) and result is None)


@target(M, "BinaryEncoder.write_item_count")
class write_item_count:
    types = dict(self="BinaryEncoder", length="int")
    requires = lambda self, length: S.LONG_MIN <= length <= S.LONG_MAX and self._fo.pos == len(self._fo.data)
    modifies = ["self._fo"]
    ensures = lambda self, length, result: (
        self._fo.data == old.self._fo.data + S.long_bytes(length)
        and self._fo.pos == len(self._fo.data) and result is None)


@target(M, "BinaryEncoder.write_array_end")
class write_array_end:
    types = dict(self="BinaryEncoder")
    requires = lambda self: self._fo.pos == len(self._fo.data)
    modifies = ["self._fo"]
    ensures = lambda self, result: (
        self._fo.data == old.self._fo.data + b"\x00"
        and self._fo.pos == len(self._fo.data) and result is None)


@target(M, "BinaryEncoder.write_map_end")
class write_map_end:
    types = dict(self="BinaryEncoder")
    requires = lambda self: self._fo.pos == len(self._fo.data)
    modifies = ["self._fo"]
    ensures = lambda self, result: (
        self._fo.data == old.self._fo.data + b"\x00"
        and self._fo.pos == len(self._fo.data) and result is None)


@target(M, "BinaryEncoder.write_index")
class write_index:
    types = dict(self="BinaryEncoder", index="int", schema="py")
    requires = lambda self, index: S.LONG_MIN <= index <= S.LONG_MAX and self._fo.pos == len(self._fo.data)
    modifies = ["self._fo"]
    ensures = lambda self, index, result: (
        self._fo.data == old.self._fo.data + S.long_bytes(index)
        and self._fo.pos == len(self._fo.data) and result is None)


@target(M, "BinaryEncoder.write_array_start")
class write_array_start:
    types = dict(self="BinaryEncoder")
    modifies = []
    ensures = lambda self, result: result is None


@target(M, "BinaryEncoder.write_map_start")
class write_map_start:
    types = dict(self="BinaryEncoder")
    modifies = []
    ensures = lambda self, result: result is None


@target(M, "BinaryEncoder.end_item")
class end_item:
    types = dict(self="BinaryEncoder")
    modifies = []
    ensures = lambda self, result: result is None


@target(M, "BinaryEncoder.flush")
class flush:
    types = dict(self="BinaryEncoder")
    modifies = []
    ensures = lambda self, result: result is None
