#!/bin/bash
# usage: seed_run.sh <seed-dir-name> <prop> [<prop>...] : run vcheck for the properties against a scratch copy with the seeded patch
S=$1; shift
W=/tmp/seedrun/$S
rm -rf $W; mkdir -p /tmp/seedrun
git -C /repo worktree prune; git -C /repo worktree add -q --detach $W HEAD || exit 2
git -C $W apply /verif/seeded/$S/patch.diff || { echo "patch does not apply"; exit 2; }
cd /verif
rm -rf /tmp/seedrun/_keep && mkdir -p /tmp/seedrun/_keep && cp -r /verif/evidence /verif/ledger /tmp/seedrun/_keep/
for P in "$@"; do
  PYVC_REPO=$W ./vcheck $P --tier quick > /tmp/seedrun/$S.$P.log 2>&1; RC=$?
  echo "seed $S vs $P: exit $RC; $(grep -c '^VIOLATION' /tmp/seedrun/$S.$P.log) VIOLATION line(s)"
  grep -m2 -B1 '^VIOLATION' /tmp/seedrun/$S.$P.log | cut -c1-300
done
git -C /repo worktree remove --force $W
cp -r /tmp/seedrun/_keep/evidence/. /verif/evidence/; cp -r /tmp/seedrun/_keep/ledger/. /verif/ledger/; rm -rf /tmp/seedrun/_keep
