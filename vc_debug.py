import sys, time
sys.path.insert(0, '/verif')
from pyvc.verifier import Engine
from pyvc import run
eng = Engine().load()
import os
if os.environ.get('PYVC_QUICK_CLI'): eng.quick_cli = True
pats = [a for a in sys.argv[1:] if not a.startswith("-")]
results = []
allc = list(eng.contracts.by_key.items()) + [(("<lemma>", n, "default"), c) for n, c in eng.contracts.lemmas.items()]
for key, c in allc:
    if c.trusted:
        continue
    name = f"{key[0]}:{key[1]}[{key[2]}]"
    if pats and not any(p in name for p in pats):
        continue
    res = run.generate(eng, c)
    run.apply_case_splits(eng, c, res)
    results.append(res)
wall = run.solve_parallel(eng, results, jobs=14)
tot = 0
for res in results:
    print("==", res.key, "paths", res.paths, "gen %.2fs solve %.2fs" % (res.gen_time, res.solve_time))
    if res.unsupported: print("   UNSUPPORTED:", res.unsupported)
    if res.error: print("   ERROR:", res.error)
    if res.anchor_missing: print("   ANCHOR MISSING")
    if not all(ok for _, ok in res.covers): print("   covers", res.covers)
    for o in res.obligations:
        tot += 1
        if o.verdict != "discharged" or "-a" in sys.argv:
            print("   %-12s %6.2fs f=%s %s %s" % (o.verdict, o.time, getattr(o, "fuel_used", None), o.name, (o.reason or "")[:200]))
            if "-v" in sys.argv:
                print("      goal:", o.goal)
                for h in o.hyps: print("      hyp:", h)
                if getattr(o, "model_summary", None): print("      model:", o.model_summary)
print("obligations", tot, "wall %.1fs" % wall)
