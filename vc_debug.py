import sys, time
sys.path.insert(0, '/verif')
from pyvc.verifier import Engine
from pyvc import run
eng = Engine().load()
pat = sys.argv[1] if len(sys.argv) > 1 else ""
for key, c in eng.contracts.by_key.items():
    if pat and pat not in f"{key[0]}:{key[1]}[{key[2]}]":
        continue
    res = run.generate(eng, c)
    run.solve_all(eng, res)
    print("==", key, "paths", res.paths, "gen %.2fs solve %.2fs" % (res.gen_time, res.solve_time))
    if res.unsupported: print("   UNSUPPORTED:", res.unsupported)
    if res.error: print("   ERROR:", res.error)
    if res.anchor_missing: print("   ANCHOR MISSING")
    print("   covers", res.covers)
    for o in res.obligations:
        print("   %-12s %6.2fs %s" % (o.verdict, o.time, o.name))
        if o.verdict != "discharged" and "-v" in sys.argv:
            print("      goal:", o.goal)
            for h in o.hyps: print("      hyp:", h)
            if o.model is not None: print("      model:", o.model)
